#!/usr/bin/env python3
"""Regenerates MANIFEST.json from the table below (one source of truth for registered checks)."""
import json
import os
import subprocess

VERIF = os.path.dirname(os.path.dirname(os.path.abspath(__file__)))

_DB_NOTE = ("histories are sampled (seeded), not enumerated; databases of <= 10-12 elements, 4 alias names, 3 keys; "
            "the database is observed only through its public query API; TLC decides every event against DbModel")
_DB_TECH = "TLA+ trace validation (TLC) of recorded query histories against the DbModel specification"


_MBT_TX = (" Spec -> implementation, bounded-exhaustive: TLC (MCDbExport) prints one shortest history through every "
           "transition of the bounded DbModel (every mutating query form, rejected ones included, in every distinct reachable "
           "abstract state up to depth 3: 89 469 transitions; the quick tier replays all histories of <= 2 queries and a seeded "
           "eighth of the rest); each is executed on the real database in four plans (as printed; last query / last two queries "
           "inside a transaction the closure aborts; last two inside a committing transaction), partly on the file-backed "
           "variants with a reopen before the dump, and DbTrace decides every replayed run.")
_MBT_GRAPH = (" Spec -> implementation, bounded-exhaustive: TLC (MCGraphExport) prints one history per distinct graph of the "
              "bounded model (<= 3 nodes, <= 3-4 edges in every insertion order, self-loops, parallel edges, cycles, one removal "
              "with slot reuse: 5 152 / 45 098 graphs); each is built on the real database and EVERY search of the family (each "
              "element and a missing id as origin, forward / reverse, breadth / depth first, the elements search) is decided by "
              "DbTrace against DbSearch.")


def _db(text, design, mc=False, mbt=None):
    return dict(level="model_checking",
                text=text + (" DbModel itself is model-checked exhaustively for small constants (MCDb)." if mc else "")
                + (_MBT_TX if mbt == "tx" else _MBT_GRAPH if mbt == "graph" else ""),
                design=design, note=_DB_NOTE,
                technique=_DB_TECH + (" + TLC model checking of the bounded model" if mc else "")
                + (" + replay of TLC-generated histories (every transition / every graph of the bounded model) on the real database" if mbt else ""),
                engine="vdb")


CHECKS = {
    "C01": dict(
        level="fault_enumeration",
        text="WalStorage.tla model-checked exhaustively for small constants (every call sequence, nesting, torn "
             "log tail, torn data write, crash during recovery); every disk image of the bounded model recovered by "
             "the real FileStorage::new and compared with the model's prediction; random Storage-level programs on the "
             "real FileStorage/FileStorageMemoryMapped with every system-call prefix and every byte-prefix of every "
             "pending write recovered by the real code and compared with the last committed image; the system-call "
             "trace validated by TLC against WalTrace.tla; the same programs with values of 64 KiB .. 200 KB (clean crash point "
             "at every system call, sampled torn prefixes incl. both sides of every 64 KiB boundary), decided by the driver's "
             "byte comparison because byte strings of that size are out of TLC's reach.",
        design="3.1, 4 C01",
        note="page-cache writes are visible in program order; crash = process death (no power-loss reordering); "
             "exhaustive only for the stated constants (files <= 5 bytes); hook H1 fires before every mutating call "
             "(completeness of the hook is cross-checked by comparing the model's file image with the real file).",
        technique="TLA+ model checking (TLC) + trace validation + crash-point enumeration against the real recovery",
        engine="vstorage"),
    "C02": dict(
        level="fault_enumeration",
        text="Generated query histories (single queries and transaction_mut closures, commits and aborts) run on the real Db and "
             "DbFile with hook H1; before every mutating file-system call of every step, and of every close (drop-time "
             "defragmentation), both files are snapshotted, plus two torn prefixes of the pending write. Every distinct image is "
             "reopened by EVERY file-backed variant (Db, DbFile, DbAny file, DbAny mapped) and fully dumped through the public "
             "API (elements, endpoints, properties, aliases, indexes, adjacency). TLC (DbTrace.tla, CrashMode = readable) "
             "requires each CrashProbe event to be ok (opened, no panic, every read succeeded) and its dump to satisfy DbInv. A second "
             "profile (crash_big) uses values of exact sizes around 64 KiB multiples (65535 / 65536 / 65537 / 131072 / ...) replaced "
             "in place, removed and reused.",
        design="3.1, 3.3, 4 C02",
        note="crash = process death (calls before the crash point are on disk in program order, none after); histories and, for "
             "steps with more than 60 distinct images, images are sampled (seeded); hook H1 completeness is cross-checked by C01",
        technique="crash-point enumeration on the real database, each recovered image decided by TLA+ trace validation (TLC)",
        engine="vdb"),
    "C03": dict(
        level="fault_enumeration",
        text="Same crash-point engine as C02. The trace carries, after each step's own event and the Observe that validates the "
             "model state, one CrashProbe event per DISTINCT recovered dump of that step; DbTrace.tla keeps the model state "
             "before the step (prev) and after it (db) and requires DumpState(dump) = prev or = db (CrashMode = atomic). "
             "Because every step is also validated against DbModel, 'everything completed earlier is preserved' follows from "
             "prev being the validated state.",
        design="3.3, 4 C03",
        note="as C02; at most 120 images per step; cross-variant reopen on every 7th image",
        technique="crash-point enumeration on the real database, atomicity decided by TLA+ trace validation (TLC) against DbModel",
        engine="vdb"),
    "C04": dict(
        level="model_checking",
        text="StorageAlloc.tla, a cell-level model of storage.rs (record table, free list, best-fit placement, split / "
             "coalesce, truncate at end, defragmentation, reopen by walking headers) is model-checked exhaustively for small "
             "constants (Tiling, TableMatchesDisk, ValuesIntact, Tight); random histories of insert / insert-at (incl. beyond "
             "the end) / replace / resize / move / remove / optimize / reopen on the real Storage<D> (hook H2) over "
             "MemoryStorage, FileStorage and FileStorageMemoryMapped log the full projection (record table, free regions, "
             "length, every live value, error for every removed index) after every operation and TLC decides each step "
             "against the property-level StorageAllocTrace.tla (placement policy left free).",
        design="3.2, 4 C04",
        note="exhaustive for the scaled constants only (<= 3 live values of 0-3 cells, 5-7 operations); histories on the real "
             "storage are sampled (<= 8 live values of 0-48 bytes); operations are issued with valid indexes",
        technique="TLA+ model checking (TLC) of the allocator mechanism + trace validation of the real Storage<D>",
        engine="vstorage"),
    "C05": _db("Histories interleaved with reopen / optimize_storage / shrink_to_fit / backup+open-backup / copy / rename / "
               "reopen-with-the-other-file-variant on Db, DbFile and DbMemory; every maintenance step must stutter on the "
               "DbModel state and the full canonical dump (ids, endpoints, ordered properties, aliases, indexes with counts, "
               "adjacency order of every node, elements order) taken after it must equal the model state; in addition an "
               "order-sensitive fingerprint of everything a reader sees (the dump lists as returned, the alias and index listings, the "
               "ids of every index search in the order returned) is taken before and after each operation and must be equal "
               "(DbTrace!TMaintain: order_same). Profiles with values of 40 KB - 2.3 MB and with integers hashing to the last slots of "
               "the 64-slot tables.", "3.3, 4 C05"),
    "C06": _db("Every query of a generated history is executed in lock-step on DbMemory, DbFile, Db and DbAny (memory, file, "
               "mapped); TLC requires every variant's ok/result to equal the primary's and the primary's to conform to "
               "DbModel; the dumps of all variants must have equal digests after every step.", "3.3, 4 C06"),
    "C08": _db("Node/edge insert (single, pairwise, each), removal by id and alias with cascade, id reuse, self-loops, "
               "parallel edges, bad endpoints: each query's success/failure, returned ids (fresh, signed) and the full dump "
               "afterwards (endpoints, per-node in/out adjacency, node count, edge counts) must be what DbModel allows.",
               "3.3, 4 C08", mc=True, mbt="tx"),
    "C09": _db("insert values / insert-or-update nodes and edges / remove values / element removal: the ordered key-value "
               "map of every element after every step, select values (all, by keys, missing key error), select keys and "
               "key counts must equal DbModel.", "3.3, 4 C09", mc=True, mbt="tx"),
    "C10": _db("alias insert / re-alias / steal / edge ids / empty alias / alias removal / node removal: the alias mapping "
               "after every step, alias resolution of ids, select aliases and all aliases must equal DbModel's bijection; "
               "the named bad inputs must fail without effect.", "3.3, 4 C10", mc=True, mbt="tx"),
    "C11": _db("index create/remove at arbitrary points, value inserts/replacements/removals on indexed and non-indexed keys, "
               "element removal with cascade, failing transactions: every index search and the index listing are compared "
               "with the operators IndexIds / IndexCount DERIVED from the model state.", "3.3, 4 C11", mbt="tx"),
    "C12": _db("values of all nine types (extreme integers, all float classes incl. NaN payloads and signed zeros, strings "
               "and byte arrays of length 0..40 around the inline limit, multi-byte UTF-8, vectors) as keys and as values on "
               "DbMemory, DbFile and Db in lock-step incl. after reopen/backup; values are carried as bit-exact tokens and "
               "TLC demands token equality through DbModel's key-value semantics.", "3.3, 4 C12"),
    "C20": dict(
        level="exploration",
        text="LIMITED claim: framing and sizes. Values of the built-in serializable types (integers, floats incl. signed zero and "
             "infinities, bool, usize, strings with 1-4 byte UTF-8, byte vectors, nested vectors, PathBuf, SocketAddr (v4, v6, v4-mapped), IpAddr, "
             "SystemTime before and after the epoch) and of a corpus of DbSerialize-derived types (named / tuple / unit structs, "
             "nested, enums with unit / tuple / struct / nested variants, vectors of zero-size elements) are serialized, measured and deserialized by the real "
             "code; each event carries the framing tree written by hand from the format rules. Codec.tla recomputes the size and the "
             "offset and value of every length prefix and variant tag from the tree and requires Len(bytes) = reported size = "
             "Size(tree), Framed(bytes, tree) and a successful round trip.",
        design="B.3.7, B.4 C20, A.6",
        note="leaf contents (scalar byte order, float bits, UTF-8) are opaque to TLC and decided only by the driver's round-trip "
             "equality; DbValue (all nine variants, NaN / signed zero) / DbKeyValue / DbId / QueryId and the crate's own query types "
             "(SearchQuery with nested conditions of every kind, Insert{Values,Nodes,Edges,Aliases,Index}Query, SelectValuesQuery, "
             "RemoveQuery, QueryIds / QueryValues inside them) are opaque values (size = length, round trip); values are sampled",
        technique="TLA+ (TLC) evaluation of an independent framing / size oracle over recorded serializations",
        engine="vdb"),
    "C22": _db("A corpus of user types deriving agdb::DbType and agdb::DbElement (required + optional fields, optional only, plain; scalars, strings and byte arrays across the inline limit, bool, f64, "
               "vectors of strings / integers / floats, Option fields, id fields of type Option<DbId> and Option<QueryId>, a type "
               "without id, a type with #[agdb(rename)] on a required and on an optional field, a #[agdb(flatten)] nested type and a #[agdb(skip)] field, custom value types deriving DbValue + DbTypeMarker + DbSerialize as a field / in a vector / optional) is inserted with insert().element / elements, updated through the id field, and selected back as that "
               "type, on DbMemory, DbFile and Db. The trace carries InsertValues events whose pairs are the HAND-WRITTEN expectation "
               "of the documented mapping (keys = field names or their renames in declaration order, flattened fields in place, db_id and skipped fields absent, None => key absent), not the "
               "macro's output; DbTrace applies them to DbModel and the Observe taken from the real database after each step must "
               "equal the model (wrong key, dropped field, wrong order, wrong target element surface there); TypedRead events "
               "require that the value selected as T equals the value written.", "B.3.3, B.4 C22"),
    "C13": _db("transaction_mut closures of 1-4 queries that commit, abort on their own, or contain a failing query, and "
               "single queries failing after partial work: TLC requires the dump after a rollback to equal the state before "
               "it up to the order of properties/connections (SameUpToOrder).", "3.3, 3.5, 4 C13", mbt="tx"),
    "C14": _db("breadth-first / depth-first searches without conditions, forward and reverse, from node and edge origins on "
               "random multigraphs with self-loops, parallel edges, cycles, removals and id reuse; TLC requires the recorded "
               "result to EQUAL the reference traversal (DbSearch!Traverse) computed on the model state that the mutation "
               "events built (adjacency newest-first, distance in element steps).", "3.4, 4 C14", mbt="graph"),
    "C15": _db("random condition trees (depth <= 3: node, edge, distance, edge counts, ids, keys, key-value comparisons incl. "
               "cross-type values and contains/starts/ends, nested where, and/or, not/beyond/not-beyond) over random "
               "property-bearing graphs, BFS and DFS both directions; TLC requires equality with DbSearch!EvalList-driven "
               "traversal (the documented truth tables, type-strict comparisons).", "3.4, 4 C15"),
    "C16": _db("every generated search is executed without slicing/ordering, with ordering only, and in full; TLC requires "
               "ordered = a stable sort of the base result by the order-by keys (missing key last) and result = "
               "Slice(ordered, offset, limit) with limits/offsets in 0..n+3 over BFS, DFS, path and elements searches; a "
               "panic is a Panic event and rejects the trace.", "3.4, 4 C16"),
    "C17": _db("path searches between random node pairs (and non-node / missing endpoints) under random condition sets; TLC "
               "enumerates all usable node-simple alternating paths of the model state and requires the result to be the "
               "passing elements of SOME minimum-cost path (cost 1 passing / 2 not passing / unusable where the conditions "
               "stop), empty iff none exists.", "3.4, 4 C17"),
    "C18": _db("elements searches after histories with removals and id reuse: TLC requires the result to contain every live "
               "element exactly once in increasing id magnitude (InSlotOrder).", "3.4, 4 C18", mbt="graph"),
    "C19": dict(
        level="model_checking",
        text="HashMap.tla, a slot-level model of multi_map.rs (probing, tombstones, grow/shrink thresholds) with the minimum "
             "capacity scaled to 4, is model-checked exhaustively (NoHang, CountExact, LayoutOk); the real "
             "MultiMapStorage<u64,u64> with the real constant 64 is driven through hook H2 and the complete slot table "
             "after every operation must equal the model's (slot-exact trace validation; on disagreement the same trace is "
             "decided at property level: same content, every entry findable, no hang); alias and index churn histories "
             "of 400 steps on the real database run under a watchdog and are validated against DbModel.",
        design="3.6, 4 C19",
        note="exhaustive for the scaled constant only; hangs are detected by a 10-20 s no-progress watchdog inside the "
             "drivers (operations take microseconds)",
        technique="TLA+ model checking (TLC) of the scaled mechanism + slot-exact trace validation at the real constant",
        engine="vstorage"),
    "C23": dict(
        level="model_checking",
        text="SharedRead.tla models FileStorage::read (shared cursor, try_lock, fresh handle on contention, seek and read as separate "
             "steps): ReadsOwnPosition and SharedHandleExclusive hold exhaustively for 3 readers, and fail when the lock is released "
             "after the seek (non-vacuity probe). On the real code N threads released by a barrier run read queries on one DbFile "
             "with hook H3 reporting every storage read of every thread (handle chosen, position, bytes returned, global atomic "
             "sequence numbers, a yield between seek and read); SharedReadTrace.tla decides every read (bytes = the file's bytes at "
             "the requested position) and every query (digest = sequential baseline, no failure, no panic).",
        design="3.8, 4 C23",
        note="thread schedules on the real code are sampled; the database file does not change during a run; DbFile only (the other "
             "variants read from memory)",
        technique="TLA+ model checking (TLC) of the shared-cursor mechanism + trace validation of concurrent reads on the real DbFile",
        engine="vdb"),
    "C24": dict(
        level="model_checking",
        text='A real agdb_server process (built from /repo) is driven with random multi-user request sequences (two profiles: the whole endpoint table; and few operation kinds with many role holders - the same database name under several owners, roles granted, changed and removed, every role-gated operation tried by every kind of holder) over the whole documented endpoint table (user and /admin/ API: sessions, users, database add/delete/remove/copy/rename/backup/restore/rollback/clear/convert/optimize/exec/exec_mut/audit, database users) with valid, logged-out, deleted-user and bogus tokens; after every request the complete visible state (users, databases, roles, content, audit, files) is observed through a reserved admin session. ServerTrace.tla decides every request: 2xx only if the token is a live session AND Permitted (the documented table, literally); a rejected request leaves the observed state unchanged; a performed request changes only what its operation may change and role / user / session changes have their documented effect (revocation is immediate because the next request is judged against the updated state). Spec -> implementation, bounded-exhaustive: MCServerExport.tla (ServerTrace plus a constructive bounded state machine with the same Permitted table; TLC checks that every constructive successor satisfies ServerTrace!Effect) prints a shortest request history through every transition - every request form (callers alice, bob, the server admin, no session; every role-gated operation; every database key) in every distinct reachable configuration of databases and roles (8 320 transitions at depth 4; the quick tier replays a seeded sample of ~1 500) - and each is replayed on a real server and decided by ServerTrace; at least 90 % of the replayed requests must have the outcome the model expects (vacuity guard).',
        design='A.1, 3.11, 4 C24',
        note="request sequences are sampled (seeded), one client at a time, 2 users + the server admin; sessions are tracked from "
             "login/logout because they are not observable; token expiry is not exercised (configuration minimum 60 s); single "
             "node server (every action still goes through the cluster log of one)",
        technique="TLA+ trace validation (TLC) of request/observation traces of a real agdb_server process against the ServerTrace "
                  "specification + replay of TLC-generated request histories (every transition of the bounded permission model)",
        engine="vserver"),
    "C25": dict(
        level="model_checking",
        text='As C24 with batch-heavy traffic: exec / exec_mut batches mixing reads, inserts, alias inserts, failing reads, failing writes and :N result references (valid and dangling). ServerTrace!BatchEval evaluates each batch over the content model (node count, edge count, aliases): a 2xx batch must have applied every query, any other status must leave content AND audit unchanged, and the audit log must grow by exactly the mutating queries of applied batches, in order, attributed to the caller (observed through the audit endpoint after every request); backup / restore / rollback / clear in between.',
        design='3.11, 4 C25',
        note="request sequences are sampled (seeded), one client at a time, 2 users + the server admin; sessions are tracked from "
             "login/logout because they are not observable; token expiry is not exercised (configuration minimum 60 s); single "
             "node server (every action still goes through the cluster log of one)",
        technique="TLA+ trace validation (TLC) of request/observation traces of a real agdb_server process against the ServerTrace "
                  "specification",
        engine="vserver"),
    "C26": dict(
        level="model_checking",
        text="As C24 with database names drawn from a path-like alphabet (hidden names, 'audit', 'backups', 'audit/a.log', 'backups/a.bak', '../a', '../bob/a', 'a/../b', './a', '..') for add / copy / rename (user API and admin API incl. cross-owner copies and renames) and the follow-up operations; the observation lists every file under and around the data directory with its owner directory, and for every database the normalised paths the server's name-to-path mapping assigns. ServerTrace.tla requires: every file lies in an existing user's directory, files a copy / rename creates lie in the directory of the TARGET owner and files a request removes in the directory of the database's owner, every database's paths lie in its owner's directory, and no path belongs to two databases.",
        design='3.11, 4 C26',
        note="request sequences are sampled (seeded), one client at a time, 2 users + the server admin; sessions are tracked from "
             "login/logout because they are not observable; token expiry is not exercised (configuration minimum 60 s); single "
             "node server (every action still goes through the cluster log of one); path normalisation and the owner-directory projection are computed by the driver (TLC has no string operations)",
        technique="TLA+ trace validation (TLC) of request/observation traces of a real agdb_server process against the ServerTrace "
                  "specification",
        engine="vserver"),
    "C27": dict(
        level="model_checking",
        text='AgdbRaft.tla (raft.rs transcribed handler by handler in RaftCore.tla; lossy, duplicating network; free timers) is model-checked: ElectionSafety (history of <<node, term>> leaders) holds exhaustively for the election configuration. The vraft simulator runs seeded random schedules (delivery, loss, duplication, arbitrary timer expiries, 3 and 5 nodes) on the REAL raft.rs; RaftTrace.tla decides every step (same process() branch for the logged time, same response, same new requests, same complete node state) and evaluates ElectionSafety in every state. The TLC counterexample of the unrepaired protocol (two votes in one term, D12) is replayed on the real code on every run. On model drift the executions are decided at property level (RaftTraceAbs) with a tripled budget.',
        design='3.9, 4 C27',
        note="exhaustive only for the constants of the TLC configurations (3 nodes, terms <= 2, log <= 2, budgets of timer firings / "
             "heartbeats / messages in flight, loss decided at send time); schedules on the real code are sampled (seeded, 3 and 5 "
             "nodes); the simulator's log store mirrors ClusterStorage/ClusterLog; raft.rs is the unmodified file from /repo with the "
             "clock import substituted at build time; node restarts are outside the property's quantifier",
        technique="TLA+ model checking (TLC) + trace validation of the real raft.rs in a deterministic simulator + replay of TLC "
                  "counterexamples on the real code",
        engine="vraft"),
    "C28": dict(
        level="model_checking",
        text='As C27 with client appends: CommitAgreement, CommitStable (an entry once committed on a node is never removed or replaced) and CommitMonotone are invariants of AgdbRaft.tla and of every validated execution of the real raft.rs. The protocol violates CommitAgreement (defects D13/D13b: TLC counterexample, 13 steps from an established leader, replayed on the real code on every run and reported as KNOWN-FINDING); the model-checking configuration therefore checks the properties for behaviours that no listed defect trigger (RaftCore!Triggers, history variable) explains, and any violation on the real code whose trigger set is not listed is reported. The trigger explanation is causal (RaftCore!TrigFor): a listed trigger explains a CommitAgreement / CommitStable violation only if one of the disagreeing entries is tainted by it (committed by the D13 rule without a real majority, or lying below an entry accepted without previous-entry check; taint travels with the entry) or a later leader already lacked a committed entry because of one. Executions in which the code leaves the model (MODEL-DRIFT) are continued from the drifting step 40 times over a benign network and 30 times with the drifting node cut off while the others elect and take appends, then healed. Cluster sizes 3, 4 and 5.',
        design='A.5, 3.9, 4 C28, 6 D13',
        note="exhaustive only for the constants of the TLC configurations (3 nodes, terms <= 2, log <= 2, budgets of timer firings / "
             "heartbeats / messages in flight, loss decided at send time); schedules on the real code are sampled (seeded, 3 and 5 "
             "nodes); the simulator's log store mirrors ClusterStorage/ClusterLog; raft.rs is the unmodified file from /repo with the "
             "clock import substituted at build time; node restarts are outside the property's quantifier",
        technique="TLA+ model checking (TLC) + trace validation of the real raft.rs in a deterministic simulator + replay of TLC "
                  "counterexamples on the real code",
        engine="vraft"),
    "C29": dict(
        level="model_checking",
        text='As C28 for LeaderCompleteness: the entries a node commits while Leader are recorded (history), and at every step in which a node becomes Leader its log must contain all of them. The D13b counterexample extended by one election (a node holding a different entry at a committed index is elected) is replayed on the real code on every run (KNOWN-FINDING).',
        design='3.9, 4 C29, 6 D13',
        note="exhaustive only for the constants of the TLC configurations (3 nodes, terms <= 2, log <= 2, budgets of timer firings / "
             "heartbeats / messages in flight, loss decided at send time); schedules on the real code are sampled (seeded, 3 and 5 "
             "nodes); the simulator's log store mirrors ClusterStorage/ClusterLog; raft.rs is the unmodified file from /repo with the "
             "clock import substituted at build time; node restarts are outside the property's quantifier",
        technique="TLA+ model checking (TLC) + trace validation of the real raft.rs in a deterministic simulator + replay of TLC "
                  "counterexamples on the real code",
        engine="vraft"),
    "C30": dict(
        level="model_checking",
        text="AgdbRaftHealthy.tla: RaftCore with its real timer arithmetic (virtual ms), a global clock that only advances when nothing is in "
             "flight and no process() branch is due, a reliable network, all delivery orders; 'eventually' is the state invariant "
             "HealthyProgress (at every quiet state at or after the deadline: exactly one leader, all in its term, equal logs, every entry "
             "appended Settle ms earlier committed everywhere), with a vacuity probe. The vraft simulator runs the real raft.rs in the same "
             "regime from the cold start and after a fault-ridden election prefix (2, 3, 4 and 5 nodes, 30 s of virtual time, client appends; "
             "profiles with client appends DURING the prefix so that the logs differ when the network heals; a second timing "
             "configuration with heartbeat 250 ms < election factor); RaftTrace.tla decides conformance of every step and Converged at "
             "the final Quiet event. The two-node model started with terms one apart converges with the repaired vote rule (D24) and "
             "provably does not without it (probe).",
        design="3.9, 4 C30",
        note="healthy = no loss/duplication, zero latency relative to the timers, process() at every clock step, synchronous clocks, "
             "shipped timer ratios; bounded-time convergence stands in for 'eventually' (model: 1 s after cold start, horizon 5 s; "
             "implementation: observed after 30 s); healthy schedules on the real code are sampled; two timing configurations",
        technique="TLA+ model checking (TLC) of the timed healthy model + trace validation of the real raft.rs in a deterministic simulator",
        engine="vraft"),
    "C31": dict(
        level="model_checking",
        text="ApplyOrder.tla models the hand-over of committed entries to the executor: as a queue it satisfies InOrderOnce exhaustively "
             "(executions start in increasing index order, each once, one at a time); the task-per-entry mechanism of the pinned code "
             "violates it (kept as the non-vacuity probe). A real agdb_server process built with hook H5 (commit / start / end of "
             "every cluster log entry appended to an event file; the start of entry i delayed by d*(3 - i mod 4) ms) is loaded by 6 "
             "concurrent clients issuing cluster actions; ApplyTrace.tla decides the event file: commits in log order, an execution "
             "starts only for the oldest pending entry and only when none is running, every committed entry executed once. Some actions "
             "fail (batches with a failing query); after all requests are answered the server is stopped and started again on the same "
             "data and takes more actions: ApplyOrder has a Restart action (entries not marked executed are handed over again; probe "
             "MCApplyOrder_nomark.cfg) and ApplyTrace rejects any second execution.",
        design="3.10, 4 C31",
        note="single node server (the executor code is the same on every node); task schedules are sampled and perturbed by the hook's "
             "delay, which cannot make an in-order executor run out of order; one clean restart per server (a crash in the middle of "
             "an execution is not exercised)",
        technique="TLA+ model checking (TLC) of the executor model + trace validation of the hook's event file from a real server",
        engine="vserver"),
    "C32": dict(
        level="fault_enumeration",
        text="A public StorageData wrapper around the real FileStorage (no hook) makes the k-th write/resize call of a query "
             "fail. For every step of generated histories and every sampled k the step runs on a copy of the database with call "
             "k failing, followed by later mutations, close, and reopen with DbFile and Db. Each probe is one run of the trace; "
             "DbTrace.tla (skip mode) requires: the faulted step reports an error and leaves the model state unchanged "
             "(Unchanged13), every later step behaves as DbModel says (the database stays usable), and the dumps after reopen "
             "equal the model state (nothing lost, file readable).",
        design="B.3.1, B.4 C32, A.3 D15",
        note="a fault is one StorageData call failing before anything reaches the file, one fault per probe; at most 16 (quick) / 40 "
             "(thorough) fault points per step; the wrapper forwards StorageData::rollback to the real FileStorage",
        technique="fault injection at every storage call of the real database, each run decided by TLA+ trace validation (TLC)",
        engine="vdb"),
}

ENGINES = [
    {"name": "vstorage", "path": "harness/vstorage", "serves_properties": ["C01", "C04", "C19"],
     "kind_free_text": "Rust drivers over the real storage layer and hash map (hooks H1, H2); TLC for WalStorage/WalTrace, StorageAlloc/StorageAllocTrace, HashMap/HashMapTrace"},
    {"name": "vdb", "path": "harness/vdb",
     "serves_properties": ["C02", "C03", "C20", "C22", "C23", "C32", "C05", "C06", "C08", "C09", "C10", "C11", "C12", "C13", "C14", "C15", "C16", "C17", "C18"],
     "kind_free_text": "Rust driver recording query histories from the real database (all storage variants); "
                       "TLC for DbModel/DbSearch/DbTrace/MCDb"},
]

ENGINES.append({"name": "vraft", "path": "harness/vraft", "serves_properties": ["C27", "C28", "C29", "C30"],
                "kind_free_text": "deterministic simulator around the real agdb_server/src/raft.rs (virtual clock substituted at build time, "
                                  "in-memory log store mirroring ClusterStorage); TLC for RaftCore/AgdbRaft/AgdbRaftHealthy/RaftTrace"})

ENGINES.append({"name": "vserver", "path": "lib/serverdrv.py", "serves_properties": ["C24", "C25", "C26", "C31"],
                "kind_free_text": "Python driver around a real agdb_server process (binary built from /repo with the hook guard on); "
                                  "TLC for ServerTrace"})

NOT_APPLICABLE = [

    {"property_id": "C07", "reason": "robustness/memory-safety over arbitrary file bytes (panic, abort, allocation size): no state machine for a TLA+ specification to constrain, TLC cannot observe panics or allocations"},
    {"property_id": "C21", "reason": "decode robustness of pure functions on arbitrary bytes: nothing for a TLA+ specification to decide"},
]

PENDING_REASON = ("not built yet in this round: the specification and harness for it are planned in DESIGN.md "
                  "section 7 and will be registered when they run")


def main():
    props = [json.loads(l)["id"] for l in open(os.path.join(VERIF, "properties.jsonl")) if l.strip()]
    commits = subprocess.run(["git", "-C", "/repo", "log", "--format=%h %s"], stdout=subprocess.PIPE, text=True).stdout
    hook_commits = [l.split()[0] for l in commits.splitlines() if "verif hook" in l]
    checks = []
    for pid in props:
        c = CHECKS.get(pid)
        if not c:
            continue
        checks.append({
            "property_id": pid,
            "quick_cmd": "bin/check %s --tier quick" % pid,
            "thorough_cmd": "bin/check %s --tier thorough" % pid,
            "evidence_file": "evidence/%s.json" % pid,
            "replay_cmd_template": "bin/check %s --replay {path}" % pid,
            "engine": c["engine"],
            "level_claimed": {"category": c["level"], "text": c["text"], "design_ref": c["design"]},
            "level_note": c["note"],
            "technique": c["technique"],
        })
    na = list(NOT_APPLICABLE)
    na_ids = {x["property_id"] for x in na}
    for pid in props:
        if pid not in CHECKS and pid not in na_ids:
            na.append({"property_id": pid, "reason": PENDING_REASON})
    man = {
        "version": 1,
        "setup_cmd": "bin/setup",
        "hooks": {
            "guard": "agdb_verif",
            "enable": "rustc --cfg agdb_verif (set through rustflags in /verif/harness/.cargo/config.toml for the harness "
                      "workspace, which reaches the /repo path dependencies; RUSTFLAGS for the agdb_server build)",
            "baseline_off_cmd": "cd /repo && cargo nextest run --workspace --no-fail-fast --test-threads 8 --offline || cargo test --workspace --no-fail-fast --offline",
            "source_commits": hook_commits,
            "add_only": True,
        },
        "engines": ENGINES,
        "checks": checks,
        "not_applicable": sorted(na, key=lambda x: x["property_id"]),
        "notes": "Every check is `bin/check <ID> --tier quick|thorough`; exit 0 held / 1 VIOLATION / 2 tool error. "
                 "Specifications are in spec/, drivers in harness/, per-property drivers in checks/ and lib/.",
    }
    with open(os.path.join(VERIF, "MANIFEST.json"), "w") as f:
        json.dump(man, f, indent=1)
    print("MANIFEST.json: %d checks, %d not_applicable" % (len(checks), len(na)))


if __name__ == "__main__":
    main()
