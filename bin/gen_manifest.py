#!/usr/bin/env python3
"""Regenerates MANIFEST.json from the table below (one source of truth for registered checks)."""
import json
import os
import subprocess

VERIF = os.path.dirname(os.path.dirname(os.path.abspath(__file__)))

CHECKS = {
    "C01": dict(
        level="fault_enumeration",
        text="WalStorage.tla model-checked exhaustively for small constants (every call sequence, nesting, torn "
             "log tail, torn data write, crash during recovery); every disk image of the bounded model recovered by "
             "the real FileStorage::new and compared with the model's prediction; random Storage-level programs on the "
             "real FileStorage/FileStorageMemoryMapped with every system-call prefix and every byte-prefix of every "
             "pending write recovered by the real code and compared with the last committed image; the system-call "
             "trace validated by TLC against WalTrace.tla.",
        design="3.1, 4 C01",
        note="page-cache writes are visible in program order; crash = process death (no power-loss reordering); "
             "exhaustive only for the stated constants (files <= 5 bytes); hook H1 fires before every mutating call "
             "(completeness of the hook is cross-checked by comparing the model's file image with the real file).",
        technique="TLA+ model checking (TLC) + trace validation + crash-point enumeration against the real recovery",
        engine="vstorage"),
}

NOT_APPLICABLE = [
    {"property_id": "C07", "reason": "robustness/memory-safety over arbitrary file bytes (panic, abort, allocation size): no state machine for a TLA+ specification to constrain, TLC cannot observe panics or allocations"},
    {"property_id": "C21", "reason": "decode robustness of pure functions on arbitrary bytes: nothing for a TLA+ specification to decide"},
]

PENDING_REASON = "not built yet in this round: the specification and harness for it are planned in DESIGN.md section 7 and will be registered when they run"


def main():
    props = [json.loads(l)["id"] for l in open(os.path.join(VERIF, "properties.jsonl")) if l.strip()]
    commits = subprocess.run(["git", "-C", "/repo", "log", "--format=%h %s"], stdout=subprocess.PIPE, text=True).stdout
    hook_commits = [l.split()[0] for l in commits.splitlines() if "verif hook" in l]
    checks = []
    for pid in props:
        c = CHECKS.get(pid)
        if not c:
            continue
        checks.append({
            "property_id": pid,
            "quick_cmd": "bin/check %s --tier quick" % pid,
            "thorough_cmd": "bin/check %s --tier thorough" % pid,
            "evidence_file": "evidence/%s.json" % pid,
            "replay_cmd_template": "bin/check %s --replay {path}" % pid,
            "engine": c["engine"],
            "level_claimed": {"category": c["level"], "text": c["text"], "design_ref": c["design"]},
            "level_note": c["note"],
            "technique": c["technique"],
        })
    na = list(NOT_APPLICABLE)
    na_ids = {x["property_id"] for x in na}
    for pid in props:
        if pid not in CHECKS and pid not in na_ids:
            na.append({"property_id": pid, "reason": PENDING_REASON})
    man = {
        "version": 1,
        "setup_cmd": "bin/setup",
        "hooks": {
            "guard": "agdb_verif",
            "enable": "rustc --cfg agdb_verif (set through rustflags in /verif/harness/.cargo/config.toml for the harness "
                      "workspace, which reaches the /repo path dependencies; RUSTFLAGS for the agdb_server build)",
            "baseline_off_cmd": "cd /repo && cargo nextest run --workspace --no-fail-fast --test-threads 8 --offline || cargo test --workspace --no-fail-fast --offline",
            "source_commits": hook_commits,
            "add_only": True,
        },
        "engines": [
            {"name": "vstorage", "path": "harness/vstorage", "serves_properties": ["C01"],
             "kind_free_text": "Rust driver over the real storage layer with the fs hook; TLC for WalStorage/WalTrace"},
        ],
        "checks": checks,
        "not_applicable": sorted(na, key=lambda x: x["property_id"]),
        "notes": "Every check is `bin/check <ID> --tier quick|thorough`; exit 0 held / 1 VIOLATION / 2 tool error. "
                 "Specifications are in spec/, drivers in harness/, per-property drivers in checks/.",
    }
    with open(os.path.join(VERIF, "MANIFEST.json"), "w") as f:
        json.dump(man, f, indent=1)
    print("MANIFEST.json: %d checks, %d not_applicable" % (len(checks), len(na)))


if __name__ == "__main__":
    main()
