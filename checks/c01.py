"""C01 Log recovery restores the last committed storage content at every crash point.

(MC)  WalStorage.tla exhaustively: RecoverOK / IdleClean in every state (all call sequences,
      nestings, torn log tails, torn data writes, crash during recovery) for small constants.
(MBT) every distinct disk image of the bounded model is recovered by the REAL FileStorage::new and
      must give the bytes the model predicts (binds the model's recovery function to the code).
(TV)  random Storage-level programs on the real FileStorage / FileStorageMemoryMapped with the H1
      hook: the system-call trace must be a behaviour of WalStorage (WalTrace.tla) and every
      Probe (real recovery of the crash image before each system call) must equal `committed`.
(FE)  the driver additionally recovers EVERY byte-prefix of every pending write (torn crash points)
      and compares with the image at the last completed outermost transaction.
"""
import json
import os
import time

import vlib
from vlib import log

PROP = "C01"


def run(tier):
    t0 = time.time()
    thorough = tier == "thorough"
    verdict = vlib.Verdict(PROP)
    bins = vlib.build(["vstorage"])
    vst = os.path.join(bins, "vstorage")
    work = vlib.scratch("c01")
    tlc_cmds = []
    try:
        # ---- (MC) exhaustive model
        mc_cfgs = ["MCWal.cfg"] + (["MCWal_thorough.cfg"] if thorough else [])
        states = trans = 0
        for cfg in mc_cfgs:
            r = vlib.tlc("MCWal", cfg, workers=8, timeout=3000 if thorough else 600, tag="c01mc")
            vlib.require_mc_ok(r, cfg)
            tlc_cmds.append(r.summary())
            states += r.distinct
            trans += r.generated
            log("[mc] %s: %d distinct, %d generated, depth %d, %.0fs, violated=%s" %
                (cfg, r.distinct, r.generated, r.depth, r.wall, r.violated))
            if r.violated:
                # design-level counterexample of the mechanism as transcribed from the sources:
                # it is believed about the CODE only through the driver below, which runs the
                # same situations against the real recovery; recorded here for the reader.
                log("[mc] mechanism model violates %s (candidate; confirmed or refuted below)" % r.violated)
        # ---- (MBT) model images -> real recovery
        r = vlib.tlc("MCWalExport", "MCWalExport.cfg", workers=1, timeout=900, tag="c01exp")
        vlib.require_mc_ok(r, "MCWalExport")
        tlc_cmds.append(r.summary())
        img_file = os.path.join(work, "images.ndjson")
        n = 0
        with open(img_file, "w") as f:
            for line in r.output.splitlines():
                if line.startswith('<<"IMG", "'):
                    s = line[len('<<"IMG", '):-2]
                    f.write(json.loads(s) + "\n")
                    n += 1
        rr = vlib.run_bin(vst, ["wal-images", "--in", img_file, "--work", work])
        if rr.returncode != 0:
            raise vlib.ToolError("wal-images failed: " + rr.stderr[-2000:])
        img = json.loads(rr.stdout.strip().splitlines()[-1])
        log("[mbt] %d model states, %d distinct images, %d nontrivial, %d mismatches" %
            (n, img["distinct_images"], img["nontrivial"], img["mismatch_count"]))
        for m in img["mismatches"][:3]:
            verdict.report("model-image-recovery-differs",
                           "real FileStorage::new recovers a disk image differently from WalStorage!Recovered",
                           m)
        # ---- (TV + FE) real programs
        programs = 1500 if thorough else 150
        ops = 16 if thorough else 14
        trace = os.path.join(work, "wal_trace.ndjson")
        summs, files, died = vlib.run_chunked(vst, "wal", ["--seed", vlib.seed(), "--ops", ops],
                                              programs, 25, work)
        vlib.concat_traces(files, trace)
        drv = vlib.sum_keys(summs, ["programs", "syscalls", "crash_points", "torn_points",
                                    "distinct_images", "nontrivial_distinct", "mismatch_count"])
        drv["mismatches"] = [m for s_ in summs for m in s_["mismatches"]]
        drv["sample_images"] = [m for s_ in summs for m in s_["sample_images"]]
        log("[drv] programs=%d syscalls=%d crash_points=%d (torn %d) distinct=%d nontrivial=%d mismatches=%d died=%d" %
            (drv["programs"], drv["syscalls"], drv["crash_points"], drv["torn_points"],
             drv["distinct_images"], drv["nontrivial_distinct"], drv["mismatch_count"], len(died)))
        for (prog, how) in died[:5]:
            verdict.report("process-died-while-reopening",
                           "the process running program %d died (abort/oom/timeout): %s" % (prog, how),
                           {"program": prog, "seed": vlib.seed(), "how": how})
        for m in drv["mismatches"][:5]:
            sig = "recovery-differs-from-committed:" + str(m.get("at"))
            verdict.report(sig, "crash image recovers to something else than the last committed content "
                                "(program %s, system call %s, %s)" % (m.get("program"), m.get("hook"), m.get("at")), m)
        # ---- (FE, big) the same programs with values of 64 KiB .. 200 KB: sizes where an implementation may chunk,
        # buffer or split its log records; clean crash point at every system call, torn prefixes sampled (ends,
        # middle, both sides of every 64 KiB boundary); byte strings of this size are out of TLC's reach, the verdict
        # is RecoverOK evaluated by the driver (recovered bytes == committed bytes)
        bwork = os.path.join(work, "big")
        os.makedirs(bwork, exist_ok=True)
        bsumms, _bf, bdied = vlib.run_chunked(vst, "wal", ["--seed", vlib.seed(), "--ops", ops, "--big", 1],
                                              600 if thorough else 60, 10, bwork)
        big = vlib.sum_keys(bsumms, ["programs", "syscalls", "crash_points", "torn_points", "distinct_images",
                                     "nontrivial_distinct", "mismatch_count"])
        big["mismatches"] = [m for s_ in bsumms for m in s_["mismatches"]]
        log("[drv-big] programs=%d syscalls=%d crash_points=%d (torn %d) distinct=%d nontrivial=%d mismatches=%d died=%d" %
            (big["programs"], big["syscalls"], big["crash_points"], big["torn_points"], big["distinct_images"],
             big["nontrivial_distinct"], big["mismatch_count"], len(bdied)))
        for (prog, how) in bdied[:3]:
            verdict.report("process-died-while-reopening", "the process running big-value program %d died: %s" % (prog, how),
                           {"program": prog, "seed": vlib.seed(), "how": how, "big": True})
        for m in big["mismatches"][:5]:
            verdict.report("recovery-differs-from-committed:big:" + str(m.get("at")),
                           "crash image of a big-value program recovers to something else than the last committed content "
                           "(program %s, system call %s, %s): %s" % (m.get("program"), m.get("hook"), m.get("at"), vlib.short(m, 300)),
                           dict(m, seed=vlib.seed(), args="vstorage wal --big 1"))
        acc, rej, checked, wall = vlib.validate_runs("WalTrace", "WalTrace.cfg", trace, work,
                                                     timeout=1800, xmx="6g", tag="c01tv")
        log("[tv] %d runs accepted, %d rejected, %d events checked, %.0fs" % (acc, len(rej), checked, wall))
        for x in rej[:5]:
            ev = x["event"]
            sig = "trace-rejected:" + str(ev.get("ev"))
            verdict.report(sig, "WalTrace rejects the recorded execution at event %d of program run %d: %s"
                           % (x["event_index"], x["run"], vlib.short(ev, 200)),
                           {"event": ev, "prefix_tail": x["prefix"][-12:], "prefix_len": len(x["prefix"])})
        events = vlib.read_ndjson(trace)
        sample = [e for e in events[:60] if e.get("ev") != "Probe"][:25]
        cov = {
            "states": states, "transitions": trans,
            "traces_validated_against_impl": acc,
            "samples": [{"trace_prefix": sample}] + drv.get("sample_images", [])[:2] + img.get("samples", [])[:2],
            "evaluations": drv["crash_points"] + img["distinct_images"] + big["crash_points"],
            "distinct_nontrivial": drv["nontrivial_distinct"] + img["nontrivial"] + big["nontrivial_distinct"],
            "big_value_programs": {k: big[k] for k in big if k != "mismatches"},
            "rule": "crash image = (data file, log file) before each mutating system call plus every strict "
                    "byte-prefix of the pending write; distinct by content hash; non-trivial = log non-empty and "
                    "data differs from the committed image (recovery has to undo something)",
            "exhaustive": False,
            "mc_exhaustive_for_constants": True,
            "programs_run": drv["programs"], "syscalls": drv["syscalls"],
            "torn_crash_points": drv["torn_points"], "trace_events_checked": checked,
            "runs_rejected": len(rej), "model_images_replayed": img["distinct_images"],
            "tlc_runs": tlc_cmds,
        }
        vlib.write_evidence(PROP, tier, "fault_enumeration", cov, [
            "page cache writes become visible in program order (no reordering by the OS); crash = process death",
            "torn writes are byte-prefixes of a single write_all (all of them for writes <= 256 bytes; for the big-value "
            "programs a sample: ends, middle, both sides of every 64 KiB boundary)",
            "big-value programs (64 KiB .. 200 KB) are decided by the driver's byte comparison recovered == committed, "
            "not by WalTrace (sequences of that length are out of TLC's reach)",
            "exhaustive model: files <= 4-5 bytes, <= 3-4 StorageData calls, nesting <= 2, <= 1-2 crashes",
        ], time.time() - t0, len(verdict.violations),
            {"known_findings_seen": verdict.known_seen})
        return verdict.exit_code()
    finally:
        vlib.rm_scratch(work)
