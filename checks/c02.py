import crashcheck


def run(tier):
    return crashcheck.run("C02", tier, "DbTraceReadable.cfg", "readable")
