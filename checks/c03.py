import crashcheck


def run(tier):
    return crashcheck.run("C03", tier, "DbTrace.cfg", "atomic")
