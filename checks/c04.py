"""C04 Stored data survives any pattern of space reuse and defragmentation.

(MC)  StorageAlloc.tla: the record table / free list / best-fit placement / coalescing / defragmentation /
      reopen mechanism of storage.rs, exhaustively for small constants: Tiling, TableMatchesDisk,
      ValuesIntact, Tight.
(TV)  random histories of insert, insert-at (incl. beyond the end), replace, resize, move, remove, optimize,
      reopen on the real Storage<D> (hook H2) for MemoryStorage, FileStorage, FileStorageMemoryMapped; the
      projection after every operation is decided by TLC against the property-level StorageAllocTrace.tla.
"""
import os
import time

import dbcheck
import vlib
from vlib import log

PROP = "C04"


def run(tier):
    t0 = time.time()
    thorough = tier == "thorough"
    verdict = vlib.Verdict(PROP)
    work = vlib.scratch("c04")
    try:
        cfg = "MCStorageAlloc_thorough.cfg" if thorough else "MCStorageAlloc.cfg"
        r = vlib.tlc("StorageAlloc", cfg, workers=8, timeout=3000, tag="c04mc")
        vlib.require_mc_ok(r, cfg)
        log("[mc] %s: %d distinct, %d generated, depth %d, %.0fs violated=%s" % (cfg, r.distinct, r.generated, r.depth, r.wall, r.violated))
        if r.violated:
            log("[mc] the mechanism model violates %s (candidate; decided on the code by the traces below)" % r.violated)
        bins = vlib.build(["vstorage"])
        vst = os.path.join(bins, "vstorage")
        programs = 3000 if thorough else 240
        ops = 80
        summs, files, died = vlib.run_chunked(vst, "alloc", ["--seed", vlib.seed(), "--ops", ops], programs, 30,
                                              os.path.join(work, "alloc"), timeout=600)
        trace = os.path.join(work, "alloc_trace.ndjson")
        extra = []
        for (prog, how) in died:
            extra += [{"ev": "Reset", "backend": "?"}, {"ev": "Died", "program": prog, "msg": how[:200]}]
        vlib.concat_traces(files, trace, extra)
        acc, rej, checked, wall = vlib.validate_runs("StorageAllocTrace", "StorageAllocTrace.cfg", trace, work,
                                                     timeout=3000, xmx="6g", tag="c04tv")
        keys = ["insert", "insert_at", "replace", "resize", "move_at", "remove", "optimize", "reopen", "read_removed", "programs"]
        ms = vlib.sum_keys(summs, keys)
        log("[tv] programs=%d accepted=%d rejected=%d events=%d died=%d tlc=%.0fs %s" % (ms["programs"], acc, len(rej), checked, len(died), wall, ms))
        for x in rej[:5]:
            ev = x["event"]
            verdict.report("alloc:%s" % dbcheck.classify(ev, x["prefix"]),
                           "StorageAllocTrace rejects run %d at event %d: %s" % (x["run"], x["event_index"], vlib.short(ev, 300)),
                           {"event": ev, "history": x["prefix"][-25:], "history_len": len(x["prefix"]), "seed": vlib.seed()})
        evs = vlib.read_ndjson(trace)
        cov = {
            "states": r.distinct, "transitions": r.generated, "traces_validated_against_impl": acc,
            "samples": [{"trace_prefix": [{k: v for k, v in e.items() if k != "vals"} for e in evs[:10]]}],
            "evaluations": checked,
            "distinct_nontrivial": ms["remove"] + ms["resize"] + ms["move_at"] + ms["replace"] + ms["optimize"] + ms["reopen"],
            "rule": "one evaluation = one storage operation with the full projection decided by TLC; non-trivial = "
                    "operations that free, move, split or coalesce space (remove, resize, move, replace, optimize, reopen)",
            "operations": {k: ms[k] for k in keys if k != "programs"}, "programs": ms["programs"],
            "runs_rejected": len(rej), "runs_died": len(died), "tlc_runs": [r.summary()],
            "exhaustive": False, "mc_exhaustive_for_constants": True,
        }
        vlib.write_evidence(PROP, tier, "model_checking", cov, [
            "the exhaustive mechanism model works in 8-byte cells with <= 3 live values of 0-3 cells and <= 5-7 operations",
            "histories on the real storage are sampled; <= 8 live values of 0-48 bytes",
            "operations are issued with valid indexes (the layer is crate-internal; the database never passes an unknown index)",
        ], time.time() - t0, len(verdict.violations), {"known_findings_seen": verdict.known_seen})
        return verdict.exit_code()
    finally:
        vlib.rm_scratch(work)
