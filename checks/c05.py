import dbprops


def run(tier):
    return dbprops.run("C05", tier)
