import dbprops


def run(tier):
    return dbprops.run("C06", tier)
