import dbprops


def run(tier):
    return dbprops.run("C08", tier)
