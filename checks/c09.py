import dbprops


def run(tier):
    return dbprops.run("C09", tier)
