import dbprops


def run(tier):
    return dbprops.run("C10", tier)
