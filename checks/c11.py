import dbprops


def run(tier):
    return dbprops.run("C11", tier)
