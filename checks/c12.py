import dbprops


def run(tier):
    return dbprops.run("C12", tier)
