import dbprops


def run(tier):
    return dbprops.run("C13", tier)
