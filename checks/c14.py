import dbprops


def run(tier):
    return dbprops.run("C14", tier)
