import dbprops


def run(tier):
    return dbprops.run("C15", tier)
