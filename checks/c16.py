import dbprops


def run(tier):
    return dbprops.run("C16", tier)
