import dbprops


def run(tier):
    return dbprops.run("C17", tier)
