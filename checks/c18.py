import dbprops


def run(tier):
    return dbprops.run("C18", tier)
