"""C19 Every query terminates after any history.

(MC)  HashMap.tla (slot-level model of multi_map.rs, minimum capacity scaled to 4): NoHang, CountExact,
      LayoutOk exhaustively.
(TV)  the real MultiMapStorage<u64,u64> (minimum capacity 64) through hook H2: the complete slot table after
      every operation must equal the model's (HashMapTrace.tla); a hang is a Hang event (rejected).
(TV)  database level: alias / index churn histories far beyond 64 cycles on the real database under a
      watchdog, validated against DbModel (DbTrace.tla).
"""
import json
import os
import time

import dbcheck
import vlib
from vlib import log

PROP = "C19"


def run(tier):
    t0 = time.time()
    thorough = tier == "thorough"
    verdict = vlib.Verdict(PROP)
    work = vlib.scratch("c19")
    try:
        runs = []
        states = trans = 0
        for cfg in ["MCHashMap.cfg"] + (["MCHashMap_thorough.cfg"] if thorough else []):
            r = vlib.tlc("HashMap", cfg, workers=8, timeout=1800, tag="c19mc")
            vlib.require_mc_ok(r, cfg)
            log("[mc] %s: %d distinct, %d generated, %.0fs violated=%s" % (cfg, r.distinct, r.generated, r.wall, r.violated))
            runs.append(r.summary())
            states += r.distinct
            trans += r.generated
            if r.violated:
                log("[mc] mechanism model (constants transcribing /repo) violates %s: candidate, decided by the real runs below"
                    % r.violated)
        # collection level, real constant
        bins = vlib.build(["vstorage", "vdb"])
        vst = os.path.join(bins, "vstorage")
        programs = 400 if thorough else 48
        summs, files, died = vlib.run_chunked(vst, "map", ["--seed", vlib.seed(), "--ops", 420], programs, 4,
                                              os.path.join(work, "map"), timeout=120)
        trace = os.path.join(work, "map_trace.ndjson")
        extra = []
        for (prog, how) in died:
            # the history that led to the hang is on disk (the driver flushes after every operation)
            part = os.path.join(work, "map", "c%d_1" % prog, "trace.ndjson")
            hist = vlib.read_ndjson(part) if os.path.exists(part) else []
            verdict.report("map-operation-does-not-return" if how == "timeout" else "map-driver-died",
                           "program %d on the real MultiMapStorage: %s after %d recorded operations" % (prog, how[:120], len(hist)),
                           {"program": prog, "seed": vlib.seed(), "how": how,
                            "history_tail": [{k: v for k, v in e.items() if k != "slots"} for e in hist[-30:]]})
        vlib.concat_traces(files, trace, extra)
        acc, rej, checked, wall = vlib.validate_runs("HashMapTrace", "HashMapTrace.cfg", trace, work, timeout=1800,
                                                     xmx="6g", tag="c19tv")
        ms = vlib.sum_keys(summs, ["inserts", "insert_or_replace", "remove_key", "remove_value", "lookups",
                                   "ops_on_grown_table", "programs"])
        log("[tv] map: programs=%d accepted=%d rejected=%d events=%d died=%d tlc=%.0fs %s" %
            (ms["programs"], acc, len(rej), checked, len(died), wall, ms))
        drift = 0
        if rej:
            # mechanism-level disagreement: decide at property level (same content, every entry findable, no hang)
            acc2, rej2, checked2, wall2 = vlib.validate_runs("HashMapTrace", "HashMapTraceAbs.cfg", trace, work,
                                                             timeout=1800, xmx="6g", tag="c19tvabs")
            drift = len(rej) - len(rej2)
            log("MODEL-DRIFT property=C19 the slot-level model (ReuseTomb/WrapStop constants) no longer describes "
                "multi_map.rs in %d runs; property-level validation: %d accepted, %d rejected" % (len(rej), acc2, len(rej2)))
            for x in rej2[:5]:
                ev = {k: v for k, v in x["event"].items() if k != "slots"}
                verdict.report("map:%s" % dbcheck.classify(ev, x["prefix"]),
                               "the real MultiMapStorage violates the multimap/termination semantics in run %d at event %d: %s"
                               % (x["run"], x["event_index"], vlib.short(ev, 200)),
                               {"event": x["event"],
                                "history_tail": [{k: v for k, v in e.items() if k != "slots"} for e in x["prefix"][-30:]]})
        # database level: alias and index churn
        totals = dbcheck.run_profiles(PROP, tier, ["churn_alias", "churn_index"], 6, 60, 400, verdict, work, chunk=1)
        cov = {
            "states": states, "transitions": trans, "traces_validated_against_impl": acc + totals["accepted"],
            "samples": totals["samples"] + [{"map_trace_prefix": [{k: v for k, v in e.items() if k != "slots"}
                                                                 for e in vlib.read_ndjson(trace)[:12]]}],
            "evaluations": checked + totals["events_checked"],
            "distinct_nontrivial": ms["remove_key"] + ms["remove_value"],
            "rule": "one evaluation = one recorded operation with the full slot table (collection level) or one query "
                    "event (database level); non-trivial = removals (they create the tombstones the property is about)",
            "map_programs": ms["programs"], "map_ops": {k: ms[k] for k in ms if k != "programs"},
            "map_runs_rejected_slot_level": len(rej), "map_runs_model_drift": drift, "map_runs_hung_or_died": len(died),
            "db_runs": totals["runs"], "db_runs_rejected": totals["rejected"], "db_runs_hung_or_died": totals["died"],
            "db_mutations": totals["mutations"], "tlc_runs": runs, "exhaustive": False,
            "mc_exhaustive_for_constants": True,
        }
        vlib.write_evidence(PROP, tier, "model_checking", cov, [
            "exhaustive claim is for the scaled minimum capacity 4 (the mechanism is symmetric in the capacity); the real "
            "constant 64 is covered by slot-exact trace validation of sampled histories",
            "a hang is detected by a watchdog of 120 s per 4 programs of 420 operations (each takes milliseconds)",
        ], time.time() - t0, len(verdict.violations), {"known_findings_seen": verdict.known_seen})
        return verdict.exit_code()
    finally:
        vlib.rm_scratch(work)
