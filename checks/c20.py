"""C20 Binary serialization round-trips and reports its exact size (limited: framing and sizes, see Codec.tla).

The driver serializes, measures and deserializes values of the built-in serializable types (integers, floats incl.
signed zero / infinities, bool, usize, strings with multi-byte UTF-8, byte vectors, nested vectors, PathBuf,
SocketAddr, IpAddr, SystemTime before and after the epoch) and of a corpus of DbSerialize-derived types (named /
tuple / unit structs, nested, enums with unit / tuple / struct / nested variants); DbValue (all variants), DbKeyValue,
DbId, QueryId and the crate's query types (SearchQuery with nested conditions, insert / select / remove queries) as
opaque values. Codec.tla recomputes size and prefix / tag offsets from the hand-written framing tree."""
import os
import time

import vlib
from vlib import log

PROP = "C20"


def run(tier):
    t0 = time.time()
    thorough = tier == "thorough"
    verdict = vlib.Verdict(PROP)
    work = vlib.scratch("c20")
    try:
        bins = vlib.build(["vdb"])
        vdb = os.path.join(bins, "vdb")
        programs = 60 if thorough else 8
        summs, files, died = vlib.run_chunked(vdb, "codec", ["--seed", vlib.seed(), "--ops", 500], programs, 2, os.path.join(work, "codec"), jobs=4, timeout=600)
        trace = os.path.join(work, "codec_trace.ndjson")
        extra = []
        for (prog, how) in died:
            extra += [{"ev": "Reset", "profile": "codec", "run": prog}, {"ev": "Died", "run": prog, "msg": how[:300]}]
        vlib.concat_traces(files, trace, extra)
        acc, rej, checked, wall = vlib.validate_runs_skip("Codec", "Codec.cfg", trace, timeout=3000, xmx="6g", tag="c20tv")
        values = sum(s.get("values", 0) for s in summs)
        log("[C20] values=%d rejected events=%d died=%d tlc=%.0fs" % (values, len(rej), len(died), wall))
        by = {}
        for x in rej:
            ev = x["event"]
            sig = "codec:%s:%s" % (ev.get("ev"), ev.get("ty", ""))
            by[sig] = by.get(sig, 0) + 1
            if by[sig] <= 2:
                verdict.report(sig, "Codec rejects event %d of run %d: %s" % (x["event_index"], x["run"], vlib.short(ev, 400)), {"event": ev, "seed": vlib.seed()})
            else:
                verdict.count(sig)
        evs = vlib.read_ndjson(trace)
        types = sorted({e.get("ty") for e in evs if e.get("ev") == "Codec"})
        cov = {
            "evaluations": max(1, values), "distinct_nontrivial": max(1, len({str(e.get("bytes")) for e in evs if e.get("ev") == "Codec" and len(e.get("bytes", [])) > 8})),
            "rule": "one evaluation = one value serialized, measured and deserialized by the real code and decided by TLC against "
                    "the framing tree; non-trivial = distinct byte strings longer than one scalar",
            "types": types, "events_rejected": len(rej), "samples": [e for e in evs if e.get("ev") == "Codec"][:4],
            "states": max(1, checked), "transitions": max(1, checked), "traces_validated_against_impl": acc, "exhaustive": False,
        }
        vlib.write_evidence(PROP, tier, "exploration", cov, [
            "limited to framing and sizes: leaf contents (scalar byte order, float bits, UTF-8) are opaque to TLC and decided only by "
            "the driver's round-trip equality; DbValue / DbKeyValue / DbId / QueryId are treated as opaque values (size and round trip)",
            "values are sampled (seeded); lengths < 2^31",
        ], time.time() - t0, len(verdict.violations), {"known_findings_seen": verdict.known_seen})
        return verdict.exit_code()
    finally:
        vlib.rm_scratch(work)
