import dbprops


def run(tier):
    return dbprops.run("C22", tier)
