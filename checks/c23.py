"""C23 Concurrent reads see the same results as sequential reads.

(MC)  SharedRead.tla: the shared cursor with try_lock and fresh-handle fallback, seek and read as separate steps;
      ReadsOwnPosition and SharedHandleExclusive hold for 3 readers; the variant whose lock does not cover the read
      violates them (non-vacuity probe).
(TV)  N threads (released together by a barrier) run read queries on one DbFile; hook H3 reports every storage read of
      every thread (handle chosen, position sought, bytes returned; global atomic sequence numbers; a yield between
      seek and read); SharedReadTrace.tla decides: every read returned the file's bytes at the position it asked for,
      every query's result digest equals the sequential baseline's, no query failed or panicked.
"""
import os
import re
import time

import vlib
from vlib import log

PROP = "C23"


def run(tier):
    t0 = time.time()
    thorough = tier == "thorough"
    verdict = vlib.Verdict(PROP)
    work = vlib.scratch("c23")
    try:
        runs = []
        for cfg in ("MCSharedRead.cfg", "MCSharedRead_unlocked.cfg"):
            r = vlib.tlc("SharedRead", cfg, workers=4, timeout=300, tag="c23mc")
            vlib.require_mc_ok(r, cfg)
            runs.append(r.summary())
            log("[C23] mc %s: %d distinct states, violated=%s" % (cfg, r.distinct, r.violated))
        if runs[0]["violated"]:
            raise vlib.ToolError("SharedRead with the lock covering the read violates %s (specification error)" % runs[0]["violated"])
        if not runs[1]["violated"]:
            raise vlib.ToolError("non-vacuity probe failed: releasing the lock after the seek does not violate the model")
        bins = vlib.build(["vdb"])
        vdb = os.path.join(bins, "vdb")
        programs = 40 if thorough else 6
        summs, files, died = vlib.run_chunked(vdb, "conc", ["--seed", vlib.seed(), "--threads", 6 if thorough else 4, "--queries", 60 if thorough else 40],
                                              programs, 2, os.path.join(work, "conc"), jobs=3, timeout=900)
        trace = os.path.join(work, "conc_trace.ndjson")
        extra = []
        for (prog, how) in died:
            extra += [{"ev": "Reset", "threads": 0, "file": [], "baseline": []}, {"ev": "Died", "program": prog, "msg": how[:300]}]
        vlib.concat_traces(files, trace, extra)
        acc, rej, checked, wall = vlib.validate_runs_skip("SharedReadTrace", "SharedReadTrace.cfg", trace, timeout=3000, xmx="8g", tag="c23tv")
        ms = vlib.sum_keys(summs, ["programs", "storage_reads", "shared_handle", "fresh_handle", "queries"])
        log("[C23] runs=%d accepted=%d rejected=%d events=%d died=%d tlc=%.0fs %s" % (ms["programs"], acc, len(rej), checked, len(died), wall, ms))
        for x in rej[:5]:
            ev = dict(x["event"])
            kind = ev.get("ev")
            sig = {"Done": "read-returned-bytes-of-another-position", "Query": "query-result-differs-or-failed"}.get(kind, "%s-event-rejected" % kind)
            if "bytes" in ev:
                ev["bytes"] = ev["bytes"][:40]
            verdict.report(sig, "SharedReadTrace rejects run %d at event %d: %s" % (x["run"], x["event_index"], vlib.short(ev, 300)),
                           {"seed": vlib.seed(), "event": ev,
                            "events_before": [{k: v for k, v in e.items() if k not in ("bytes", "file", "baseline")} for e in x["prefix"][-25:]]})
        cov = {
            "states": sum(r["distinct"] for r in runs), "transitions": sum(r["generated"] for r in runs),
            "traces_validated_against_impl": acc, "evaluations": ms["storage_reads"] + ms["queries"],
            "distinct_nontrivial": ms["fresh_handle"],
            "rule": "one evaluation = one storage read (bytes compared with the file at the requested position) or one query "
                    "(digest compared with the sequential baseline) decided by TLC; non-trivial = reads that found the shared "
                    "handle locked by another thread (contention actually happened)",
            "reads": ms, "runs_rejected": len(rej), "tlc_runs": runs,
            "samples": [{"trace_prefix": [{k: v for k, v in e.items() if k not in ("file", "baseline")} for e in vlib.read_ndjson(trace)[:12]]}], "exhaustive": False, "mc_exhaustive_for_constants": True,
        }
        vlib.write_evidence(PROP, tier, "model_checking", cov, [
            "thread schedules on the real code are sampled (4-6 threads released by a barrier, a yield between seek and read inside "
            "the hook); the file does not change during a run (immutable queries only, as the property states)",
            "DbFile only: Db (memory mapped) and DbMemory serve reads from memory without a shared cursor",
        ], time.time() - t0, len(verdict.violations), {"known_findings_seen": verdict.known_seen})
        return verdict.exit_code()
    finally:
        vlib.rm_scratch(work)
