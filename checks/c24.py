import servercheck


def run(tier):
    return servercheck.run("C24", tier, ["auth", "roles"], "auth", 10, 60, 120, mbt=True)
