import servercheck


def run(tier):
    return servercheck.run("C24", tier, "auth", "auth", 6, 48, 120)
