import servercheck


def run(tier):
    return servercheck.run("C25", tier, "batch", "batch", 6, 48, 120)
