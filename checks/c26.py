import servercheck


def run(tier):
    return servercheck.run("C26", tier, "names", "files", 6, 48, 100)
