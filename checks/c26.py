import servercheck


def run(tier):
    return servercheck.run("C26", tier, "names", "files", 12, 72, 120)
