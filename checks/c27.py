import raftcheck


def run(tier):
    return raftcheck.run("C27", tier)
