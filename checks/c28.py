import raftcheck


def run(tier):
    return raftcheck.run("C28", tier)
