import raftcheck


def run(tier):
    return raftcheck.run("C29", tier)
