"""C30 A healthy cluster elects a leader and replicates appended entries.

(MC)  AgdbRaftHealthy.tla: RaftCore with its real timer arithmetic under a global clock and a reliable network; all
      delivery orders and all orders of due process() calls; HealthyProgress (bounded-time convergence as a state
      invariant) plus a vacuity probe (states after the deadline are reachable).
(TV)  the vraft simulator runs the real raft.rs in the healthy regime (all clocks advance together in steps of
      10-500 ms, every node calls process() at every step, every message is delivered, a client appends at the
      current leader), from the cold start and after a fault-ridden election prefix; after 30 s of virtual time the
      cluster is observed at quiescence and RaftTrace.tla decides Converged (one leader, equal logs, every appended
      entry committed everywhere) - as well as conformance of every step.
"""
import os
import time

import raftcheck
import raftlib
import vlib
from vlib import log

PROP = "C30"


def run(tier):
    t0 = time.time()
    thorough = tier == "thorough"
    verdict = vlib.Verdict(PROP)
    work = vlib.scratch("c30")
    try:
        bins = vlib.build(["vraft"])
        vraft = os.path.join(bins, "vraft")
        stats = raftcheck.new_stats()
        for cfg in ["MCRaftHealthy.cfg"] + (["MCRaftHealthy_thorough.cfg"] if thorough else []):
            r = vlib.tlc("AgdbRaftHealthy", cfg, workers=10, timeout=3000, xmx="12g", tag="c30mc")
            vlib.require_mc_ok(r, cfg)
            log("[C30] mc %s: %d distinct, %d generated, depth %d, %.0fs violated=%s" % (cfg, r.distinct, r.generated, r.depth, r.wall, r.violated))
            stats["mc"].append(r.summary())
            stats["states"] += r.distinct
            stats["transitions"] += r.generated
            if r.violated:
                # design-level: the healthy model does not converge; the verdict about the code comes from the runs below
                log("[C30] the healthy model violates %s (candidate; decided on the real code below)" % r.violated)
        rv = vlib.tlc("AgdbRaftHealthy", "MCRaftHealthy_vacuity.cfg", workers=6, timeout=600, xmx="8g", tag="c30vac")
        if rv.violated != "ReachesDeadline":
            raise vlib.ToolError("vacuity probe: no state at or after the deadline is reachable in the healthy model")
        # D24 at design level: from a start in which message loss left node 1 one term ahead, the two-node model converges
        # with the repaired vote rule and does not without it (probe: the model can tell the difference)
        r2 = vlib.tlc("AgdbRaftHealthy", "MCRaftHealthy2_offset.cfg", workers=4, timeout=900, xmx="6g", tag="c30d24")
        vlib.require_mc_ok(r2, "MCRaftHealthy2_offset.cfg")
        r2a = vlib.tlc("AgdbRaftHealthy", "MCRaftHealthy2_offset_asis.cfg", workers=4, timeout=900, xmx="6g", tag="c30d24a")
        log("[C30] mc two nodes, terms one apart: repaired rule %d states violated=%s; rule before the repair violated=%s" %
            (r2.distinct, r2.violated, r2a.violated))
        stats["mc"].append(r2.summary())
        stats["states"] += r2.distinct
        stats["transitions"] += r2.generated
        if r2.violated:
            log("[C30] the two-node healthy model violates %s (candidate; decided on the real code below)" % r2.violated)
        if r2a.violated != "HealthyProgress":
            raise vlib.ToolError("probe: the healthy model without the D24 repair should violate HealthyProgress from the offset start")
        drift = 0
        # the *div profiles: clients append during the fault-ridden prefix, so the logs differ when the network heals
        for (name, n, q, t, extra) in (("healthy3", 3, 300, 4000, []), ("healthy5", 5, 60, 800, []), ("healthy4", 4, 60, 800, []),
                                       ("healthy2", 2, 60, 800, []),
                                       ("healthy3div", 3, 200, 3000, ["--chaos-appends", 3, "--max-chaos", 160]),
                                       ("healthy5div", 5, 40, 600, ["--chaos-appends", 3, "--max-chaos", 200]),
                                       # a second timing configuration: heartbeats more frequent than the election factor
                                       ("healthy3div_hb250", 3, 150, 2000, ["--chaos-appends", 3, "--max-chaos", 160, "--hb", 250])):
            timing = "_hb250" if name.endswith("_hb250") else ""
            programs = t if thorough else q
            pw = os.path.join(work, name)
            summs, files, died = vlib.run_chunked(vraft, "healthy", ["--seed", vlib.seed(), "--n", n] + extra, programs,
                                                  max(10, programs // 12), pw, jobs=8, timeout=900)
            if died:
                raise vlib.ToolError("vraft healthy died: %s" % died[:2])
            trace = os.path.join(pw, "trace.ndjson")
            vlib.concat_traces(files, trace)
            v = raftlib.validate(trace, cfg=raftcheck.cfg_for(n, False, timing), tag="c30" + name)
            ms = vlib.sum_keys(summs, ["programs", "chaos_steps", "healthy_rounds", "appends"])
            log("[C30] %s runs=%d accepted=%d rejected=%d events=%d property-violations=%d tlc=%.0fs %s" %
                (name, v["runs"], v["accepted"], len(v["rejections"]), v["events"], len(v["props"]), v["wall"], ms))
            stats["runs"] += v["runs"]
            stats["accepted"] += v["accepted"]
            stats["events"] += v["events"]
            for k in ms:
                stats["ops"][k] = stats["ops"].get(k, 0) + ms[k]
            props = v["props"]
            if v["rejections"]:
                drift += len(v["rejections"])
                x = v["rejections"][0]
                log("MODEL-DRIFT property=C30 %d of %d executions are not behaviours of RaftCore (first: run %d event %d: %s); "
                    "deciding HealthyProgress on the observed states" % (len(v["rejections"]), v["runs"], x["run"], x["event_index"],
                                                                        vlib.short(x["event"], 260)))
                stats["drift_samples"].append({"profile": name, "event": x["event"]})
                props = raftlib.validate(trace, cfg=raftcheck.cfg_for(n, True, timing), tag="c30abs" + name)["props"]
            stats["violations_seen"] += raftcheck.report_props(PROP, verdict, props, "healthy schedules (%s)" % name)
            if not stats["samples"]:
                evs = vlib.read_ndjson(trace)
                stats["samples"].append({"trace_prefix": [{k: e[k] for k in e if k != "ns"} for e in evs[:6]]})
        cov = {
            "states": stats["states"], "transitions": stats["transitions"],
            "traces_validated_against_impl": stats["accepted"],
            "evaluations": stats["events"], "distinct_nontrivial": stats["runs"],
            "rule": "one evaluation = one scheduler step of the real raft.rs decided by TLC; non-trivial = complete healthy "
                    "executions (cold start or fault-ridden prefix, 30 s healthy, appends) whose final state was judged",
            "scheduler": stats["ops"], "runs": stats["runs"], "runs_not_conformant": drift,
            "model_drift_samples": stats["drift_samples"][:3], "tlc_runs": stats["mc"] + [rv.summary()],
            "samples": stats["samples"], "exhaustive": False, "mc_exhaustive_for_constants": True,
        }
        vlib.write_evidence(PROP, tier, "model_checking", cov, [
            "healthy = no loss or duplication, delivery takes no time relative to the timers, every node calls process() at every "
            "clock step, all clocks advance together; shipped timer ratios 1000 / 1000 / 3000 ms",
            "'eventually' is decided as bounded-time convergence: model deadline 1 s after a cold start (horizon 5 s); "
            "implementation observed after 30 s of healthy virtual time; client appends start 10 s after the network healed "
            "(a deposed leader of the fault-ridden prefix may legitimately lose an entry it never committed)",
        ], time.time() - t0, len(verdict.violations), {"known_findings_seen": verdict.known_seen})
        return verdict.exit_code()
    finally:
        vlib.rm_scratch(work)
