"""C31 Every node applies committed actions once each and in log order.

(MC)  ApplyOrder.tla: the executor as a queue satisfies InOrderOnce exhaustively (the task-per-entry mechanism
      of the pinned code violates it: MCApplyOrder_asis.cfg, kept as the non-vacuity probe).
      With one clean restart: entries marked executed are not handed to the executor again (MCApplyOrder_nomark.cfg -
      a failed action left unmarked - violates InOrderOnce: second probe).
(TV)  a real agdb_server process (single node: every action goes through the cluster log of one) built with hook H5,
      which appends `commit i / start i / end i` to an event file and delays the start of entry i by
      delay * (3 - i mod 4) ms. Several client threads issue cluster actions concurrently (database writes, user and
      role changes), so several entries are committed while earlier executions are still delayed.
      ApplyTrace.tla decides the event file: entries committed in log order; an execution starts only for the oldest
      pending entry and only when no other execution is running; at the end every committed entry was executed once.
      Some actions fail (a batch with a failing query); after all requests are answered the server is stopped and
      started again on the same data and takes a few more actions: nothing may be executed a second time.
"""
import json
import os
import shutil
import threading
import time

import serverdrv
import vlib
from vlib import log

PROP = "C31"


def one_run(binary, work, seed, clients, per_client, delay):
    import random
    rng = random.Random(seed)
    evlog = os.path.join(work, "exec_events.log")
    if os.path.exists(evlog):
        os.remove(evlog)
    os.environ["AGDB_VERIF_EXEC_LOG"] = evlog
    os.environ["AGDB_VERIF_EXEC_DELAY_MS"] = str(delay)
    srv = serverdrv.Server(binary, os.path.join(work, "cwd"))
    srv.start()
    ok = [0]
    try:
        s, b = srv.call("POST", "/user/login", None, {"username": "admin", "password": "admin"})
        admin = json.loads(b)
        toks = {}
        for u in serverdrv.USERS:
            srv.call("POST", "/admin/user/%s/add" % u, admin, {"password": serverdrv.PW[u]})
            s, b = srv.call("POST", "/user/login", None, {"username": u, "password": serverdrv.PW[u]})
            toks[u] = json.loads(b)
        srv.call("POST", "/db/alice/d1/add", toks["alice"], query={"db_type": "memory"})
        srv.call("PUT", "/db/alice/d1/user/bob/add", toks["alice"], query={"db_role": "write"})
        lock = threading.Lock()

        def client(c):
            r = random.Random(seed * 97 + c)
            for k in range(per_client):
                x = r.random()
                u = r.choice(serverdrv.USERS)
                if x < 0.15:
                    # a committed action whose execution FAILS (the batch is rolled back; the entry still counts as executed)
                    s, _ = srv.call("POST", "/db/alice/d1/exec_mut", toks[u], [serverdrv.q_insert(1), serverdrv.Q["fail_mut"]])
                elif x < 0.7:
                    s, _ = srv.call("POST", "/db/alice/d1/exec_mut", toks[u], [serverdrv.q_insert(1)])
                elif x < 0.85:
                    s, _ = srv.call("PUT", "/db/alice/d1/user/bob/add", toks["alice"], query={"db_role": r.choice(["read", "write"])})
                else:
                    s, _ = srv.call("POST", "/db/alice/d1/backup", toks["alice"])
                if 200 <= s < 300:
                    with lock:
                        ok[0] += 1
        threads = [threading.Thread(target=client, args=(c,)) for c in range(clients)]
        for t in threads:
            t.start()
        for t in threads:
            t.join()
        time.sleep(0.5)
        # every request has been answered (an entry is marked executed before its request is answered): stop the server
        # and start it again on the same data - nothing may be executed a second time - then a few more actions
        srv.stop()
        with open(evlog, "a") as f:
            f.write("restart 0\n")
        srv.restart()
        s, b = srv.call("POST", "/user/login", None, {"username": "alice", "password": serverdrv.PW["alice"]})
        if s == 200:
            t2 = json.loads(b)
            for _ in range(3):
                s, _ = srv.call("POST", "/db/alice/d1/exec_mut", t2, [serverdrv.q_insert(1)])
                if 200 <= s < 300:
                    ok[0] += 1
        time.sleep(0.5)
    finally:
        srv.stop()
        os.environ.pop("AGDB_VERIF_EXEC_LOG", None)
        os.environ.pop("AGDB_VERIF_EXEC_DELAY_MS", None)
    events = [{"ev": "Reset", "clients": clients, "delay_ms": delay}]
    if os.path.exists(evlog):
        for line in open(evlog):
            p = line.split()
            if len(p) == 2:
                events.append({"ev": p[0], "index": int(p[1])})
    events.append({"ev": "done", "requests_ok": ok[0]})
    shutil.rmtree(os.path.join(work, "cwd"), ignore_errors=True)
    return events, ok[0]


def classify(ev, prefix):
    if ev.get("ev") == "start":
        running = set()
        pending = set()
        for e in prefix[:-1]:
            if e["ev"] == "commit":
                pending.add(e["index"])
            elif e["ev"] == "start":
                pending.discard(e["index"])
                running.add(e["index"])
            elif e["ev"] == "end":
                running.discard(e["index"])
        if running:
            return "execution-started-while-another-is-running"
        return "execution-started-out-of-log-order"
    if ev.get("ev") in ("commit", "start") and any(e.get("ev") == "restart" for e in prefix[:-1]):
        seen = {e["index"] for e in prefix[:-1] if e.get("ev") == "end"}
        if ev.get("index") in seen:
            return "entry-executed-again-after-restart"
    return "%s-event-rejected" % ev.get("ev")


def run(tier):
    t0 = time.time()
    thorough = tier == "thorough"
    verdict = vlib.Verdict(PROP)
    work = vlib.scratch("c31")
    try:
        runs = []
        for cfg in ("MCApplyOrder.cfg", "MCApplyOrder_asis.cfg", "MCApplyOrder_nomark.cfg"):
            r = vlib.tlc("ApplyOrder", cfg, workers=4, timeout=300, tag="c31mc")
            vlib.require_mc_ok(r, cfg)
            runs.append(r.summary())
            log("[C31] mc %s: %d distinct states, violated=%s" % (cfg, r.distinct, r.violated))
        if runs[0]["violated"]:
            raise vlib.ToolError("ApplyOrder with the queue executor violates InOrderOnce (specification error)")
        if not runs[1]["violated"]:
            raise vlib.ToolError("non-vacuity probe failed: the task-per-entry executor does not violate InOrderOnce in the model")
        if not runs[2]["violated"]:
            raise vlib.ToolError("non-vacuity probe failed: leaving failed actions unmarked does not violate InOrderOnce across a restart")
        binary = vlib.build_server()
        n = 10 if thorough else 3
        events = []
        total_ok = 0
        for i in range(n):
            evs, ok = one_run(binary, os.path.join(work, "r%d" % i), vlib.seed() * 131 + i, clients=6, per_client=10 if thorough else 6,
                              delay=[25, 5, 60][i % 3])
            events += evs
            total_ok += ok
        trace = os.path.join(work, "apply_trace.ndjson")
        vlib.write_ndjson(trace, events)
        acc, rej, checked, wall = vlib.validate_runs_skip("ApplyTrace", "ApplyTrace.cfg", trace, timeout=600, tag="c31tv")
        commits = sum(1 for e in events if e["ev"] == "commit")
        log("[C31] servers=%d committed entries=%d requests ok=%d accepted=%d rejected=%d events=%d" % (n, commits, total_ok, acc, len(rej), checked))
        for x in rej[:4]:
            verdict.report(classify(x["event"], x["prefix"]),
                           "ApplyTrace rejects server run %d at event %d: %s" % (x["run"], x["event_index"], x["event"]),
                           {"seed": vlib.seed(), "event": x["event"], "events_before": x["prefix"][-30:]})
        cov = {
            "states": sum(r["distinct"] for r in runs), "transitions": sum(r["generated"] for r in runs),
            "traces_validated_against_impl": acc, "evaluations": checked, "distinct_nontrivial": commits,
            "rule": "one evaluation = one hook event (commit / start / end of a cluster log entry) of a real server decided by "
                    "TLC; non-trivial = committed entries",
            "servers": n, "committed_entries": commits, "runs_rejected": len(rej), "tlc_runs": runs,
            "samples": [{"trace_prefix": events[:14]}], "exhaustive": False, "mc_exhaustive_for_constants": True,
        }
        vlib.write_evidence(PROP, tier, "model_checking", cov, [
            "single node server (the executor is the same code on every node); 6 concurrent clients; task schedules are sampled, "
            "perturbed by the hook's index dependent delay (a delay cannot make an in-order executor run out of order)",
            "restart (re-execution of committed entries not marked executed) is not exercised",
        ], time.time() - t0, len(verdict.violations), {"known_findings_seen": verdict.known_seen})
        return verdict.exit_code()
    finally:
        vlib.rm_scratch(work)
