"""C32 A failed write never corrupts or loses later committed work.

Driver: harness/vdb fault (no hook: a public StorageData wrapper around FileStorage makes the k-th write / resize
of a query fail). For every step of a generated history and every sampled k: the step is run on a copy of the
database with call k failing, then later mutations, close, reopen with DbFile and Db. Each probe is one run of
the trace and DbTrace.tla decides it: the faulted step reports an error and has no effect (Unchanged13), the later
steps behave as DbModel says (the database stays usable), and the reopened database equals the model state.
"""
import os
import time

import dbcheck
import vlib
from vlib import log

PROP = "C32"


def classify(ev, prefix):
    """symptom of the first event TLC rejects in a probe run (see the module docstring for the run layout)"""
    kind = ev.get("ev")
    body = [e for e in prefix[:-1] if e.get("ev") not in ("Reset", "Load")]
    after_reopen = any(e.get("ev") == "Maintain" for e in body)
    fault_seen = any(e.get("fault") for e in body)
    if kind == "Panic":
        if ev.get("fault"):
            return "faulted-query-panics"
        return "panic-after-fault:%s" % ("reopen" if ev.get("query") == "reopen" else "close" if ev.get("query") == "close" else "later-query")
    if kind == "OpenFailed":
        return "file-unreadable-after-reopen"
    if kind == "ObserveFailed":
        return "unreadable-after-reopen" if after_reopen else "database-unreadable-in-process-after-fault"
    if kind == "Observe":
        if after_reopen:
            return "later-work-lost-or-changed-after-reopen"
        if fault_seen and sum(1 for e in body if e.get("ev") != "Observe") == 1:
            return "failed-query-left-effects"
        return "state-wrong-after-later-query"
    if ev.get("fault"):
        return "fault-not-reported" if ev.get("ok") else "faulted-query-event-rejected"
    if fault_seen:
        return "later-query-misbehaves"
    return dbcheck.classify(ev, prefix)


def run(tier):
    t0 = time.time()
    thorough = tier == "thorough"
    verdict = vlib.Verdict(PROP)
    work = vlib.scratch("c32")
    try:
        bins = vlib.build(["vdb"])
        vdb = os.path.join(bins, "vdb")
        programs = 64 if thorough else 8
        ops = 12 if thorough else 8
        maxk = 40 if thorough else 16
        args = ["--seed", vlib.seed(), "--ops", ops, "--max-k", maxk, "--later", 2]
        summs, files, died = vlib.run_chunked(vdb, "fault", args, programs, 1, os.path.join(work, "fault"),
                                              jobs=8, timeout=1500, as_gb=6)
        trace = os.path.join(work, "fault_trace.ndjson")
        extra = []
        for (prog, how) in died:
            extra += [{"ev": "Reset", "profile": "fault", "run": prog, "variants": [], "probe": "program died"},
                      {"ev": "Hang" if how == "timeout" else "Died", "run": prog, "msg": how[:300]}]
        vlib.concat_traces(files, trace, extra)
        acc, rej, checked, wall = vlib.validate_runs_skip("DbTrace", "DbTraceSkip.cfg", trace, timeout=3000, xmx="6g",
                                                          tag="c32tv")
        keys = ["programs", "steps", "storage_calls", "fault_probes", "fault_swallowed", "probes_without_injection"]
        ms = vlib.sum_keys(summs, keys)
        log("[C32] programs=%d probe-runs accepted=%d rejected=%d events=%d died=%d tlc=%.0fs %s" %
            (ms["programs"], acc, len(rej), checked, len(died), wall, ms))
        by_sig = {}
        for x in rej:
            ev = x["event"]
            sig = classify(ev, x["prefix"])
            by_sig[sig] = by_sig.get(sig, 0) + 1
            if by_sig[sig] <= 2:
                verdict.report(sig, "DbTrace rejects probe run %d (%s) at event %d: %s"
                               % (x["run"], x["prefix"][0].get("probe"), x["event_index"], vlib.short(ev, 300)),
                               {"seed": vlib.seed(), "event": ev, "probe": x["prefix"][0].get("probe"),
                                "history": [e for e in x["prefix"] if e.get("ev") not in ("Observe",)][-12:]})
            else:
                verdict.count(sig)
        log("[C32] rejections by symptom: %s" % by_sig)
        evs = vlib.read_ndjson(trace)
        cov = {
            "states": max(1, checked), "transitions": max(1, checked),
            "traces_validated_against_impl": acc,
            "evaluations": ms["fault_probes"], "distinct_nontrivial": ms["fault_probes"] - ms["probes_without_injection"],
            "rule": "one evaluation = one (history step, failing storage call k) pair executed on the real database followed "
                    "by later mutations, close and reopen; non-trivial = the fault was actually injected",
            "fault": ms, "probe_runs_rejected": len(rej), "rejections_by_symptom": by_sig,
            "samples": [{"trace_prefix": [e for e in evs[:80] if e.get("ev") not in ("Observe", "Load")][:8]}],
            "runs_died": len(died), "exhaustive": False,
        }
        vlib.write_evidence(PROP, tier, "fault_enumeration", cov, [
            "a fault = one StorageData::write / resize call returning an error before anything reaches the file; "
            "exactly one fault per probe; at most %d fault points per step (uniform seeded sample)" % maxk,
            "later work = 2 generated mutations, then close and reopen with DbFile and Db",
        ], time.time() - t0, len(verdict.violations), {"known_findings_seen": verdict.known_seen})
        return verdict.exit_code()
    finally:
        vlib.rm_scratch(work)
