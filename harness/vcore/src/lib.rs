//! Shared helpers for the verification drivers: seeded RNG, ndjson trace writer, hex.
use serde_json::Value;
use std::io::Write;

/// xorshift64* — deterministic, seedable, no dependencies.
pub struct Rng(pub u64);
impl Rng {
    pub fn new(seed: u64) -> Self {
        let mut r = Rng(seed.wrapping_mul(0x9E3779B97F4A7C15) ^ 0xD1B54A32D192ED03);
        if r.0 == 0 {
            r.0 = 0x1234_5678_9ABC_DEF1;
        }
        for _ in 0..8 {
            r.next();
        }
        r
    }
    pub fn next(&mut self) -> u64 {
        let mut x = self.0;
        x ^= x >> 12;
        x ^= x << 25;
        x ^= x >> 27;
        self.0 = x;
        x.wrapping_mul(0x2545F4914F6CDD1D)
    }
    /// uniform in 0..n (n > 0)
    pub fn below(&mut self, n: u64) -> u64 {
        self.next() % n
    }
    pub fn range(&mut self, lo: u64, hi_incl: u64) -> u64 {
        lo + self.below(hi_incl - lo + 1)
    }
    pub fn chance(&mut self, num: u64, den: u64) -> bool {
        self.below(den) < num
    }
    pub fn pick<'a, T>(&mut self, v: &'a [T]) -> &'a T {
        &v[self.below(v.len() as u64) as usize]
    }
}

pub struct Trace {
    out: std::io::BufWriter<std::fs::File>,
    pub events: u64,
    /// when set, events are dropped (drivers whose verdict does not go through a trace specification)
    pub mute: bool,
}
impl Trace {
    pub fn create(path: &str) -> Self {
        Trace { out: std::io::BufWriter::new(std::fs::File::create(path).expect("trace file")), events: 0, mute: false }
    }
    pub fn emit(&mut self, v: Value) {
        if self.mute { return; }
        serde_json::to_writer(&mut self.out, &v).unwrap();
        self.out.write_all(b"\n").unwrap();
        self.events += 1;
    }
    pub fn flush(&mut self) {
        self.out.flush().unwrap();
    }
}

pub fn hex(b: &[u8]) -> String {
    let mut s = String::with_capacity(b.len() * 2);
    for x in b {
        s.push_str(&format!("{:02x}", x));
    }
    s
}

/// FNV-1a, for content de-duplication
pub fn fnv(b: &[u8]) -> u64 {
    let mut h = 0xcbf29ce484222325u64;
    for x in b {
        h ^= *x as u64;
        h = h.wrapping_mul(0x100000001b3);
    }
    h
}

pub struct Args(pub Vec<String>);
impl Args {
    pub fn from_env() -> Self {
        Args(std::env::args().skip(1).collect())
    }
    pub fn get(&self, name: &str) -> Option<String> {
        let key = format!("--{name}");
        self.0.iter().position(|a| *a == key).and_then(|i| self.0.get(i + 1).cloned())
    }
    pub fn num(&self, name: &str, default: u64) -> u64 {
        self.get(name).map(|s| s.parse().expect("number")).unwrap_or(default)
    }
    pub fn str(&self, name: &str, default: &str) -> String {
        self.get(name).unwrap_or_else(|| default.to_string())
    }
    pub fn flag(&self, name: &str) -> bool {
        let key = format!("--{name}");
        self.0.iter().any(|a| *a == key)
    }
    pub fn cmd(&self) -> String {
        self.0.first().cloned().unwrap_or_default()
    }
}

/// Watchdog for hangs of the code under test: the driver kicks it after every step; if no kick arrives
/// for `secs` seconds the watchdog appends a Hang event to the trace file, prints a summary line and
/// exits the process with status 0 (a hang is data for the checks, not a tool error).
pub struct Watchdog {
    last: std::sync::Arc<std::sync::atomic::AtomicU64>,
    info: std::sync::Arc<std::sync::Mutex<String>>,
}

fn now_ms() -> u64 {
    std::time::SystemTime::now().duration_since(std::time::UNIX_EPOCH).unwrap().as_millis() as u64
}

impl Watchdog {
    pub fn start(secs: u64, trace_path: &str) -> Watchdog {
        use std::sync::atomic::Ordering;
        let last = std::sync::Arc::new(std::sync::atomic::AtomicU64::new(now_ms()));
        let info = std::sync::Arc::new(std::sync::Mutex::new(String::new()));
        let (l2, i2, path) = (last.clone(), info.clone(), trace_path.to_string());
        std::thread::spawn(move || loop {
            std::thread::sleep(std::time::Duration::from_millis(200));
            if now_ms().saturating_sub(l2.load(Ordering::Relaxed)) > secs * 1000 {
                let what = i2.lock().map(|s| s.clone()).unwrap_or_default();
                if let Ok(mut f) = std::fs::OpenOptions::new().append(true).open(&path) {
                    let ev = serde_json::json!({"ev": "Hang", "msg": format!("no progress for {secs} s"), "during": what});
                    let _ = writeln!(f, "{}", ev);
                }
                println!("{}", serde_json::json!({"hung": 1, "during": what}));
                std::process::exit(0);
            }
        });
        Watchdog { last, info }
    }
    /// progress: the step named `next` is about to start
    pub fn kick(&self, next: &str) {
        self.last.store(now_ms(), std::sync::atomic::Ordering::Relaxed);
        if let Ok(mut s) = self.info.lock() {
            s.clear();
            s.push_str(next);
        }
    }
}
