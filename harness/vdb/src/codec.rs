//! C20 driver (limited, see DESIGN.md): values of the built-in serializable types and of a corpus of types using the
//! DbSerialize derive macro are serialized, measured and deserialized by the real code. Every event carries the bytes,
//! the reported size, whether the decoded value equals the original, and the value's FRAMING TREE written down by
//! hand from the format rules (8-byte little-endian length prefixes, 1-byte variant tags, fields in declaration
//! order, fixed-size leaves): ["leaf", n] | ["len", k, [children]] | ["seq", [children]] | ["tag", i, [children]].
//! Codec.tla recomputes the size and the offsets of every prefix / tag from the tree alone and compares.
use agdb::{AgdbSerialize, Comparison, CountComparison, DbF64, DbId, DbKeyOrder, DbKeyValue, DbSerialize, DbValue, InsertAliasesQuery, InsertEdgesQuery, InsertIndexQuery,
           InsertNodesQuery, InsertValuesQuery, KeyValueComparison, QueryCondition, QueryConditionData, QueryConditionLogic, QueryConditionModifier, QueryId, QueryIds,
           QueryValues, RemoveQuery, SearchQuery, SearchQueryAlgorithm, SelectValuesQuery};
use serde_json::{Value, json};
use std::net::{IpAddr, SocketAddr};
use std::path::PathBuf;
use std::time::{Duration, SystemTime, UNIX_EPOCH};
use vcore::{Args, Rng, Trace};

#[derive(Debug, Clone, PartialEq, DbSerialize)]
struct Named { a: u64, b: String, c: Vec<String> }
#[derive(Debug, Clone, PartialEq, DbSerialize)]
struct Tup(i64, Vec<u8>);
#[derive(Debug, Clone, PartialEq, DbSerialize)]
struct Unit;
#[derive(Debug, Clone, PartialEq, DbSerialize)]
struct Empty {}
// elements that serialize to ZERO bytes inside vectors (the length prefix then exceeds the bytes that follow)
#[derive(Debug, Clone, PartialEq, DbSerialize)]
struct Marks { marks: Vec<Unit>, name: String, more: Vec<Empty> }
#[derive(Debug, Clone, PartialEq, DbSerialize)]
struct Mixed { flag: bool, ratio: f64, when: SystemTime, inner: Named, list: Vec<Tup> }
#[derive(Debug, Clone, PartialEq, DbSerialize)]
enum En { Unit, Tuple(u64, String), Struct { x: i64, y: Vec<i64> }, Nested(Named), Flag(bool) }

fn t_leaf(n: usize) -> Value { json!(["leaf", n]) }
fn t_u64() -> Value { t_leaf(8) }
fn t_str(s: &str) -> Value { json!(["len", s.len(), [["leaf", s.len()]]]) }
fn t_bytes(b: &[u8]) -> Value { json!(["len", b.len(), [["leaf", b.len()]]]) }
fn t_vec(items: Vec<Value>) -> Value { json!(["len", items.len(), items]) }
fn t_named(n: &Named) -> Value { json!(["seq", [t_u64(), t_str(&n.b), t_vec(n.c.iter().map(|s| t_str(s)).collect())]]) }
fn t_tup(t: &Tup) -> Value { json!(["seq", [t_u64(), t_bytes(&t.1)]]) }

fn rs(rng: &mut Rng) -> String {
    let l = rng.below(20);
    (0..l).map(|_| *rng.pick(&['a', 'é', 'z', '0', '字', '😀'])).collect()
}
fn named(rng: &mut Rng) -> Named { Named { a: rng.next(), b: rs(rng), c: (0..rng.below(3)).map(|_| rs(rng)).collect() } }
fn tup(rng: &mut Rng) -> Tup { Tup(rng.next() as i64, (0..rng.below(6)).map(|_| rng.below(256) as u8).collect()) }
fn time(rng: &mut Rng) -> SystemTime {
    let d = Duration::new(rng.below(4_000_000_000), rng.below(1_000_000_000) as u32);
    if rng.chance(1, 5) { UNIX_EPOCH - d } else { UNIX_EPOCH + d }
}

fn emit<T: AgdbSerialize + PartialEq>(trace: &mut Trace, name: &str, v: &T, tree: Value) {
    let r = crate::dbx::guarded(|| {
        let bytes = v.serialize();
        let size = v.serialized_size();
        let back = T::deserialize(&bytes);
        (bytes, size, back.as_ref().map(|b| b == v).unwrap_or(false))
    });
    match r {
        Ok((bytes, size, roundtrip)) => trace.emit(json!({"ev": "Codec", "ty": name, "tree": tree, "bytes": bytes, "size": size, "roundtrip": roundtrip})),
        Err(p) => trace.emit(json!({"ev": "Panic", "ty": name, "msg": p})),
    }
}
/// types whose internal layout is not written down here: opaque (size == length and round trip only)
fn emit_opaque<T: AgdbSerialize + PartialEq>(trace: &mut Trace, name: &str, v: &T) {
    let n = v.serialize().len();
    emit(trace, name, v, t_leaf(n));
}


// ---- query types (the derive macro on the crate's own enums / structs: opaque values, size == length and round trip)
fn dbv(r: &mut Rng) -> DbValue {
    match r.below(10) {
        0 => DbValue::I64(r.next() as i64), 1 => DbValue::U64(r.next()),
        2 => DbValue::F64(DbF64::from(*r.pick(&[0.0, -0.0, 2.5, f64::NAN, f64::NEG_INFINITY, f64::MIN_POSITIVE]))),
        3 => DbValue::String(rs(r)), 4 => DbValue::Bytes((0..r.below(20)).map(|_| r.below(256) as u8).collect()),
        5 => DbValue::VecI64((0..r.below(4)).map(|_| r.next() as i64).collect()), 6 => DbValue::VecU64((0..r.below(4)).map(|_| r.next()).collect()),
        7 => DbValue::VecF64((0..r.below(4)).map(|_| DbF64::from(r.below(9) as f64 / 4.0 - 1.0)).collect()),
        8 => DbValue::VecString((0..r.below(3)).map(|_| rs(r)).collect()), _ => DbValue::String(String::new()),
    }
}
fn qid(r: &mut Rng) -> QueryId { if r.chance(1, 2) { QueryId::Id(DbId(r.next() as i64 % 1000)) } else { QueryId::Alias(rs(r)) } }
fn count_cmp(r: &mut Rng) -> CountComparison {
    let n = r.below(5);
    match r.below(6) { 0 => CountComparison::Equal(n), 1 => CountComparison::GreaterThan(n), 2 => CountComparison::GreaterThanOrEqual(n),
                       3 => CountComparison::LessThan(n), 4 => CountComparison::LessThanOrEqual(n), _ => CountComparison::NotEqual(n) }
}
fn cmp(r: &mut Rng) -> Comparison {
    let v = dbv(r);
    match r.below(8) { 0 => Comparison::Equal(v), 1 => Comparison::GreaterThan(v), 2 => Comparison::GreaterThanOrEqual(v), 3 => Comparison::LessThan(v),
                       4 => Comparison::LessThanOrEqual(v), 5 => Comparison::NotEqual(v), 6 => Comparison::Contains(v), _ => Comparison::StartsWith(v) }
}
fn cond(r: &mut Rng, depth: u64) -> QueryCondition {
    let data = match r.below(if depth > 0 { 10 } else { 9 }) {
        0 => QueryConditionData::Distance(count_cmp(r)), 1 => QueryConditionData::Edge, 2 => QueryConditionData::EdgeCount(count_cmp(r)),
        3 => QueryConditionData::EdgeCountFrom(count_cmp(r)), 4 => QueryConditionData::EdgeCountTo(count_cmp(r)),
        5 => QueryConditionData::Ids((0..r.below(3)).map(|_| qid(r)).collect()), 6 => QueryConditionData::KeyValue(KeyValueComparison { key: dbv(r), value: cmp(r) }),
        7 => QueryConditionData::Keys((0..r.below(3)).map(|_| dbv(r)).collect()), 8 => QueryConditionData::Node,
        _ => QueryConditionData::Where((0..r.below(3)).map(|_| cond(r, depth - 1)).collect()),
    };
    QueryCondition { logic: if r.chance(1, 2) { QueryConditionLogic::And } else { QueryConditionLogic::Or },
                     modifier: *r.pick(&[QueryConditionModifier::None, QueryConditionModifier::Beyond, QueryConditionModifier::Not, QueryConditionModifier::NotBeyond]), data }
}
fn search(r: &mut Rng) -> SearchQuery {
    SearchQuery { algorithm: *r.pick(&[SearchQueryAlgorithm::BreadthFirst, SearchQueryAlgorithm::DepthFirst, SearchQueryAlgorithm::Index, SearchQueryAlgorithm::Elements]),
                  origin: qid(r), destination: qid(r), limit: r.below(4), offset: r.below(4),
                  order_by: (0..r.below(3)).map(|_| if r.chance(1, 2) { DbKeyOrder::Asc(dbv(r)) } else { DbKeyOrder::Desc(dbv(r)) }).collect(),
                  conditions: (0..r.below(4)).map(|_| cond(r, 2)).collect() }
}
fn qids(r: &mut Rng) -> QueryIds { if r.chance(2, 3) { QueryIds::Ids((0..r.below(4)).map(|_| qid(r)).collect()) } else { QueryIds::Search(search(r)) } }
fn kvs(r: &mut Rng) -> Vec<DbKeyValue> { (0..r.below(3)).map(|_| DbKeyValue { key: dbv(r), value: dbv(r) }).collect() }
fn qvals(r: &mut Rng) -> QueryValues { if r.chance(1, 2) { QueryValues::Single(kvs(r)) } else { QueryValues::Multi((0..r.below(3)).map(|_| kvs(r)).collect()) } }
fn emit_query(trace: &mut Trace, r: &mut Rng) {
    match r.below(9) {
        0 => emit_opaque(trace, "SearchQuery", &search(r)),
        1 => emit_opaque(trace, "InsertValuesQuery", &InsertValuesQuery { ids: qids(r), values: qvals(r) }),
        2 => emit_opaque(trace, "InsertNodesQuery", &InsertNodesQuery { count: r.below(5), values: qvals(r), aliases: (0..r.below(3)).map(|_| rs(r)).collect(), ids: qids(r) }),
        3 => emit_opaque(trace, "InsertEdgesQuery", &InsertEdgesQuery { from: qids(r), to: qids(r), ids: qids(r), values: qvals(r), each: r.chance(1, 2) }),
        4 => emit_opaque(trace, "SelectValuesQuery", &SelectValuesQuery { keys: (0..r.below(3)).map(|_| dbv(r)).collect(), ids: qids(r) }),
        5 => emit_opaque(trace, "RemoveQuery", &RemoveQuery(qids(r))),
        6 => emit_opaque(trace, "InsertAliasesQuery", &InsertAliasesQuery { ids: qids(r), aliases: (0..r.below(3)).map(|_| rs(r)).collect() }),
        7 => emit_opaque(trace, "InsertIndexQuery", &InsertIndexQuery(dbv(r))),
        _ => emit_opaque(trace, "QueryCondition", &cond(r, 2)),
    }
}

pub fn run(args: &Args) {
    let seed = args.num("seed", 1);
    let first = args.num("first", 0);
    let runs = args.num("programs", 4);
    let ops = args.num("ops", 400);
    let work = args.str("work", "/verif/harness/target/scratch/vcodec");
    let out = args.str("out", &format!("{work}/codec_trace.ndjson"));
    std::fs::create_dir_all(&work).unwrap();
    std::panic::set_hook(Box::new(|_| {}));
    let mut trace = Trace::create(&out);
    let mut n = 0u64;
    for run in first..first + runs {
        let mut rng = Rng::new(seed.wrapping_mul(1_000_003).wrapping_add(run).wrapping_add(880_001));
        trace.emit(json!({"ev": "Reset", "profile": "codec", "run": run}));
        for _ in 0..ops {
            n += 1;
            let r = &mut rng;
            match r.below(30) {
                0 => { let v: u64 = *r.pick(&[0, 1, u64::MAX, 1 << 63]) ^ if r.chance(1, 2) { r.next() } else { 0 }; emit(&mut trace, "u64", &v, t_u64()); }
                1 => { let v: i64 = *r.pick(&[0, -1, i64::MIN, i64::MAX]) ^ if r.chance(1, 2) { r.next() as i64 } else { 0 }; emit(&mut trace, "i64", &v, t_u64()); }
                2 => { let v: f64 = *r.pick(&[0.0, -0.0, 1.5, f64::MAX, f64::MIN_POSITIVE, f64::INFINITY, f64::NEG_INFINITY]); emit(&mut trace, "f64", &v, t_u64()); }
                3 => { let v = r.chance(1, 2); emit(&mut trace, "bool", &v, t_leaf(1)); }
                4 => { let v = r.below(1 << 40) as usize; emit(&mut trace, "usize", &v, t_u64()); }
                5 => { let v = rs(r); emit(&mut trace, "String", &v, t_str(&v)); }
                6 => { let v: Vec<u8> = (0..r.below(20)).map(|_| r.below(256) as u8).collect(); emit(&mut trace, "Vec<u8>", &v, t_bytes(&v)); }
                7 => { let v: Vec<String> = (0..r.below(4)).map(|_| rs(r)).collect(); emit(&mut trace, "Vec<String>", &v, t_vec(v.iter().map(|s| t_str(s)).collect())); }
                8 => { let v: Vec<i64> = (0..r.below(4)).map(|_| r.next() as i64).collect(); emit(&mut trace, "Vec<i64>", &v, t_vec(v.iter().map(|_| t_u64()).collect())); }
                9 => { let v: Vec<Vec<u8>> = (0..r.below(3)).map(|_| (0..r.below(5)).map(|_| r.below(256) as u8).collect()).collect();
                       emit(&mut trace, "Vec<Vec<u8>>", &v, t_vec(v.iter().map(|b| t_bytes(b)).collect())); }
                10 => { let v = PathBuf::from(format!("/tmp/{}", rs(r))); let s = v.to_string_lossy().to_string(); emit(&mut trace, "PathBuf", &v, t_str(&s)); }
                11 => { let v: SocketAddr = format!("10.{}.{}.1:{}", r.below(256), r.below(256), r.below(65536)).parse().unwrap(); let s = v.to_string(); emit(&mut trace, "SocketAddr", &v, t_str(&s)); }
                12 => { let v: IpAddr = if r.chance(1, 2) { format!("192.168.{}.{}", r.below(256), r.below(256)).parse().unwrap() } else { "::1".parse().unwrap() }; let s = v.to_string(); emit(&mut trace, "IpAddr", &v, t_str(&s)); }
                13 => { let v = time(r); emit(&mut trace, "SystemTime", &v, t_leaf(13)); }
                14 => { let v = named(r); emit(&mut trace, "Named", &v, t_named(&v)); }
                15 => { let v = tup(r); emit(&mut trace, "Tup", &v, t_tup(&v)); }
                16 => { emit(&mut trace, "Unit", &Unit, json!(["seq", []])); }
                22 => { let v: Vec<Unit> = (0..r.below(50)).map(|_| Unit).collect(); emit(&mut trace, "Vec<Unit>", &v, t_vec(v.iter().map(|_| json!(["seq", []])).collect())); }
                23 => { let v: Vec<Vec<Empty>> = (0..r.below(4)).map(|_| (0..r.below(5)).map(|_| Empty {}).collect()).collect();
                        emit(&mut trace, "Vec<Vec<Empty>>", &v, t_vec(v.iter().map(|i| t_vec(i.iter().map(|_| json!(["seq", []])).collect())).collect())); }
                24 => { let v = Marks { marks: (0..r.below(60)).map(|_| Unit).collect(), name: rs(r), more: (0..r.below(4)).map(|_| Empty {}).collect() };
                        let tree = json!(["seq", [t_vec(v.marks.iter().map(|_| json!(["seq", []])).collect()), t_str(&v.name), t_vec(v.more.iter().map(|_| json!(["seq", []])).collect())]]);
                        emit(&mut trace, "Marks", &v, tree); }
                17 => { let v = Mixed { flag: r.chance(1, 2), ratio: r.below(9) as f64 / 4.0, when: time(r), inner: named(r), list: (0..r.below(3)).map(|_| tup(r)).collect() };
                        let tree = json!(["seq", [t_leaf(1), t_u64(), t_leaf(13), t_named(&v.inner), t_vec(v.list.iter().map(t_tup).collect())]]);
                        emit(&mut trace, "Mixed", &v, tree); }
                18 | 19 => {
                    let v = match r.below(5) { 0 => En::Unit, 1 => En::Tuple(r.next(), rs(r)), 2 => En::Struct { x: r.next() as i64, y: (0..r.below(3)).map(|_| r.next() as i64).collect() },
                                               3 => En::Nested(named(r)), _ => En::Flag(r.chance(1, 2)) };
                    let tree = match &v { En::Unit => json!(["tag", 0, []]), En::Tuple(_, s) => json!(["tag", 1, [t_u64(), t_str(s)]]),
                                          En::Struct { y, .. } => json!(["tag", 2, [t_u64(), t_vec(y.iter().map(|_| t_u64()).collect())]]),
                                          En::Nested(nm) => json!(["tag", 3, [t_named(nm)]]), En::Flag(_) => json!(["tag", 4, [t_leaf(1)]]) };
                    emit(&mut trace, "En", &v, tree);
                }
                25 | 26 | 27 => emit_query(&mut trace, r),
                28 => { let v = dbv(r); emit_opaque(&mut trace, "DbValue", &v); }
                29 => { let v: SocketAddr = if r.chance(1, 2) { format!("[2001:db8::{:x}]:{}", r.below(65536), r.below(65536)).parse().unwrap() } else { format!("[::ffff:10.0.{}.{}]:{}", r.below(256), r.below(256), r.below(65536)).parse().unwrap() };
                        let s = v.to_string(); emit(&mut trace, "SocketAddr", &v, t_str(&s)); }
                20 => { let v: DbValue = match r.below(6) { 0 => DbValue::I64(r.next() as i64), 1 => DbValue::U64(r.next()), 2 => DbValue::F64((r.below(9) as f64 / 2.0).into()),
                                                            3 => DbValue::String(rs(r)), 4 => DbValue::Bytes((0..r.below(20)).map(|_| r.below(256) as u8).collect()),
                                                            _ => DbValue::VecString((0..r.below(3)).map(|_| rs(r)).collect()) };
                        emit_opaque(&mut trace, "DbValue", &v); }
                _ => { if r.chance(1, 2) { let v = DbKeyValue { key: rs(r).into(), value: (r.next() as i64).into() }; emit_opaque(&mut trace, "DbKeyValue", &v); }
                       else if r.chance(1, 2) { let v = DbId(r.next() as i64); emit_opaque(&mut trace, "DbId", &v); }
                       else { let v = if r.chance(1, 2) { QueryId::Id(DbId(r.next() as i64)) } else { QueryId::Alias(rs(r)) }; emit_opaque(&mut trace, "QueryId", &v); } }
            }
        }
    }
    trace.flush();
    println!("{}", json!({"first": first, "programs": runs, "values": n, "trace_events": trace.events}));
}
