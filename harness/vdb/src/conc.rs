//! C23 driver: N threads run read queries concurrently on ONE file-backed database. Hook H3 (thread local) reports
//! every storage read of every thread: which handle FileStorage::read chose, the position it sought, the bytes it
//! got; events of all threads are ordered by a global atomic sequence number taken inside the hook. Between seek and
//! read the hook yields, which widens the window in which a lock that does not cover both would be visible (a yield
//! cannot make a correct implementation return wrong bytes). Every query's result digest is reported as well;
//! the sequential baseline and the (immutable) file content are in the Reset event.
use agdb::verif::{FsEvent, set_fs_hook};
use agdb::*;
use serde_json::{Value, json};
use std::sync::Mutex;
use std::sync::atomic::{AtomicU64, Ordering};
use vcore::{Args, Rng, Trace, fnv};

static SEQ: AtomicU64 = AtomicU64::new(0);

enum RQ {
    Search(SearchQuery),
    AllAliases(SelectAllAliasesQuery),
    NodeCount(SelectNodeCountQuery),
    Indexes(SelectIndexesQuery),
    Values(SelectValuesQuery),
}

fn queries(n_nodes: i64) -> Vec<RQ> {
    let mut q: Vec<RQ> = vec![
        RQ::Search(QueryBuilder::search().elements().query()),
        RQ::AllAliases(QueryBuilder::select().aliases().query()),
        RQ::NodeCount(QueryBuilder::select().node_count().query()),
        RQ::Indexes(QueryBuilder::select().indexes().query()),
        RQ::Search(QueryBuilder::search().from(1).query()),
        RQ::Search(QueryBuilder::search().depth_first().from(1).query()),
        RQ::Search(QueryBuilder::search().index("k").value(3).query()),
        RQ::Values(QueryBuilder::select().search().from(1).where_().keys("text").query()),
    ];
    for i in 1..=n_nodes {
        q.push(RQ::Values(QueryBuilder::select().ids(i).query()));
        q.push(RQ::Search(QueryBuilder::search().to(i).limit(20).query()));
    }
    q
}

fn run_query(db: &DbFile, q: &RQ) -> Result<String, String> {
    let r = match q {
        RQ::Search(q) => db.exec(q),
        RQ::AllAliases(q) => db.exec(q),
        RQ::NodeCount(q) => db.exec(q),
        RQ::Indexes(q) => db.exec(q),
        RQ::Values(q) => db.exec(q),
    };
    match r {
        Ok(r) => Ok(format!("{:016x}", fnv(format!("{r:?}").as_bytes()))),
        Err(e) => Err(e.description),
    }
}

pub fn run(args: &Args) {
    let seed = args.num("seed", 1);
    let first = args.num("first", 0);
    let runs = args.num("programs", 2);
    let threads = args.num("threads", 4);
    let per_thread = args.num("queries", 40);
    let work = args.str("work", "/verif/harness/target/scratch/vconc");
    let out = args.str("out", &format!("{work}/conc_trace.ndjson"));
    std::fs::create_dir_all(&work).unwrap();
    std::panic::set_hook(Box::new(|_| {}));
    let mut trace = Trace::create(&out);
    let (mut n_reads, mut n_shared, mut n_fresh, mut n_queries) = (0u64, 0u64, 0u64, 0u64);
    for run in first..first + runs {
        let mut rng = Rng::new(seed.wrapping_mul(1_000_003).wrapping_add(run).wrapping_add(550_001));
        let path = format!("{work}/conc{run}.agdb");
        crate::dbx::remove_files(&path);
        let n_nodes = rng.range(4, 9) as i64;
        {
            let mut db = DbFile::new(&path).unwrap();
            db.exec_mut(QueryBuilder::insert().index("k").query()).unwrap();
            for i in 1..=n_nodes {
                let text = "x".repeat(rng.range(0, 40) as usize);
                db.exec_mut(QueryBuilder::insert().nodes().aliases(format!("n{i}")).values([[("k", (i % 4) as i64).into(), ("text", text).into()]]).query()).unwrap();
            }
            for _ in 0..(n_nodes * 2) {
                let a = rng.range(1, n_nodes as u64) as i64;
                let b = rng.range(1, n_nodes as u64) as i64;
                db.exec_mut(QueryBuilder::insert().edges().from(a).to(b).values([[("w", (a * b) as i64).into()]]).query()).unwrap();
            }
        }
        let db = DbFile::new(&path).unwrap();
        let file: Vec<u8> = std::fs::read(&path).unwrap();
        let qs = queries(n_nodes);
        let baseline: Vec<String> = qs.iter().map(|q| run_query(&db, q).unwrap_or_else(|e| format!("error: {e}"))).collect();
        trace.emit(json!({"ev": "Reset", "threads": threads, "file": file, "baseline": baseline}));
        let events: Mutex<Vec<(u64, Value)>> = Mutex::new(vec![]);
        let barrier = std::sync::Barrier::new(threads as usize);
        std::thread::scope(|s| {
            for t in 0..threads {
                let (db, qs, events, barrier) = (&db, &qs, &events, &barrier);
                let mut trng = Rng::new(seed.wrapping_mul(31).wrapping_add(run * 1000 + t));
                s.spawn(move || {
                    let local: std::rc::Rc<std::cell::RefCell<Vec<(u64, Value)>>> = std::rc::Rc::new(std::cell::RefCell::new(vec![]));
                    let l2 = local.clone();
                    set_fs_hook(Some(Box::new(move |e: &FsEvent| {
                        let ev = match e {
                            FsEvent::ReadHandle { shared } => json!({"ev": "Handle", "thread": t, "shared": shared}),
                            FsEvent::ReadSeek { pos, len } => json!({"ev": "Seek", "thread": t, "pos": pos, "len": len}),
                            FsEvent::ReadDone { pos, bytes } => json!({"ev": "Done", "thread": t, "pos": pos, "bytes": bytes}),
                            _ => return,
                        };
                        let seq = SEQ.fetch_add(1, Ordering::SeqCst);
                        l2.borrow_mut().push((seq, ev));
                        if matches!(e, FsEvent::ReadSeek { .. }) {
                            std::thread::yield_now();
                        }
                    })));
                    barrier.wait();
                    for _ in 0..per_thread {
                        let qi = trng.below(qs.len() as u64) as usize;
                        // a panic of the code under test (e.g. garbage bytes decoded) is data
                        let r = match crate::dbx::guarded(|| run_query(db, &qs[qi])) { Ok(r) => r, Err(p) => Err(format!("panic: {p}")) };
                        let seq = SEQ.fetch_add(1, Ordering::SeqCst);
                        let ev = match r {
                            Ok(d) => json!({"ev": "Query", "thread": t, "q": qi + 1, "ok": true, "digest": d}),
                            Err(e) => json!({"ev": "Query", "thread": t, "q": qi + 1, "ok": false, "digest": e}),
                        };
                        local.borrow_mut().push((seq, ev));
                    }
                    set_fs_hook(None);
                    events.lock().unwrap().append(&mut local.borrow_mut());
                });
            }
        });
        let mut evs = events.into_inner().unwrap();
        evs.sort_by_key(|e| e.0);
        for (_, e) in evs {
            match e["ev"].as_str() {
                Some("Done") => n_reads += 1,
                Some("Handle") => if e["shared"] == true { n_shared += 1 } else { n_fresh += 1 },
                Some("Query") => n_queries += 1,
                _ => {}
            }
            trace.emit(e);
        }
        drop(db);
        crate::dbx::remove_files(&path);
    }
    trace.flush();
    println!("{}", json!({"first": first, "programs": runs, "storage_reads": n_reads, "shared_handle": n_shared, "fresh_handle": n_fresh,
                          "queries": n_queries, "trace_events": trace.events}));
}
