//! C02 / C03 driver: crash points at every mutating file-system call of every query of a generated
//! history on a file-backed database (hook H1). Each crash image (both files as they are on disk
//! immediately before the call, plus torn variants of a pending write) is reopened with the real
//! database (all file-backed variants on a sample) and dumped through the public API; the dump is
//! classified against the dumps taken before and after the interrupted query/transaction.
use crate::dbx::*;
use crate::hist::{Gen, Profile, View};
use agdb::verif::{FsEvent, set_fs_hook};
use serde_json::{Value, json};
use std::cell::RefCell;
use std::collections::{HashMap, HashSet};
use std::rc::Rc;
use vcore::{Args, Rng, Trace, fnv};

struct Snap {
    data: Vec<u8>,
    wal: Vec<u8>,
    torn: bool,
    at: String,
}

struct Ctx {
    path: String,
    armed: bool,
    snaps: Vec<Snap>,
    seen: HashSet<u64>,
    syscalls: u64,
    torn_seed: u64,
}

fn read_or_empty(p: &str) -> Vec<u8> {
    std::fs::read(p).unwrap_or_default()
}

fn patch(d: &[u8], pos: usize, b: &[u8]) -> Vec<u8> {
    let mut v = d.to_vec();
    if v.len() < pos + b.len() {
        v.resize(pos + b.len(), 0);
    }
    v[pos..pos + b.len()].copy_from_slice(b);
    v
}

impl Ctx {
    fn push(&mut self, data: Vec<u8>, wal: Vec<u8>, torn: bool, at: &str) {
        let mut key = data.clone();
        key.push(0xfe);
        key.extend_from_slice(&wal);
        if self.seen.insert(fnv(&key)) {
            self.snaps.push(Snap { data, wal, torn, at: at.to_string() });
        }
    }
    fn on_event(&mut self, e: &FsEvent) {
        if !self.armed {
            return;
        }
        let what = match e {
            FsEvent::WalWrite { .. } => "WalWrite",
            FsEvent::WalSetLen { .. } => "WalSetLen",
            FsEvent::DataWrite { .. } => "DataWrite",
            FsEvent::DataSetLen { .. } => "DataSetLen",
            _ => return,
        };
        self.syscalls += 1;
        let data = read_or_empty(&self.path);
        let wal = read_or_empty(&wal_name(&self.path));
        // torn variants: two pseudo-random strict prefixes of a pending write
        self.torn_seed = self.torn_seed.wrapping_mul(6364136223846793005).wrapping_add(1442695040888963407);
        match e {
            FsEvent::WalWrite { bytes } if bytes.len() > 1 => {
                for j in 0..2u64 {
                    let k = 1 + ((self.torn_seed >> (8 * j)) as usize) % (bytes.len() - 1);
                    let mut w = wal.clone();
                    w.extend_from_slice(&bytes[..k]);
                    self.push(data.clone(), w, true, what);
                }
            }
            FsEvent::DataWrite { pos, bytes } if bytes.len() > 1 => {
                for j in 0..2u64 {
                    let k = 1 + ((self.torn_seed >> (8 * j)) as usize) % (bytes.len() - 1);
                    self.push(patch(&data, *pos as usize, &bytes[..k]), wal.clone(), true, what);
                }
            }
            _ => {}
        }
        self.push(data, wal, false, what);
    }
}

/// Reopens one crash image with `kind` and dumps it. Ok(dump) / Err(what went wrong).
fn probe(kind: Kind, probe_path: &str, s: &Snap) -> Result<Value, String> {
    remove_files(probe_path);
    std::fs::write(probe_path, &s.data).map_err(|e| e.to_string())?;
    std::fs::write(wal_name(probe_path), &s.wal).map_err(|e| e.to_string())?;
    let r = guarded(|| -> Result<Value, String> {
        let db = open(kind, probe_path).map_err(|e| format!("open failed: {}", e.description))?;
        let o = observe(&db)?;
        // std::mem::forget would leak the handles; dropping runs the close-time defragmentation, which must work too
        drop(db);
        Ok(o)
    });
    match r {
        Ok(x) => x,
        Err(p) => Err(format!("panic: {p}")),
    }
}

fn strip(o: &Value) -> String {
    let mut o = o.clone();
    if let Some(m) = o.as_object_mut() {
        m.remove("digest");
        m.remove("others");
    }
    serde_json::to_string(&o).unwrap()
}


/// The same query again with every value changed to another value of the same size: the second transaction then
/// starts by writing exactly where the previous one wrote last (temporal locality of real workloads).
fn vary_value(v: &agdb::DbValue) -> agdb::DbValue {
    use agdb::DbValue::*;
    match v {
        I64(n) => I64(n ^ 1),
        U64(n) => U64(n ^ 1),
        String(s) if !s.is_empty() => {
            let mut b = s.clone().into_bytes();
            let last = b.len() - 1;
            b[last] = if b[last] == b'q' { b'r' } else { b'q' };
            String(std::string::String::from_utf8(b).unwrap_or_else(|_| s.clone()))
        }
        other => other.clone(),
    }
}
fn vary(q: &MQ) -> Option<MQ> {
    let vv = |values: &agdb::QueryValues| -> agdb::QueryValues {
        let f = |l: &Vec<agdb::DbKeyValue>| l.iter().map(|kv| agdb::DbKeyValue { key: kv.key.clone(), value: vary_value(&kv.value) }).collect::<Vec<_>>();
        match values {
            agdb::QueryValues::Single(l) => agdb::QueryValues::Single(f(l)),
            agdb::QueryValues::Multi(ls) => agdb::QueryValues::Multi(ls.iter().map(f).collect()),
        }
    };
    match q {
        MQ::InsertValues(q) => Some(MQ::InsertValues(agdb::InsertValuesQuery { ids: q.ids.clone(), values: vv(&q.values) })),
        MQ::InsertNodes(q) if matches!(&q.ids, agdb::QueryIds::Ids(v) if !v.is_empty()) =>
            Some(MQ::InsertNodes(agdb::InsertNodesQuery { count: q.count, values: vv(&q.values), aliases: q.aliases.clone(), ids: q.ids.clone() })),
        _ => None,
    }
}

#[derive(Default)]
struct Stats { closes: u64, points: u64, torn: u64, before: u64, after: u64, other: u64, unreadable: u64, cross: u64, images: u64 }

/// Reopens the crash images collected during one step and emits one CrashProbe event per distinct outcome.
#[allow(clippy::too_many_arguments)]
fn probe_step(ctx: &Rc<RefCell<Ctx>>, rng: &mut Rng, wd: &vcore::Watchdog, trace: &mut Trace, st: &mut Stats, bad_samples: &mut Vec<Value>,
              kind: Kind, probe_path: &str, before: &str, after: &str, run: u64, step: u64, max_points: usize, cross_every: u64) {
    let (n_points, n_torn, n_before, n_after, n_other, n_unreadable, n_cross, n_images) =
        (&mut st.points, &mut st.torn, &mut st.before, &mut st.after, &mut st.other, &mut st.unreadable, &mut st.cross, &mut st.images);
            // ---- crash points of this step
    let mut snaps: Vec<Snap> = std::mem::take(&mut ctx.borrow_mut().snaps);
    *n_images += snaps.len() as u64;
    if snaps.len() > max_points {
        // uniform sample without replacement, keeping the order (seeded): all steps stay affordable
        let mut keep: Vec<usize> = (0..snaps.len()).collect();
        for i in 0..max_points {
            let j = i + rng.below((keep.len() - i) as u64) as usize;
            keep.swap(i, j);
        }
        let mut chosen: Vec<usize> = keep[..max_points].to_vec();
        chosen.sort();
        let mut it = 0;
        let mut out = vec![];
        for (i, s) in snaps.into_iter().enumerate() {
            if it < chosen.len() && chosen[it] == i { out.push(s); it += 1; }
        }
        snaps = out;
    }
    let mut groups: HashMap<String, (u64, u64, Value, Value)> = HashMap::new(); // class -> (count, torn, sample detail)
    for (si, s) in snaps.iter().enumerate() {
        wd.kick(&format!("crash run {run} step {step} probing image {si}"));
        *n_points += 1;
        if s.torn { *n_torn += 1; }
        let mut kinds = vec![kind];
        if cross_every > 0 && (si as u64) % cross_every == 0 {
            kinds.extend(Kind::all().iter().filter(|k| k.file_backed() && **k != kind));
            *n_cross += 1;
        }
        for k in kinds {
            // one group per DISTINCT recovered dump: the dump itself goes into the trace and TLC
            // decides whether it is the model state before or after the interrupted step
            let (class, detail, dump) = match probe(k, probe_path, s) {
                Ok(o) => {
                    let st = strip(&o);
                    if st == before { ("before".to_string(), json!(""), o) }
                    else if st == after { ("after".to_string(), json!(""), o) }
                    else { (format!("other:{:x}", fnv(st.as_bytes())), json!(""), o) }
                }
                Err(e) => (format!("unreadable: {}", &e[..e.len().min(90)]), json!(e), Value::Null),
            };
            match class.as_str() { "before" => *n_before += 1, "after" => *n_after += 1, c if c.starts_with("other") => *n_other += 1, _ => *n_unreadable += 1 }
            let g = groups.entry(format!("{}|{}", k.name(), class)).or_insert((0, 0, Value::Null, Value::Null));
            g.0 += 1;
            if s.torn { g.1 += 1; }
            if g.2.is_null() {
                g.2 = json!({"at": s.at, "torn": s.torn, "image_no": si, "data_len": s.data.len(), "wal_len": s.wal.len(), "detail": detail});
                g.3 = dump;
            }
        }
    }
    let mut keys: Vec<&String> = groups.keys().collect();
    keys.sort();
    for key in keys {
        let (count, torn, detail, dump) = &groups[key];
        let (k, class) = key.split_once('|').unwrap();
        let readable = !class.starts_with("unreadable");
        let ev = json!({"ev": "CrashProbe", "variant": k, "ok": readable,
                        "same_as": if readable { class } else { "none" }, "class": class, "count": count, "torn": torn, "detail": detail,
                        "dump": if readable { dump.clone() } else { json!({}) }});
        if (class != "before" && class != "after") && bad_samples.len() < 5 {
            bad_samples.push(json!({"run": run, "step": step, "event": ev}));
        }
        trace.emit(ev);
    }
        }

pub fn run(args: &Args) {
    let seed = args.num("seed", 1);
    let first = args.num("first", 0);
    let runs = args.num("programs", 4);
    let ops = args.num("ops", 14);
    let work = args.str("work", "/verif/harness/target/scratch/vcrash");
    let out = args.str("out", &format!("{work}/crash_trace.ndjson"));
    let profile = Profile::named(&args.str("profile", "crash"));
    let cross_every = args.num("cross-every", 7);
    let max_points = args.num("max-points", 120) as usize;
    std::fs::create_dir_all(&work).unwrap();
    std::panic::set_hook(Box::new(|_| {}));
    let mut trace = Trace::create(&out);
    let wd = vcore::Watchdog::start(60, &out);
    let ctx = Rc::new(RefCell::new(Ctx { path: String::new(), armed: false, snaps: vec![], seen: HashSet::new(), syscalls: 0, torn_seed: seed }));
    let hc = ctx.clone();
    set_fs_hook(Some(Box::new(move |e: &FsEvent| {
        if let Ok(mut c) = hc.try_borrow_mut() {
            c.on_event(e);
        }
    })));
    let (mut n_steps, mut n_tx) = (0u64, 0u64);
    let mut st = Stats::default();
    let mut bad_samples: Vec<Value> = vec![];
    for run in first..first + runs {
        let mut rng = Rng::new(seed.wrapping_mul(1_000_003).wrapping_add(run).wrapping_add(990_001));
        let kind = if run % 2 == 0 { Kind::Mapped } else { Kind::File };
        let path = format!("{work}/c{run}.agdb");
        let probe_path = format!("{work}/probe{run}.agdb");
        remove_files(&path);
        ctx.borrow_mut().path = path.clone();
        ctx.borrow_mut().seen.clear();
        let mut dbo = match open(kind, &path) {
            Ok(d) => Some(d),
            Err(e) => { trace.emit(json!({"ev": "OpenFailed", "err": e.description})); continue; }
        };
        trace.emit(json!({"ev": "Reset", "profile": "crash", "run": run, "variants": [kind.name()]}));
        let mut obs = match observe(dbo.as_ref().unwrap()) { Ok(o) => merge(o, json!({"digest": "", "others": []})), Err(e) => json!({"ev": "ObserveFailed", "err": e}) };
        trace.emit(obs.clone());
        let mut keys_pool = vec![];
        let mut planned: std::collections::VecDeque<(MQ, bool)> = std::collections::VecDeque::new();
        let mut step = 0;
        while step < ops {
            step += 1;
            trace.flush();
            wd.kick(&format!("crash run {run} step {step}"));
            if obs["ev"] != "Observe" { break; }
            let db = dbo.as_mut().unwrap();
            let view = View::from_obs(&obs);
            let before = strip(&obs);
            // the step: a single query or a transaction
            // Planned chains (temporal locality of real workloads): a small value of one element is updated in a query of
            // its own (the transaction ENDS with the write of that value slot), updated again, and then a longer
            // transaction STARTS with a third update of the same slot - consecutive transactions that begin exactly
            // where the previous one ended.
            if planned.is_empty() && !view.nodes.is_empty() && rng.chance(1, 4) {
                let id = *rng.pick(&view.nodes);
                let key = *rng.pick(&["k", "m", "z"]);
                let q0 = MQ::InsertValues(agdb::InsertValuesQuery {
                    ids: agdb::QueryIds::Ids(vec![agdb::QueryId::Id(agdb::DbId(id))]),
                    values: agdb::QueryValues::Single(vec![(key, rng.range(0, 3) as i64).into()]),
                });
                let q1 = vary(&q0).unwrap();
                let q2 = vary(&q1).unwrap();
                planned.push_back((q0, false));
                planned.push_back((q1, false));
                planned.push_back((q2, true));
            }
            let plan = planned.pop_front();
            let varied = plan.as_ref().map(|p| p.0.clone());
            let is_tx = match &plan { Some(p) => p.1, None => rng.chance(1, 4) };
            let mut qs: Vec<MQ> = vec![];
            {
                let mut g = Gen { rng: &mut rng, p: &profile, keys_pool: std::mem::take(&mut keys_pool), allow_dup: false, in_tx: is_tx };
                let want = if is_tx { g.rng.range(2, 4) } else { 1 };
                let mut tries = 0;
                while (qs.len() as u64) < want && tries < 30 {
                    tries += 1;
                    if let Some(q) = g.mutation(&view) { qs.push(q); }
                }
                keys_pool = g.keys_pool;
            }
            if qs.is_empty() { continue; }
            if let Some(v) = varied { qs[0] = v; }
            ctx.borrow_mut().snaps.clear();
            ctx.borrow_mut().armed = true;
            let ev = if is_tx {
                let abort = if rng.chance(1, 3) { Some(rng.range(1, qs.len() as u64) as usize) } else { None };
                let r = guarded(|| exec_tx(db, &qs, abort));
                ctx.borrow_mut().armed = false;
                match r {
                    Ok((results, committed)) => {
                        let subs: Vec<Value> = results.iter().enumerate().map(|(i, r)| merge(qs[i].event(), qs[i].outcome(r))).collect();
                        n_tx += 1;
                        json!({"ev": "Tx", "queries": subs.clone(), "ok": committed, "res": subs, "abort": abort.unwrap_or(0), "others": []})
                    }
                    Err(p) => json!({"ev": "Panic", "query": "tx", "msg": p}),
                }
            } else {
                let r = guarded(|| exec_mq(db, &qs[0]));
                ctx.borrow_mut().armed = false;
                match r {
                    Ok(r) => merge(merge(qs[0].event(), qs[0].outcome(&r)), json!({"others": []})),
                    Err(p) => json!({"ev": "Panic", "query": qs[0].event(), "msg": p}),
                }
            };
            let panicked = ev["ev"] == "Panic";
            trace.emit(ev);
            if panicked { break; }
            n_steps += 1;
            obs = match observe(db) { Ok(o) => merge(o, json!({"digest": "", "others": []})), Err(e) => json!({"ev": "ObserveFailed", "err": e}) };
            trace.emit(obs.clone());
            if obs["ev"] != "Observe" { break; }
            let after = strip(&obs);
            probe_step(&ctx, &mut rng, &wd, &mut trace, &mut st, &mut bad_samples, kind, &probe_path, &before, &after, run, step, max_points, cross_every);
            // every few steps (and at the end): close the database with the hook armed (the close-time
            // defragmentation is a sequence of storage transactions too), reopen, and probe those images
            if step % 5 == 0 || step >= ops {
                ctx.borrow_mut().snaps.clear();
                ctx.borrow_mut().armed = true;
                let closing = dbo.take().unwrap();
                let r = guarded(move || { drop(closing); });
                ctx.borrow_mut().armed = false;
                if let Err(p) = r { trace.emit(json!({"ev": "Panic", "query": "close", "msg": p})); break; }
                trace.emit(json!({"ev": "Maintain", "op": "close_reopen", "ok": true, "errs": []}));
                dbo = match guarded(|| open(kind, &path)) {
                    Ok(Ok(d)) => Some(d),
                    Ok(Err(e)) => { trace.emit(json!({"ev": "OpenFailed", "err": e.description})); break; }
                    Err(p) => { trace.emit(json!({"ev": "Panic", "query": "reopen", "msg": p})); break; }
                };
                obs = match observe(dbo.as_ref().unwrap()) { Ok(o) => merge(o, json!({"digest": "", "others": []})), Err(e) => json!({"ev": "ObserveFailed", "err": e}) };
                trace.emit(obs.clone());
                if obs["ev"] != "Observe" { break; }
                let now = strip(&obs);
                st.closes += 1;
                probe_step(&ctx, &mut rng, &wd, &mut trace, &mut st, &mut bad_samples, kind, &probe_path, &after, &now, run, step, max_points, cross_every);
            }
        }
        drop(dbo);
        remove_files(&path);
        remove_files(&probe_path);
    }
    set_fs_hook(None);
    trace.flush();
    println!("{}", serde_json::to_string(&json!({
        "first": first, "programs": runs, "steps": n_steps, "transactions": n_tx, "syscalls": ctx.borrow().syscalls,
        "distinct_images_seen": st.images, "crash_points": st.points, "torn_points": st.torn, "recovered_before": st.before, "recovered_after": st.after,
        "recovered_other": st.other, "unreadable": st.unreadable, "cross_variant_points": st.cross, "closes_probed": st.closes, "bad_samples": bad_samples,
        "trace_events": trace.events,
    })).unwrap());
}
