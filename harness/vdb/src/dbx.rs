//! One handle type over all storage variants of the database, the mutating/reading query enums
//! used by the drivers, and the canonical dump through the public API.
use crate::enc::*;
use agdb::*;
use serde_json::{Value, json};
use std::cell::RefCell;

pub enum DbX {
    Mem(DbMemory),
    File(DbFile),
    Map(Db),
    Any(DbAny),
    Faulty(DbImpl<crate::fault::Faulty>),
}

#[macro_export]
macro_rules! with_db {
    ($s:expr, $d:ident => $body:expr) => {
        match $s {
            DbX::Mem($d) => $body,
            DbX::File($d) => $body,
            DbX::Map($d) => $body,
            DbX::Any($d) => $body,
            DbX::Faulty($d) => $body,
        }
    };
}

#[derive(Clone, Copy, Debug, PartialEq)]
pub enum Kind {
    Memory,
    File,
    Mapped,
    AnyMemory,
    AnyFile,
    AnyMapped,
}

impl Kind {
    pub fn name(&self) -> &'static str {
        match self {
            Kind::Memory => "memory",
            Kind::File => "file",
            Kind::Mapped => "mapped",
            Kind::AnyMemory => "any_memory",
            Kind::AnyFile => "any_file",
            Kind::AnyMapped => "any_mapped",
        }
    }
    pub fn file_backed(&self) -> bool {
        !matches!(self, Kind::Memory | Kind::AnyMemory)
    }
    pub fn all() -> [Kind; 6] {
        [Kind::Memory, Kind::File, Kind::Mapped, Kind::AnyMemory, Kind::AnyFile, Kind::AnyMapped]
    }
}

pub fn open(kind: Kind, path: &str) -> Result<DbX, DbError> {
    Ok(match kind {
        Kind::Memory => DbX::Mem(DbMemory::new(path)?),
        Kind::File => DbX::File(DbFile::new(path)?),
        Kind::Mapped => DbX::Map(Db::new(path)?),
        Kind::AnyMemory => DbX::Any(DbAny::new_memory(path)?),
        Kind::AnyFile => DbX::Any(DbAny::new_file(path)?),
        Kind::AnyMapped => DbX::Any(DbAny::new_mapped(path)?),
    })
}

pub fn wal_name(path: &str) -> String {
    let pos = path.rfind('/').map(|p| p + 1).unwrap_or(0);
    let mut s = path.to_string();
    s.insert(pos, '.');
    s
}

pub fn remove_files(path: &str) {
    let _ = std::fs::remove_file(path);
    let _ = std::fs::remove_file(wal_name(path));
}

/// Mutating queries the drivers generate (builder-reachable shapes only).
#[derive(Clone, Debug)]
pub enum MQ {
    InsertNodes(InsertNodesQuery),
    InsertEdges(InsertEdgesQuery),
    InsertAliases(InsertAliasesQuery),
    InsertValues(InsertValuesQuery),
    InsertIndex(InsertIndexQuery),
    RemoveIndex(RemoveIndexQuery),
    Remove(RemoveQuery),
    RemoveAliases(RemoveAliasesQuery),
    RemoveValues(RemoveValuesQuery),
}

fn ids_vec(q: &QueryIds) -> Vec<QueryId> {
    match q {
        QueryIds::Ids(v) => v.clone(),
        QueryIds::Search(_) => vec![],
    }
}

fn expand(values: &QueryValues, n: usize) -> Vec<Vec<DbKeyValue>> {
    match values {
        QueryValues::Single(v) => vec![v.clone(); n],
        QueryValues::Multi(v) => v.clone(),
    }
}

impl MQ {
    /// The event without outcome: name and arguments in the form DbModel expects
    /// (values expanded to one pair list per target).
    pub fn event(&self) -> Value {
        match self {
            MQ::InsertNodes(q) => {
                let ids = ids_vec(&q.ids);
                if ids.is_empty() {
                    let n = std::cmp::max(q.count as usize, q.aliases.len());
                    json!({"ev": "InsertNodes", "aliases": q.aliases, "values": vals_enc(&expand(&q.values, n))})
                } else {
                    json!({"ev": "UpdateNodes", "ids": qids_enc(&ids), "aliases": q.aliases,
                           "values": vals_enc(&expand(&q.values, ids.len()))})
                }
            }
            MQ::InsertEdges(q) => {
                let ids = ids_vec(&q.ids);
                if ids.is_empty() {
                    let (f, t) = (ids_vec(&q.from), ids_vec(&q.to));
                    let n = if q.each || f.len() != t.len() { f.len() * t.len() } else { f.len() };
                    json!({"ev": "InsertEdges", "from": qids_enc(&f), "to": qids_enc(&t), "each": q.each,
                           "values": vals_enc(&expand(&q.values, n))})
                } else {
                    json!({"ev": "UpdateEdges", "ids": qids_enc(&ids), "values": vals_enc(&expand(&q.values, ids.len()))})
                }
            }
            MQ::InsertAliases(q) => json!({"ev": "InsertAliases", "ids": qids_enc(&ids_vec(&q.ids)), "aliases": q.aliases}),
            MQ::InsertValues(q) => {
                let ids = ids_vec(&q.ids);
                json!({"ev": "InsertValues", "ids": qids_enc(&ids), "values": vals_enc(&expand(&q.values, ids.len()))})
            }
            MQ::InsertIndex(q) => json!({"ev": "InsertIndex", "key": venc(&q.0)}),
            MQ::RemoveIndex(q) => json!({"ev": "RemoveIndex", "key": venc(&q.0)}),
            MQ::Remove(q) => json!({"ev": "Remove", "ids": qids_enc(&ids_vec(&q.0))}),
            MQ::RemoveAliases(q) => json!({"ev": "RemoveAliases", "aliases": q.0}),
            MQ::RemoveValues(q) => json!({"ev": "RemoveValues", "ids": qids_enc(&ids_vec(&q.0.ids)),
                                          "keys": q.0.keys.iter().map(venc).collect::<Vec<_>>()}),
        }
    }

    pub fn exec<S: StorageData>(&self, db: &mut DbImpl<S>) -> Result<QueryResult, DbError> {
        match self {
            MQ::InsertNodes(q) => db.exec_mut(q),
            MQ::InsertEdges(q) => db.exec_mut(q),
            MQ::InsertAliases(q) => db.exec_mut(q),
            MQ::InsertValues(q) => db.exec_mut(q),
            MQ::InsertIndex(q) => db.exec_mut(q),
            MQ::RemoveIndex(q) => db.exec_mut(q),
            MQ::Remove(q) => db.exec_mut(q),
            MQ::RemoveAliases(q) => db.exec_mut(q),
            MQ::RemoveValues(q) => db.exec_mut(q),
        }
    }

    pub fn exec_tx<S: StorageData>(&self, t: &mut TransactionMut<S>) -> Result<QueryResult, DbError> {
        match self {
            MQ::InsertNodes(q) => t.exec_mut(q),
            MQ::InsertEdges(q) => t.exec_mut(q),
            MQ::InsertAliases(q) => t.exec_mut(q),
            MQ::InsertValues(q) => t.exec_mut(q),
            MQ::InsertIndex(q) => t.exec_mut(q),
            MQ::RemoveIndex(q) => t.exec_mut(q),
            MQ::Remove(q) => t.exec_mut(q),
            MQ::RemoveAliases(q) => t.exec_mut(q),
            MQ::RemoveValues(q) => t.exec_mut(q),
        }
    }

    /// (ok, res, result) in the form the events carry: res = ids of returned elements
    pub fn outcome(&self, r: &Result<QueryResult, DbError>) -> Value {
        match r {
            Ok(r) => json!({"ok": true, "res": ids_of(r), "result": r.result}),
            Err(e) => json!({"ok": false, "res": [], "result": 0, "err": e.description}),
        }
    }
}

pub fn merge(mut ev: Value, extra: Value) -> Value {
    if let (Value::Object(a), Value::Object(b)) = (&mut ev, extra) {
        for (k, v) in b {
            a.insert(k, v);
        }
    }
    ev
}

/// Outcome of running a closure that may panic: panics of the code under test are data.
pub fn guarded<R>(f: impl FnOnce() -> R) -> Result<R, String> {
    std::panic::catch_unwind(std::panic::AssertUnwindSafe(f)).map_err(|p| {
        if let Some(s) = p.downcast_ref::<String>() {
            s.clone()
        } else if let Some(s) = p.downcast_ref::<&str>() {
            s.to_string()
        } else {
            "panic".to_string()
        }
    })
}

pub fn exec_mq(db: &mut DbX, q: &MQ) -> Result<QueryResult, DbError> {
    with_db!(db, d => q.exec(d))
}

/// transaction_mut: runs the queries in order; stops with Err at the first failing query, or after
/// `abort_after` successful queries on its own accord. Returns (per-query results, committed).
pub fn exec_tx(db: &mut DbX, qs: &[MQ], abort_after: Option<usize>) -> (Vec<Result<QueryResult, DbError>>, bool) {
    let results: RefCell<Vec<Result<QueryResult, DbError>>> = RefCell::new(vec![]);
    let r: Result<(), DbError> = with_db!(db, d => d.transaction_mut(|t| -> Result<(), DbError> {
        for (i, q) in qs.iter().enumerate() {
            if abort_after == Some(i) {
                return Err(DbError::query(DbErrorType::NotAllowed, "driver abort"));
            }
            let r = q.exec_tx(t);
            let failed = r.is_err();
            results.borrow_mut().push(r);
            if failed {
                return Err(DbError::query(DbErrorType::NotAllowed, "query failed"));
            }
        }
        if abort_after == Some(qs.len()) {
            return Err(DbError::query(DbErrorType::NotAllowed, "driver abort"));
        }
        Ok(())
    }));
    (results.into_inner(), r.is_ok())
}

pub fn exec_read<Q: Query>(db: &DbX, q: Q) -> Result<QueryResult, DbError> {
    with_db!(db, d => d.exec(q))
}

fn first_value_string(e: &DbElement) -> String {
    e.values.first().map(|kv| kv.value.to_string()).unwrap_or_default()
}

/// Canonical dump of everything observable through the public API.
pub fn observe(db: &DbX) -> Result<Value, String> {
    let err = |e: DbError| format!("observe: {}", e.description);
    let elements = exec_read(db, QueryBuilder::search().elements().query()).map_err(err)?.ids();
    let r = exec_read(db, QueryBuilder::select().ids(elements.clone()).query()).map_err(err)?;
    let (mut nodes, mut edges, mut kvs, mut out, mut inn) = (vec![], vec![], vec![], vec![], vec![]);
    for e in &r.elements {
        if e.id.0 > 0 {
            nodes.push(json!(e.id.0));
            let o = exec_read(db, QueryBuilder::search().from(e.id).where_().distance(CountComparison::Equal(1)).query())
                .map_err(err)?;
            out.push(json!([e.id.0, ids_of(&o)]));
            let i = exec_read(db, QueryBuilder::search().to(e.id).where_().distance(CountComparison::Equal(1)).query())
                .map_err(err)?;
            inn.push(json!([e.id.0, ids_of(&i)]));
        } else {
            edges.push(json!([e.id.0, e.from.0, e.to.0]));
        }
        kvs.push(json!([e.id.0, kvs_enc(&e.values)]));
    }
    let a = exec_read(db, QueryBuilder::select().aliases().query()).map_err(err)?;
    let aliases: Vec<Value> = a.elements.iter().map(|e| json!([first_value_string(e), e.id.0])).collect();
    let ix = exec_read(db, QueryBuilder::select().indexes().query()).map_err(err)?;
    let indexes: Vec<Value> = ix.elements[0].values.iter()
        .map(|kv| json!([venc(&kv.key), kv.value.to_u64().unwrap_or(u64::MAX)])).collect();
    let nc = exec_read(db, QueryBuilder::select().node_count().query()).map_err(err)?.result;
    Ok(json!({"ev": "Observe", "nodes": nodes, "edges": edges, "kvs": kvs, "aliases": aliases, "indexes": indexes,
              "node_count": nc, "out": out, "inn": inn, "elements": elements.iter().map(|i| i.0).collect::<Vec<_>>()}))
}

pub fn digest(v: &Value) -> String {
    format!("{:016x}", vcore::fnv(serde_json::to_string(v).unwrap().as_bytes()))
}

/// runs `f` on the concrete database behind the handle (mutable / shared)
pub fn with_db_mut<R>(db: &mut DbX, f: impl FnOnce(&mut dyn DbDyn) -> R) -> R {
    match db {
        DbX::Mem(d) => f(d),
        DbX::File(d) => f(d),
        DbX::Map(d) => f(d),
        DbX::Any(d) => f(d),
        DbX::Faulty(d) => f(d),
    }
}
pub fn with_db_ref<R>(db: &DbX, f: impl FnOnce(&dyn DbDyn) -> R) -> R {
    match db {
        DbX::Mem(d) => f(d),
        DbX::File(d) => f(d),
        DbX::Map(d) => f(d),
        DbX::Any(d) => f(d),
        DbX::Faulty(d) => f(d),
    }
}
/// the two query kinds the typed driver needs, object safe
pub trait DbDyn {
    fn exec_mut(&mut self, q: InsertValuesQuery) -> Result<QueryResult, DbError>;
    fn exec(&self, q: SelectValuesQuery) -> Result<QueryResult, DbError>;
}
impl<S: StorageData> DbDyn for DbImpl<S> {
    fn exec_mut(&mut self, q: InsertValuesQuery) -> Result<QueryResult, DbError> { DbImpl::exec_mut(self, q) }
    fn exec(&self, q: SelectValuesQuery) -> Result<QueryResult, DbError> { DbImpl::exec(self, q) }
}
