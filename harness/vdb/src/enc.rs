//! JSON encoding of values, ids, results and the canonical dump (Observe).
use agdb::*;
use serde_json::{Value, json};

/// value record {t, n, s}: compared for equality by the specification; small numbers keep `n`
pub fn venc(v: &DbValue) -> Value {
    fn small(i: i128) -> bool {
        i.abs() < (1 << 30)
    }
    // c = comparable content for the search oracle (numbers: [n]; short strings: bytes; small int vectors: elements)
    match v {
        DbValue::I64(i) => {
            if small(*i as i128) { json!({"t": "i", "n": i, "s": "", "c": [i]}) } else { json!({"t": "i", "n": 0, "s": i.to_string(), "c": []}) }
        }
        DbValue::U64(u) => {
            if small(*u as i128) { json!({"t": "u", "n": u, "s": "", "c": [u]}) } else { json!({"t": "u", "n": 0, "s": u.to_string(), "c": []}) }
        }
        DbValue::F64(f) => {
            let x = f.to_f64();
            let h = x * 2.0;
            if h.fract() == 0.0 && h.abs() < 1e9 && !(x == 0.0 && x.is_sign_negative()) {
                json!({"t": "f", "n": h as i64, "s": "", "c": [h as i64]})
            } else {
                json!({"t": "f", "n": 0, "s": format!("{:016x}", x.to_bits()), "c": []})
            }
        }
        DbValue::String(s) => {
            let c: Vec<u8> = if s.len() <= 12 { s.as_bytes().to_vec() } else { vec![] };
            json!({"t": "s", "n": 0, "s": s, "c": c})
        }
        // big byte arrays travel as (length, digest): the specification only needs equality of tokens
        DbValue::Bytes(b) if b.len() > 64 => json!({"t": "b", "n": b.len(), "s": format!("fnv:{:016x}", vcore::fnv(b)), "c": []}),
        DbValue::Bytes(b) => json!({"t": "b", "n": b.len(), "s": vcore::hex(b), "c": []}),
        DbValue::VecI64(x) => {
            let c: Vec<i64> = if x.len() <= 8 && x.iter().all(|i| small(*i as i128)) { x.clone() } else { vec![] };
            json!({"t": "vi", "n": x.len(), "s": format!("{x:?}"), "c": c})
        }
        DbValue::VecU64(x) => json!({"t": "vu", "n": x.len(), "s": format!("{x:?}"), "c": []}),
        DbValue::VecF64(x) => json!({"t": "vf", "n": x.len(), "s": x.iter().map(|f| format!("{:016x}", f.to_f64().to_bits())).collect::<Vec<_>>().join(","), "c": []}),
        DbValue::VecString(x) => json!({"t": "vs", "n": x.len(), "s": format!("{x:?}"), "c": []}),
    }
}

pub fn kvs_enc(p: &[DbKeyValue]) -> Value {
    Value::Array(p.iter().map(|kv| json!([venc(&kv.key), venc(&kv.value)])).collect())
}

pub fn vals_enc(v: &[Vec<DbKeyValue>]) -> Value {
    Value::Array(v.iter().map(|p| kvs_enc(p)).collect())
}

pub fn qid_enc(q: &QueryId) -> Value {
    match q {
        QueryId::Id(i) => json!(["i", i.0]),
        QueryId::Alias(a) => json!(["a", a]),
    }
}

pub fn qids_enc(q: &[QueryId]) -> Value {
    Value::Array(q.iter().map(qid_enc).collect())
}

pub fn ids_of(r: &QueryResult) -> Vec<i64> {
    r.elements.iter().map(|e| e.id.0).collect()
}
