//! C32 driver: a storage write / resize fails (e.g. disk full) at the k-th StorageData call of a
//! mutating query. No hook is needed: `Faulty` is a public `StorageData` wrapper around the real
//! `FileStorage` handed to `DbImpl::with_data`; the failure is injected BEFORE the call reaches the
//! file, so nothing of the failed call is on disk.
//!
//! A primary database executes a generated history without faults (this gives the number N of
//! storage calls of every step). For every step and every sampled k < N a copy of the files as
//! they were before the step is opened, the step is run with call k failing, then later mutations
//! are run, the database is closed, reopened with the plain file-backed variants and dumped.
//! Each such probe is one Reset-delimited run of the trace:
//!   Reset, Load(dump before), <step event with fault=true>, Observe, <later events>, Observe,
//!   Maintain(close_reopen), Observe
//! and DbTrace.tla decides it: the faulted step reports an error and changes nothing, the later
//! steps behave as the model says, and the reopened database equals the model state.
use crate::dbx::*;
use crate::hist::{Gen, Profile, View};
use agdb::*;
use serde_json::{Value, json};
use std::cell::Cell;
use vcore::{Args, Rng, Trace};

thread_local! {
    static CALLS: Cell<i64> = const { Cell::new(0) };
    static FAIL_AT: Cell<i64> = const { Cell::new(-1) };
    static FAILED: Cell<i64> = const { Cell::new(0) };
}

pub struct Faulty {
    inner: FileStorage,
}

fn tick(what: &str) -> Result<(), DbError> {
    let k = CALLS.with(|c| { let k = c.get(); c.set(k + 1); k });
    if k == FAIL_AT.with(|c| c.get()) {
        FAILED.with(|c| c.set(c.get() + 1));
        Err(DbError::storage(DbErrorType::NotAllowed, format!("injected fault: {what} failed (disk full)")))
    } else {
        Ok(())
    }
}

impl StorageData for Faulty {
    fn backup(&self, n: &str) -> Result<(), DbError> { self.inner.backup(n) }
    fn copy(&self, n: &str) -> Result<Self, DbError> { Ok(Faulty { inner: self.inner.copy(n)? }) }
    fn flush(&mut self) -> Result<(), DbError> { self.inner.flush() }
    fn len(&self) -> u64 { self.inner.len() }
    fn name(&self) -> &str { self.inner.name() }
    fn new(n: &str) -> Result<Self, DbError> { Ok(Faulty { inner: FileStorage::new(n)? }) }
    fn read(&'_ self, p: u64, l: u64) -> Result<StorageSlice<'_>, DbError> { self.inner.read(p, l) }
    fn rename(&mut self, n: &str) -> Result<(), DbError> { self.inner.rename(n) }
    fn rollback(&mut self) -> Result<bool, DbError> { self.inner.rollback() }
    fn resize(&mut self, l: u64) -> Result<(), DbError> { tick("resize")?; self.inner.resize(l) }
    fn write(&mut self, p: u64, b: &[u8]) -> Result<(), DbError> { tick("write")?; self.inner.write(p, b) }
}

fn open_faulty(path: &str) -> Result<DbX, DbError> {
    Ok(DbX::Faulty(DbImpl::<Faulty>::with_data(Faulty::new(path)?)?))
}

fn copy_files(from: &str, to: &str) {
    remove_files(to);
    let _ = std::fs::copy(from, to);
    let w = wal_name(from);
    if std::path::Path::new(&w).exists() {
        let _ = std::fs::copy(&w, wal_name(to));
    }
}

fn obs_ev(db: &DbX) -> Value {
    match guarded(|| observe(db)) {
        Ok(Ok(o)) => merge(o, json!({"digest": "", "others": []})),
        Ok(Err(e)) => json!({"ev": "ObserveFailed", "err": e}),
        Err(p) => json!({"ev": "Panic", "query": "observe", "msg": p}),
    }
}

/// One step: a single query or a transaction (queries + optional abort point).
struct Step { qs: Vec<MQ>, is_tx: bool, abort: Option<usize> }

fn gen_step(rng: &mut Rng, profile: &Profile, keys_pool: &mut Vec<DbValue>, view: &View, allow_tx: bool) -> Option<Step> {
    let is_tx = allow_tx && rng.chance(1, 4);
    let mut qs = vec![];
    let mut g = Gen { rng, p: profile, keys_pool: std::mem::take(keys_pool), allow_dup: false, in_tx: is_tx };
    let want = if is_tx { g.rng.range(2, 3) } else { 1 };
    let mut tries = 0;
    while (qs.len() as u64) < want && tries < 30 {
        tries += 1;
        if let Some(q) = g.mutation(view) { qs.push(q); }
    }
    *keys_pool = std::mem::take(&mut g.keys_pool);
    if qs.is_empty() { return None; }
    let abort = if is_tx && rng.chance(1, 5) { Some(rng.range(1, qs.len() as u64) as usize) } else { None };
    Some(Step { qs, is_tx, abort })
}

/// Runs the step; returns its event (Panic event if the code under test panicked).
fn run_step(db: &mut DbX, s: &Step, fault: bool) -> Value {
    let extra = json!({"others": [], "fault": fault});
    if s.is_tx {
        match guarded(|| exec_tx(db, &s.qs, s.abort)) {
            Ok((results, committed)) => {
                let subs: Vec<Value> = results.iter().enumerate().map(|(i, r)| merge(s.qs[i].event(), s.qs[i].outcome(r))).collect();
                merge(json!({"ev": "Tx", "queries": subs.clone(), "ok": committed, "res": subs, "abort": s.abort.unwrap_or(0)}), extra)
            }
            Err(p) => json!({"ev": "Panic", "query": "tx", "msg": p, "fault": fault}),
        }
    } else {
        match guarded(|| exec_mq(db, &s.qs[0])) {
            Ok(r) => merge(merge(s.qs[0].event(), s.qs[0].outcome(&r)), extra),
            Err(p) => json!({"ev": "Panic", "query": s.qs[0].event(), "msg": p, "fault": fault}),
        }
    }
}

pub fn run(args: &Args) {
    let seed = args.num("seed", 1);
    let first = args.num("first", 0);
    let runs = args.num("programs", 2);
    let ops = args.num("ops", 10);
    let later = args.num("later", 2);
    let max_k = args.num("max-k", 24) as usize; // fault points sampled per step (all when the step has fewer calls)
    let work = args.str("work", "/verif/harness/target/scratch/vfault");
    let out = args.str("out", &format!("{work}/fault_trace.ndjson"));
    let profile = Profile::named(&args.str("profile", "crash"));
    std::fs::create_dir_all(&work).unwrap();
    std::panic::set_hook(Box::new(|_| {}));
    let mut trace = Trace::create(&out);
    let wd = vcore::Watchdog::start(60, &out);
    let (mut n_steps, mut n_probes, mut n_calls, mut n_swallowed, mut n_nofault) = (0u64, 0u64, 0u64, 0u64, 0u64);
    for run in first..first + runs {
        let mut rng = Rng::new(seed.wrapping_mul(1_000_003).wrapping_add(run).wrapping_add(770_001));
        let path = format!("{work}/f{run}.agdb");
        let base = format!("{work}/f{run}.base.agdb");
        let probe = format!("{work}/f{run}.probe.agdb");
        remove_files(&path);
        FAIL_AT.with(|c| c.set(-1));
        let mut db = match open_faulty(&path) { Ok(d) => d, Err(e) => { trace.emit(json!({"ev": "OpenFailed", "err": e.description})); continue; } };
        // the fault-free primary history is itself validated (run 0 of this program)
        trace.emit(json!({"ev": "Reset", "profile": "fault", "run": run, "variants": ["faulty_file"], "probe": "primary"}));
        let mut obs = obs_ev(&db);
        trace.emit(obs.clone());
        let mut keys_pool = vec![];
        let mut probes: Vec<Vec<Value>> = vec![];
        for step in 1..=ops {
            trace.flush();
            wd.kick(&format!("fault run {run} step {step}"));
            if obs["ev"] != "Observe" { break; }
            let view = View::from_obs(&obs);
            let Some(s) = gen_step(&mut rng, &profile, &mut keys_pool, &view, true) else { continue };
            // files before the step (the storage is flushed: no transaction is open between queries)
            copy_files(&path, &base);
            CALLS.with(|c| c.set(0));
            let ev = run_step(&mut db, &s, false);
            let n = CALLS.with(|c| c.get());
            let panicked = ev["ev"] == "Panic";
            trace.emit(ev);
            if panicked { break; }
            n_steps += 1;
            n_calls += n as u64;
            let before = obs.clone();
            obs = obs_ev(&db);
            trace.emit(obs.clone());
            // later work generated against the state BEFORE the step (which is what a failed step must leave)
            let mut later_steps = vec![];
            {
                let mut lrng = Rng::new(rng.next());
                let mut kp = keys_pool.clone();
                let mut v = View::from_obs(&before);
                for _ in 0..later {
                    if let Some(ls) = gen_step(&mut lrng, &profile, &mut kp, &v, false) { later_steps.push(ls); }
                    // keep generating against the same view: ids created by earlier later-steps are not needed
                    v = View::from_obs(&before);
                }
            }
            // fault points
            let mut ks: Vec<i64> = (0..n).collect();
            if ks.len() > max_k {
                for i in 0..max_k { let j = i + rng.below((ks.len() - i) as u64) as usize; ks.swap(i, j); }
                ks.truncate(max_k);
                ks.sort();
            }
            for k in ks {
                wd.kick(&format!("fault run {run} step {step} k {k}"));
                let mut evs: Vec<Value> = vec![];
                evs.push(json!({"ev": "Reset", "profile": "fault", "run": run, "variants": ["faulty_file"], "probe": format!("step {step} call {k} of {n}")}));
                evs.push(merge(before.clone(), json!({"ev": "Load"})));
                copy_files(&base, &probe);
                FAIL_AT.with(|c| c.set(-1));
                let mut pdb = match guarded(|| open_faulty(&probe)) {
                    Ok(Ok(d)) => d,
                    Ok(Err(e)) => { evs.push(json!({"ev": "OpenFailed", "err": e.description})); probes.push(evs); continue; }
                    Err(p) => { evs.push(json!({"ev": "Panic", "query": "open", "msg": p})); probes.push(evs); continue; }
                };
                CALLS.with(|c| c.set(0));
                FAILED.with(|c| c.set(0));
                FAIL_AT.with(|c| c.set(k));
                let ev = run_step(&mut pdb, &s, true);
                FAIL_AT.with(|c| c.set(-1));
                let injected = FAILED.with(|c| c.get()) > 0;
                n_probes += 1;
                if !injected {
                    // the probe took a different path with fewer calls (cannot happen for a deterministic database): not a fault run
                    n_nofault += 1;
                    continue;
                }
                if ev["ok"] == true { n_swallowed += 1; }
                let dead = ev["ev"] == "Panic";
                evs.push(ev);
                let mut alive = !dead;
                if alive {
                    let o = obs_ev(&pdb);
                    alive = o["ev"] == "Observe";
                    evs.push(o);
                }
                if alive {
                    for ls in &later_steps {
                        let ev = run_step(&mut pdb, ls, false);
                        let dead = ev["ev"] == "Panic";
                        evs.push(ev);
                        if dead { alive = false; break; }
                        let o = obs_ev(&pdb);
                        let okobs = o["ev"] == "Observe";
                        evs.push(o);
                        if !okobs { alive = false; break; }
                    }
                }
                // close and reopen with the plain file-backed variants, whatever happened before
                let closed = guarded(move || drop(pdb));
                if let Err(p) = closed {
                    evs.push(json!({"ev": "Panic", "query": "close", "msg": p}));
                } else if alive {
                    evs.push(json!({"ev": "Maintain", "op": "close_reopen", "ok": true, "errs": []}));
                    for kind in [Kind::File, Kind::Mapped] {
                        match guarded(|| open(kind, &probe)) {
                            Ok(Ok(d)) => { evs.push(obs_ev(&d)); drop(d); }
                            Ok(Err(e)) => evs.push(json!({"ev": "OpenFailed", "variant": kind.name(), "err": e.description})),
                            Err(p) => evs.push(json!({"ev": "Panic", "query": "reopen", "variant": kind.name(), "msg": p})),
                        }
                    }
                } else {
                    // the database was unusable in process; is at least the file readable afterwards?
                    match guarded(|| open(Kind::File, &probe).map(|d| { let o = obs_ev(&d); drop(d); o })) {
                        Ok(Ok(o)) => evs.push(json!({"ev": "Note", "reopen_after_unusable": o["ev"]})),
                        Ok(Err(e)) => evs.push(json!({"ev": "Note", "reopen_after_unusable": format!("open failed: {}", e.description)})),
                        Err(p) => evs.push(json!({"ev": "Note", "reopen_after_unusable": format!("panic: {p}")})),
                    }
                }
                probes.push(evs);
            }
        }
        drop(db);
        for evs in probes.drain(..) { for e in evs { trace.emit(e); } }
        remove_files(&path);
        remove_files(&base);
        remove_files(&probe);
    }
    trace.flush();
    println!("{}", serde_json::to_string(&json!({
        "first": first, "programs": runs, "steps": n_steps, "storage_calls": n_calls, "fault_probes": n_probes,
        "fault_swallowed": n_swallowed, "probes_without_injection": n_nofault, "trace_events": trace.events,
    })).unwrap());
}
