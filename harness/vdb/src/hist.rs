//! Random query histories on the real database, recorded as DbTrace events.
//! Every query is executed in lock-step on all configured storage variants (C06); after every
//! mutating step the full canonical dump (Observe) of the primary variant is recorded together
//! with the digests of the other variants' dumps.
use crate::dbx::*;
use crate::enc::*;
use crate::search::{Focus, SearchView, search_event, search_value};
use crate::with_db;
use agdb::*;
use serde_json::{Value, json};
use vcore::{Args, Rng, Trace};

pub struct Profile {
    pub name: String,
    pub w_insert_nodes: u64,
    pub w_update_nodes: u64,
    pub w_insert_edges: u64,
    pub w_update_edges: u64,
    pub w_insert_aliases: u64,
    pub w_insert_values: u64,
    pub w_index: u64,
    pub w_remove: u64,
    pub w_remove_aliases: u64,
    pub w_remove_values: u64,
    pub w_tx: u64,
    pub w_maintain: u64,
    pub reads_per_step: u64,
    pub exotic_values: bool,
    pub bad_inputs: bool,
    pub max_elems: usize,
    pub variants: Vec<Kind>,
    pub searches_per_step: u64,
    pub focus: Focus,
    pub search_values: bool,
    pub cross_type: bool,
    pub binary_values: bool,
    pub big_values: bool,
    /// every fifth big value is 1 - 2.3 MiB (sizes around the 1 MiB chunk constant of the storage layer)
    pub huge_values: bool,
    /// big values have one of a few exact sizes around 64 KiB multiples (in-place replacement by a value of the same size)
    pub exact_sizes: bool,
    /// integer values that hash to the last slots of the 64-slot index tables (probe runs that wrap around the table end)
    pub wrap_values: bool,
}

impl Profile {
    pub fn named(name: &str) -> Profile {
        let mut p = Profile {
            name: name.to_string(),
            w_insert_nodes: 10, w_update_nodes: 5, w_insert_edges: 10, w_update_edges: 3, w_insert_aliases: 6,
            w_insert_values: 10, w_index: 5, w_remove: 8, w_remove_aliases: 3, w_remove_values: 6, w_tx: 6,
            w_maintain: 0, reads_per_step: 1, exotic_values: false, bad_inputs: true, max_elems: 10,
            variants: vec![Kind::Memory],
            searches_per_step: 0, focus: Focus::Mixed, search_values: false, cross_type: true,
            binary_values: false, big_values: false, huge_values: false, exact_sizes: false, wrap_values: false,
        };
        let search = |p: &mut Profile, f: Focus| {
            p.searches_per_step = 3; p.focus = f; p.search_values = true; p.reads_per_step = 0;
            p.w_insert_nodes = 14; p.w_insert_edges = 22; p.w_remove = 8; p.w_insert_values = 14; p.w_update_nodes = 4;
            p.w_update_edges = 4; p.w_index = 0; p.w_tx = 2; p.w_insert_aliases = 3; p.w_remove_aliases = 1; p.w_remove_values = 3;
            p.max_elems = 9; p.bad_inputs = false;
        };
        match name {
            "graph" => { p.w_insert_nodes = 14; p.w_insert_edges = 18; p.w_remove = 14; p.w_insert_values = 3; p.w_index = 1; p.w_tx = 2; }
            "kv" => { p.w_insert_values = 20; p.w_update_nodes = 10; p.w_update_edges = 8; p.w_remove_values = 12; p.w_index = 2; }
            "alias" => { p.w_insert_aliases = 18; p.w_remove_aliases = 8; p.w_insert_nodes = 12; p.w_update_nodes = 8; p.w_remove = 8; p.w_insert_edges = 4; }
            "index" => { p.w_index = 12; p.w_insert_values = 16; p.w_remove_values = 10; p.w_remove = 8; p.w_tx = 8; p.reads_per_step = 2; }
            "tx" => { p.w_tx = 40; }
            "maint" => { p.w_maintain = 14; p.variants = vec![Kind::Mapped]; p.wrap_values = true; p.w_index = 8; }
            "maint_file" => { p.w_maintain = 14; p.variants = vec![Kind::File]; p.wrap_values = true; p.w_index = 8; }
            "maint_memory" => { p.w_maintain = 14; p.variants = vec![Kind::Memory]; p.wrap_values = true; p.w_index = 8; }
            "variants" => { p.variants = Kind::all().to_vec(); p.w_maintain = 3; }
            // the same in lock-step with values of 40-120 KiB: the files pass 1 MiB and are reopened, copied, backed up
            "variants_big" => { p.variants = Kind::all().to_vec(); p.w_maintain = 8; p.big_values = true; p.max_elems = 60; p.w_insert_nodes = 30;
                                p.w_insert_values = 14; p.w_remove = 3; p.w_remove_values = 2; p.w_tx = 2; p.bad_inputs = false; p.reads_per_step = 1; }
            // values beyond 1 MiB (a single value larger than the storage layer's chunk constant), removed, replaced, moved
            // by defragmentation, reopened
            "variants_huge" => { p.variants = vec![Kind::Memory, Kind::File, Kind::Mapped]; p.w_maintain = 14; p.big_values = true; p.huge_values = true;
                                 p.max_elems = 40; p.w_insert_nodes = 24; p.w_insert_values = 16; p.w_remove = 4; p.w_remove_values = 8; p.w_tx = 2;
                                 p.bad_inputs = false; p.reads_per_step = 1; }
            "values" => { p.exotic_values = true; p.w_insert_values = 20; p.w_update_nodes = 8; p.w_remove_values = 8;
                          p.variants = vec![Kind::Memory, Kind::File, Kind::Mapped]; p.w_maintain = 4; p.bad_inputs = false; }
            "search_trav" => search(&mut p, Focus::Traversal),
            "search_cond" => search(&mut p, Focus::Conditions),
            "search_slice" => search(&mut p, Focus::Slicing),
            "search_path" => search(&mut p, Focus::Path),
            // dense graphs whose nodes AND edges carry 0/1 values on three keys: many routes of different length and cost
            "search_pathcost" => { search(&mut p, Focus::PathCost); p.binary_values = true; p.max_elems = 14; p.w_insert_edges = 30;
                                   p.w_insert_values = 22; p.w_update_edges = 12; p.w_remove = 4; p.searches_per_step = 12; }
            "search_elem" => search(&mut p, Focus::Elements),
            "search_mixed" => search(&mut p, Focus::Mixed),
            "churn_alias" => { p.w_insert_aliases = 40; p.w_remove_aliases = 25; p.w_update_nodes = 10; p.w_insert_nodes = 6; p.w_remove = 5;
                               p.w_insert_edges = 1; p.w_index = 1; p.w_tx = 3; p.w_insert_values = 2; p.w_remove_values = 1; p.reads_per_step = 0; p.max_elems = 8; }
            "churn_index" => { p.w_index = 6; p.w_insert_values = 40; p.w_remove_values = 25; p.w_update_nodes = 10; p.w_insert_nodes = 5; p.w_remove = 5;
                               p.w_insert_edges = 2; p.w_tx = 4; p.w_insert_aliases = 2; p.reads_per_step = 1; p.max_elems = 8; }
            "crash" => { p.w_tx = 0; p.reads_per_step = 0; p.max_elems = 12; p.w_index = 6; }
            // crash points of queries on values of 16 KiB .. 128 KiB with a few EXACT sizes (64 KiB multiples and their
            // neighbours): in-place replacement by a value of the same size, removal, reuse of the freed region
            "crash_big" => { p.w_tx = 0; p.reads_per_step = 0; p.max_elems = 8; p.w_index = 2; p.big_values = true; p.exact_sizes = true;
                             p.w_insert_values = 30; p.w_update_nodes = 10; p.w_remove_values = 8; p.bad_inputs = false; }
            "elements" => { p.w_remove = 16; p.w_insert_nodes = 14; p.w_insert_edges = 14; p.reads_per_step = 2; }
            _ => {}
        }
        p
    }
}

const NAMES: [&str; 4] = ["a", "b", "c", "d"];
const KEYS: [&str; 3] = ["k", "m", "z"];

pub struct View {
    pub nodes: Vec<i64>,
    pub edges: Vec<i64>,
    pub aliases: Vec<(String, i64)>,
}

impl View {
    pub fn from_obs(o: &Value) -> View {
        let nodes = o["nodes"].as_array().unwrap().iter().map(|x| x.as_i64().unwrap()).collect();
        let edges = o["edges"].as_array().unwrap().iter().map(|x| x[0].as_i64().unwrap()).collect();
        let aliases = o["aliases"].as_array().unwrap().iter()
            .map(|x| (x[0].as_str().unwrap().to_string(), x[1].as_i64().unwrap())).collect();
        View { nodes, edges, aliases }
    }
    pub fn all(&self) -> Vec<i64> {
        let mut v = self.nodes.clone();
        v.extend(&self.edges);
        v
    }
}

thread_local! {
    /// values whose bits changed while they were CONVERTED into a database value (before any storage was involved):
    /// the driver intends to write exact bit patterns, so a conversion that alters them breaks "reads back bit-for-bit"
    /// just as a lossy storage would; reported as ValueAltered events (for which DbTrace has no action)
    pub static ALTERED: std::cell::RefCell<Vec<serde_json::Value>> = const { std::cell::RefCell::new(vec![]) };
}
fn exact_f64(bits: u64) -> DbF64 {
    let v: DbF64 = f64::from_bits(bits).into();
    if v.to_f64().to_bits() != bits {
        ALTERED.with(|a| a.borrow_mut().push(json!({"ev": "ValueAltered", "type": "f64", "written_bits": format!("{bits:016x}"),
                                                    "converted_bits": format!("{:016x}", v.to_f64().to_bits())})));
    }
    v
}

pub fn exotic_value(rng: &mut Rng) -> DbValue {
    let len_near = |rng: &mut Rng| -> usize {
        match rng.below(4) { 0 => rng.below(4) as usize, 1 => 13 + rng.below(6) as usize, 2 => 30 + rng.below(11) as usize, _ => rng.below(41) as usize }
    };
    match rng.below(12) {
        0 => DbValue::I64(*rng.pick(&[0, 1, -1, i64::MAX, i64::MIN, i64::MAX - 1, 1 << 31, -(1 << 31), 1 << 53])),
        1 => DbValue::U64(*rng.pick(&[0, 1, u64::MAX, u64::MAX - 1, 1 << 63, (1 << 63) - 1, 1 << 32])),
        2 => {
            let bits: u64 = match rng.below(10) {
                0 => 0, 1 => 1 << 63, 2 => 0x7ff0_0000_0000_0000, 3 => 0xfff0_0000_0000_0000,
                4 => 0x7ff8_0000_0000_0000, 5 => 0x7ff0_0000_0000_0001 | (rng.next() & 0x000f_ffff_ffff_ffff),
                6 => 0xfff8_0000_0000_0000 | (rng.next() & 0x0007_ffff_ffff_ffff), 7 => 1, 8 => 0x000f_ffff_ffff_ffff,
                _ => rng.next(),
            };
            DbValue::F64(exact_f64(bits))
        }
        3 | 4 => {
            let n = len_near(rng);
            let alphabet = ["a", "Z", "0", " ", "\u{e9}", "\u{4e2d}", "\u{1f600}", "\u{0}", "\"", "\\"];
            let mut s = String::new();
            while s.len() < n {
                s.push_str(*rng.pick(&alphabet[..]));
            }
            DbValue::String(s)
        }
        5 | 6 => {
            let n = len_near(rng);
            DbValue::Bytes((0..n).map(|_| rng.below(256) as u8).collect())
        }
        7 => DbValue::VecI64((0..rng.below(6)).map(|_| rng.next() as i64).collect()),
        8 => DbValue::VecU64((0..rng.below(6)).map(|_| rng.next()).collect()),
        9 => DbValue::VecF64((0..rng.below(6)).map(|_| exact_f64(if rng.chance(1, 4) { *rng.pick(&[1u64 << 63, 0, 0x7ff8_0000_0000_0001]) } else { rng.next() })).collect()),
        10 => DbValue::VecString((0..rng.below(5)).map(|_| "x".repeat(rng.below(20) as usize)).collect()),
        _ => DbValue::I64(rng.below(3) as i64),
    }
}

pub struct Gen<'a> {
    pub rng: &'a mut Rng,
    pub p: &'a Profile,
    pub keys_pool: Vec<DbValue>,
    pub allow_dup: bool,
    /// true while generating the sub-queries of a transaction: the view is the state BEFORE the transaction, so
    /// whether a sub-query creates an element is not known; repeated keys are then never generated
    pub in_tx: bool,
}

impl Gen<'_> {
    fn value(&mut self) -> DbValue {
        if self.p.big_values && self.rng.chance(2, 3) {
            let n = if self.p.exact_sizes { *self.rng.pick(&[65_535usize, 65_536, 65_536, 65_537, 131_072, 16_384, 100_000]) }
                    else if self.p.huge_values && self.rng.chance(1, 5) { *self.rng.pick(&[1_048_577usize, 1_200_000, 2_097_153, 2_300_000]) }
                    else { 40_000 + self.rng.below(80_000) as usize };
            let mut x = self.rng.next();
            return DbValue::Bytes((0..n).map(|_| { x = x.wrapping_mul(6364136223846793005).wrapping_add(1442695040888963407); (x >> 56) as u8 }).collect());
        }
        if self.p.binary_values {
            return DbValue::I64(self.rng.below(2) as i64);
        }
        if self.p.search_values {
            return search_value(self.rng, self.p.cross_type);
        }
        if self.p.exotic_values && self.rng.chance(3, 4) {
            return exotic_value(self.rng);
        }
        if self.p.wrap_values && self.rng.chance(1, 3) { return DbValue::I64(*self.rng.pick(&[63i64, 63, 127, 62])); }
        if self.rng.chance(7, 10) { DbValue::I64(self.rng.below(3) as i64) } else { DbValue::String(self.rng.pick(&["x", "y"]).to_string()) }
    }
    fn key(&mut self) -> DbValue {
        if self.p.exotic_values && self.rng.chance(1, 2) {
            // exotic keys come from a small per-run pool so that replacement / removal hit them again
            if self.keys_pool.len() < 6 {
                let v = exotic_value(self.rng);
                if !self.keys_pool.contains(&v) {
                    self.keys_pool.push(v);
                }
            }
            if !self.keys_pool.is_empty() {
                return self.rng.pick(&self.keys_pool).clone();
            }
        }
        DbValue::String(self.rng.pick(&KEYS).to_string())
    }
    /// 0..=3 pairs with distinct keys
    fn pairs(&mut self) -> Vec<DbKeyValue> {
        if self.p.binary_values {
            // almost every element carries "k" (0 or 1): a condition on it splits the graph into cost-1 and cost-2 elements
            let mut out = vec![];
            if self.rng.chance(19, 20) { out.push(DbKeyValue { key: "k".into(), value: self.value() }); }
            if self.rng.chance(1, 3) { out.push(DbKeyValue { key: "m".into(), value: self.value() }); }
            return out;
        }
        let n = self.rng.below(4);
        let mut out: Vec<DbKeyValue> = vec![];
        for _ in 0..n {
            let k = self.key();
            // The same key twice in one list: for an EXISTING element the later pair must replace the earlier one
            // (C09). For elements created by the query itself the repository's own tests pin "both pairs are stored"
            // (insert_edges_from_to_values_uniform), which the property does not speak about: never generated.
            if out.iter().any(|kv| kv.key == k) && !(self.allow_dup && self.rng.chance(1, 3)) {
                continue;
            }
            let v = self.value();
            out.push(DbKeyValue { key: k, value: v });
        }
        out
    }
    fn keys(&mut self, lo: u64, hi: u64) -> Vec<DbValue> {
        let n = self.rng.range(lo, hi);
        let mut out = vec![];
        for _ in 0..n {
            let k = self.key();
            if !out.contains(&k) {
                out.push(k);
            }
        }
        out
    }
    fn qid(&mut self, pool: &[i64], view: &View, bogus_per_100: u64) -> QueryId {
        if pool.is_empty() || (self.p.bad_inputs && self.rng.below(100) < bogus_per_100) {
            return if self.rng.chance(1, 2) { QueryId::Id(DbId(77)) } else { QueryId::Alias("nope".to_string()) };
        }
        let id = *self.rng.pick(pool);
        if id > 0 && self.rng.chance(3, 10) {
            if let Some((a, _)) = view.aliases.iter().find(|(_, i)| *i == id) {
                return QueryId::Alias(a.clone());
            }
        }
        QueryId::Id(DbId(id))
    }
    /// repeated keys are generated only for queries that certainly update EXISTING elements: numeric ids present in
    /// the view (an unused alias / id 0 creates an element, for which the repository pins 'both pairs stored')
    fn dup_ok(&self, ids: &[QueryId], view: &View) -> bool {
        !self.in_tx && ids.iter().all(|q| matches!(q, QueryId::Id(i) if i.0 != 0 && view.all().contains(&i.0)))
    }
    fn alias(&mut self) -> String {
        if self.p.bad_inputs && self.rng.chance(1, 25) { String::new() } else { self.rng.pick(&NAMES).to_string() }
    }
    fn values_for(&mut self, n: usize) -> QueryValues {
        match self.rng.below(10) {
            0..=4 => QueryValues::Single(self.pairs()),
            5..=8 => QueryValues::Multi((0..n).map(|_| self.pairs()).collect()),
            _ if self.p.bad_inputs => QueryValues::Multi((0..n + 1).map(|_| self.pairs()).collect()),
            _ => QueryValues::Single(self.pairs()),
        }
    }

    pub fn mutation(&mut self, view: &View) -> Option<MQ> {
        let p = self.p;
        let room = view.nodes.len() + view.edges.len() < p.max_elems;
        let total = p.w_insert_nodes + p.w_update_nodes + p.w_insert_edges + p.w_update_edges + p.w_insert_aliases
            + p.w_insert_values + p.w_index + p.w_remove + p.w_remove_aliases + p.w_remove_values;
        let mut x = self.rng.below(total);
        let mut pick = |w: u64| -> bool {
            if x < w { x = u64::MAX; true } else { if x != u64::MAX { x -= w; } false }
        };
        if pick(p.w_insert_nodes) {
            if !room { return None; }
            let form = self.rng.below(5);
            let mut aliases: Vec<String> = vec![];
            if form >= 2 {
                for _ in 0..self.rng.range(1, 2) {
                    let a = self.alias();
                    if !aliases.contains(&a) || a.is_empty() { aliases.push(a); }
                }
            }
            let (count, values) = match form {
                0 => (self.rng.range(1, 2), QueryValues::Single(vec![])),
                1 => (self.rng.range(1, 2), QueryValues::Single(self.pairs())),
                2 => (0, QueryValues::Single(vec![])),
                3 => (0, QueryValues::Single(self.pairs())),
                _ => {
                    let c = (aliases.len() as u64 + self.rng.below(2)).max(if p.bad_inputs { 0 } else { aliases.len() as u64 });
                    let c = if p.bad_inputs && self.rng.chance(1, 12) { aliases.len().saturating_sub(1) as u64 } else { c };
                    (0, QueryValues::Multi((0..c).map(|_| self.pairs()).collect()))
                }
            };
            return Some(MQ::InsertNodes(InsertNodesQuery { count, values, aliases, ids: QueryIds::Ids(vec![]) }));
        }
        if pick(p.w_update_nodes) {
            if view.nodes.is_empty() { return None; }
            let c = self.rng.range(1, 2) as usize;
            let pool = if p.bad_inputs && self.rng.chance(1, 10) { view.all() } else { view.nodes.clone() };
            let ids: Vec<QueryId> = (0..c).map(|_| self.qid(&pool, view, 8)).collect();
            self.allow_dup = self.dup_ok(&ids, view);
            let values = self.values_for(c);
            self.allow_dup = false;
            let aliases = if self.rng.chance(1, 3) { (0..self.rng.range(1, c as u64)).map(|_| self.alias()).collect() } else { vec![] };
            return Some(MQ::InsertNodes(InsertNodesQuery { count: 0, values, aliases, ids: QueryIds::Ids(ids) }));
        }
        if pick(p.w_insert_edges) {
            if view.nodes.is_empty() || !room { return None; }
            let (cf, ct) = (self.rng.range(1, 2) as usize, self.rng.range(1, 2) as usize);
            let pool = if p.bad_inputs && self.rng.chance(1, 12) { view.all() } else { view.nodes.clone() };
            let from: Vec<QueryId> = (0..cf).map(|_| self.qid(&pool, view, 6)).collect();
            let to: Vec<QueryId> = (0..ct).map(|_| self.qid(&pool, view, 6)).collect();
            let each = self.rng.chance(3, 10);
            let n = if !each && cf == ct { cf } else { cf * ct };
            let values = self.values_for(n);
            return Some(MQ::InsertEdges(InsertEdgesQuery { from: QueryIds::Ids(from), to: QueryIds::Ids(to), ids: QueryIds::Ids(vec![]), values, each }));
        }
        if pick(p.w_update_edges) {
            if view.edges.is_empty() { return None; }
            let c = self.rng.range(1, 2) as usize;
            let pool = if p.bad_inputs && self.rng.chance(1, 10) { view.all() } else { view.edges.clone() };
            let ids: Vec<QueryId> = (0..c).map(|_| self.qid(&pool, view, 8)).collect();
            self.allow_dup = self.dup_ok(&ids, view);
            let values = self.values_for(c);
            self.allow_dup = false;
            return Some(MQ::InsertEdges(InsertEdgesQuery { from: QueryIds::Ids(vec![]), to: QueryIds::Ids(vec![]), ids: QueryIds::Ids(ids), values, each: false }));
        }
        if pick(p.w_insert_aliases) {
            if view.nodes.is_empty() { return None; }
            let c = self.rng.range(1, 2) as usize;
            let pool = if p.bad_inputs && self.rng.chance(1, 6) { view.all() } else { view.nodes.clone() };
            let ids: Vec<QueryId> = (0..c).map(|_| self.qid(&pool, view, 8)).collect();
            let na = if p.bad_inputs && self.rng.chance(1, 15) { c + 1 } else { c };
            let mut aliases: Vec<String> = vec![];
            for _ in 0..na { aliases.push(self.alias()); }
            return Some(MQ::InsertAliases(InsertAliasesQuery { ids: QueryIds::Ids(ids), aliases }));
        }
        if pick(p.w_insert_values) {
            let all = view.all();
            let c = self.rng.range(1, 2) as usize;
            let mut ids: Vec<QueryId> = vec![];
            for _ in 0..c {
                let x = self.rng.below(12);
                if x == 0 && room {
                    ids.push(QueryId::Id(DbId(0)));
                } else if x == 1 && room {
                    let free: Vec<&&str> = NAMES.iter().filter(|n| !view.aliases.iter().any(|(a, _)| a == **n)
                        && !ids.iter().any(|q| matches!(q, QueryId::Alias(a) if a == **n))).collect();
                    if let Some(n) = free.first() { ids.push(QueryId::Alias(n.to_string())); } else { ids.push(self.qid(&all, view, 0)); }
                } else if !all.is_empty() {
                    ids.push(self.qid(&all, view, 5));
                }
            }
            if ids.is_empty() { return None; }
            // duplicates only when no element is created by this query (id 0 / an alias not in use create nodes)
            self.allow_dup = self.dup_ok(&ids, view);
            let values = self.values_for(ids.len());
            self.allow_dup = false;
            return Some(MQ::InsertValues(InsertValuesQuery { ids: QueryIds::Ids(ids), values }));
        }
        if pick(p.w_index) {
            let k = self.key();
            return Some(if self.rng.chance(6, 10) { MQ::InsertIndex(InsertIndexQuery(k)) } else { MQ::RemoveIndex(RemoveIndexQuery(k)) });
        }
        if pick(p.w_remove) {
            let all = view.all();
            if all.is_empty() { return None; }
            let c = self.rng.range(1, 3) as usize;
            let ids: Vec<QueryId> = (0..c).map(|_| self.qid(&all, view, 12)).collect();
            return Some(MQ::Remove(RemoveQuery(QueryIds::Ids(ids))));
        }
        if pick(p.w_remove_aliases) {
            let c = self.rng.range(1, 2);
            return Some(MQ::RemoveAliases(RemoveAliasesQuery((0..c).map(|_| self.rng.pick(&NAMES).to_string()).collect())));
        }
        if pick(p.w_remove_values) {
            let all = view.all();
            if all.is_empty() { return None; }
            let c = self.rng.range(1, 2) as usize;
            let ids: Vec<QueryId> = (0..c).map(|_| self.qid(&all, view, 5)).collect();
            let keys = self.keys(1, 2);
            return Some(MQ::RemoveValues(RemoveValuesQuery(SelectValuesQuery { keys, ids: QueryIds::Ids(ids) })));
        }
        None
    }
}

pub struct Variants {
    pub dbs: Vec<(Kind, DbX, String)>,
}

fn path_for(work: &str, run: u64, kind: Kind, gen_no: u64) -> String {
    format!("{work}/r{run}_{}_{gen_no}.agdb", kind.name())
}

fn elems_res(r: &QueryResult) -> Value {
    Value::Array(r.elements.iter().map(|e| json!([e.id.0, kvs_enc(&e.values)])).collect())
}

/// one read query on all variants -> event
fn read_event(rng: &mut Rng, g_keys: &mut Vec<DbValue>, view: &View, vs: &Variants, p: &Profile) -> Value {
    let all = view.all();
    let mut mk_ids = |rng: &mut Rng, pool: &[i64], n: u64| -> Vec<QueryId> {
        (0..rng.range(1, n)).map(|_| {
            if pool.is_empty() || rng.chance(1, 10) { return QueryId::Id(DbId(77)); }
            let id = *rng.pick(pool);
            if id > 0 && rng.chance(3, 10) {
                if let Some((a, _)) = view.aliases.iter().find(|(_, i)| *i == id) { return QueryId::Alias(a.clone()); }
            }
            QueryId::Id(DbId(id))
        }).collect()
    };
    let mut key = |rng: &mut Rng| -> DbValue {
        if p.exotic_values && !g_keys.is_empty() && rng.chance(1, 2) { rng.pick(g_keys).clone() } else { DbValue::String(rng.pick(&KEYS).to_string()) }
    };
    type F = Box<dyn Fn(&DbX) -> Value>;
    let pair = |r: Result<QueryResult, DbError>, f: &dyn Fn(&QueryResult) -> Value| -> Value {
        match r { Ok(r) => json!({"ok": true, "res": f(&r)}), Err(_) => json!({"ok": false, "res": []}) }
    };
    let (head, run): (Value, F) = match rng.below(12) {
        0 | 1 => {
            let ids = mk_ids(rng, &all, 2);
            let mut keys: Vec<DbValue> = vec![];
            for _ in 0..rng.below(3) { let k = key(rng); if !keys.contains(&k) { keys.push(k); } }
            let head = json!({"ev": "SelectValues", "ids": qids_enc(&ids), "keys": keys.iter().map(venc).collect::<Vec<_>>()});
            (head, Box::new(move |db| pair(exec_read(db, SelectValuesQuery { keys: keys.clone(), ids: QueryIds::Ids(ids.clone()) }), &elems_res)))
        }
        2 => {
            let ids = mk_ids(rng, &all, 2);
            let head = json!({"ev": "SelectKeys", "ids": qids_enc(&ids)});
            (head, Box::new(move |db| pair(exec_read(db, SelectKeysQuery(QueryIds::Ids(ids.clone()))),
                &|r| Value::Array(r.elements.iter().map(|e| json!([e.id.0, e.values.iter().map(|kv| venc(&kv.key)).collect::<Vec<_>>()])).collect()))))
        }
        3 => {
            let ids = mk_ids(rng, &all, 2);
            let head = json!({"ev": "SelectKeyCount", "ids": qids_enc(&ids)});
            (head, Box::new(move |db| pair(exec_read(db, SelectKeyCountQuery(QueryIds::Ids(ids.clone()))),
                &|r| Value::Array(r.elements.iter().map(|e| json!([e.id.0, e.values[0].value.to_u64().unwrap_or(u64::MAX)])).collect()))))
        }
        4 => {
            let ids = mk_ids(rng, &view.nodes, 2);
            let head = json!({"ev": "SelectAliases", "ids": qids_enc(&ids)});
            (head, Box::new(move |db| pair(exec_read(db, SelectAliasesQuery(QueryIds::Ids(ids.clone()))),
                &|r| Value::Array(r.elements.iter().map(|e| json!([e.id.0, e.values[0].value.to_string()])).collect()))))
        }
        5 => {
            let head = json!({"ev": "SelectAllAliases"});
            (head, Box::new(move |db| pair(exec_read(db, SelectAllAliasesQuery {}),
                &|r| Value::Array(r.elements.iter().map(|e| json!([e.values[0].value.to_string(), e.id.0])).collect()))))
        }
        6 => {
            let ids = mk_ids(rng, &all, 2);
            let (from, to, dir) = *rng.pick(&[(true, true, "both"), (true, false, "from"), (false, true, "to")]);
            let head = json!({"ev": "SelectEdgeCount", "ids": qids_enc(&ids), "dir": dir});
            (head, Box::new(move |db| pair(exec_read(db, SelectEdgeCountQuery { ids: QueryIds::Ids(ids.clone()), from, to }),
                &|r| Value::Array(r.elements.iter().map(|e| json!([e.id.0, e.values[0].value.to_u64().unwrap_or(u64::MAX)])).collect()))))
        }
        7 => {
            let head = json!({"ev": "SelectNodeCount"});
            (head, Box::new(move |db| match exec_read(db, SelectNodeCountQuery {}) { Ok(r) => json!({"ok": true, "res": r.result}), Err(_) => json!({"ok": false, "res": 0}) }))
        }
        8 => {
            let head = json!({"ev": "SelectIndexes"});
            (head, Box::new(move |db| pair(exec_read(db, SelectIndexesQuery {}),
                &|r| Value::Array(r.elements[0].values.iter().map(|kv| json!([venc(&kv.key), kv.value.to_u64().unwrap_or(u64::MAX)])).collect()))))
        }
        9 => {
            let k = key(rng);
            let v = if rng.chance(7, 10) { DbValue::I64(rng.below(3) as i64) } else { DbValue::String(rng.pick(&["x", "y"]).to_string()) };
            let head = json!({"ev": "SearchIndex", "key": venc(&k), "value": venc(&v)});
            (head, Box::new(move |db| pair(exec_read(db, QueryBuilder::search().index(k.clone()).value(v.clone()).query()), &|r| json!(ids_of(r)))))
        }
        10 => {
            let head = json!({"ev": "Elements"});
            (head, Box::new(move |db| pair(exec_read(db, QueryBuilder::search().elements().query()), &|r| json!(ids_of(r)))))
        }
        _ => {
            let ids = mk_ids(rng, &all, 3);
            let head = json!({"ev": "SelectIds", "ids": qids_enc(&ids)});
            (head, Box::new(move |db| pair(exec_read(db, SelectValuesQuery { keys: vec![], ids: QueryIds::Ids(ids.clone()) }),
                &|r| Value::Array(r.elements.iter().map(|e| json!([e.id.0, e.from.0, e.to.0])).collect()))))
        }
    };
    let mut outs: Vec<Value> = vec![];
    for (_, db, _) in &vs.dbs {
        outs.push(match guarded(|| run(db)) { Ok(v) => v, Err(p) => json!({"ok": false, "res": [], "panic": p}) });
    }
    let first = outs.remove(0);
    if first.get("panic").is_some() {
        return json!({"ev": "Panic", "query": head, "msg": first["panic"]});
    }
    merge(merge(head, first), json!({"others": outs}))
}

/// the Observe event of a single database (no other variants)
pub fn observe_all_pub(db: &DbX) -> Value {
    match guarded(|| observe(db)) {
        Ok(Ok(o)) => { let d = digest(&o); merge(o, json!({"digest": d, "others": []})) }
        Ok(Err(e)) => json!({"ev": "ObserveFailed", "err": e}),
        Err(p) => json!({"ev": "Panic", "query": "observe", "msg": p}),
    }
}

pub fn observe_variants(dbs: &[(Kind, DbX, String)]) -> Value {
    let mut it = dbs.iter();
    let (_, first, _) = it.next().unwrap();
    let o = match guarded(|| observe(first)) {
        Ok(Ok(o)) => o,
        Ok(Err(e)) => return json!({"ev": "ObserveFailed", "err": e}),
        Err(p) => return json!({"ev": "Panic", "query": "observe", "msg": p}),
    };
    let d = digest(&o);
    let mut others = vec![];
    for (k, db, _) in it {
        others.push(match guarded(|| observe(db)) {
            Ok(Ok(x)) => digest(&x),
            Ok(Err(e)) => format!("{}: {e}", k.name()),
            Err(p) => format!("{}: panic {p}", k.name()),
        });
    }
    merge(o, json!({"digest": d, "others": others}))
}

fn observe_all(vs: &Variants) -> Value {
    observe_variants(&vs.dbs)
}

/// Everything a reader can see INCLUDING result order: the dump (its lists are in the order the queries return them:
/// elements, properties per element, adjacency, the alias listing, the index listing) plus, for every indexed key and every
/// value stored under it, the ids of the index search in the order returned. C05 demands that a maintenance operation
/// changes none of it.
fn order_fingerprint(db: &DbX) -> String {
    let o = match guarded(|| observe(db)) { Ok(Ok(o)) => o, Ok(Err(e)) => return format!("observe failed: {e}"), Err(p) => return format!("panic: {p}") };
    let mut searches: Vec<Value> = vec![];
    let r = guarded(|| -> Result<(), DbError> {
        let ix = exec_read(db, QueryBuilder::select().indexes().query())?;
        let keys: Vec<DbValue> = ix.elements[0].values.iter().map(|kv| kv.key.clone()).collect();
        let all = exec_read(db, QueryBuilder::search().elements().query())?.ids();
        let els = exec_read(db, QueryBuilder::select().ids(all).query())?;
        for k in keys {
            let mut seen: Vec<DbValue> = vec![];
            for e in &els.elements {
                for kv in &e.values {
                    if kv.key == k && !seen.contains(&kv.value) {
                        seen.push(kv.value.clone());
                        let ids = exec_read(db, QueryBuilder::search().index(k.clone()).value(kv.value.clone()).query())?;
                        searches.push(json!([venc(&k), venc(&kv.value), ids_of(&ids)]));
                    }
                }
            }
        }
        Ok(())
    });
    if !matches!(r, Ok(Ok(()))) { searches.push(json!("index search failed")); }
    digest(&json!([o, searches]))
}

fn maintain(rng: &mut Rng, vs: &mut Variants, work: &str, run: u64, gen_no: &mut u64) -> Value {
    // one maintenance operation applied to every variant that supports it
    let op = *rng.pick(&["reopen", "optimize", "shrink", "backup_restore", "copy", "rename", "switch"]);
    let mut ok = true;
    let mut errs: Vec<String> = vec![];
    *gen_no += 1;
    let before: Vec<String> = vs.dbs.iter().map(|(_, db, _)| order_fingerprint(db)).collect();
    for (kind, db, path) in vs.dbs.iter_mut() {
        let new_path = path_for(work, run, *kind, *gen_no);
        let r: Result<Result<(), DbError>, String> = guarded(|| -> Result<(), DbError> {
            match op {
                "optimize" => with_db!(db, d => d.optimize_storage()),
                "shrink" => with_db!(db, d => d.shrink_to_fit()),
                "reopen" => {
                    if kind.file_backed() {
                        // close, then open the same file again
                        let old = std::mem::replace(db, open(Kind::Memory, "swap")?);
                        drop(old);
                        *db = open(*kind, path)?;
                    } else {
                        // in-memory variants persist only through a backup file
                        with_db!(db, d => d.backup(&new_path))?;
                        *db = open(*kind, &new_path)?;
                        *path = new_path.clone();
                    }
                    Ok(())
                }
                "backup_restore" => {
                    with_db!(db, d => d.backup(&new_path))?;
                    let old = std::mem::replace(db, open(Kind::Memory, "swap")?);
                    drop(old);
                    if kind.file_backed() { remove_files(path); }
                    *db = open(*kind, &new_path)?;
                    *path = new_path.clone();
                    Ok(())
                }
                "copy" => {
                    let copy = match db {
                        DbX::Mem(d) => DbX::Mem(d.copy(&new_path)?),
                        DbX::File(d) => DbX::File(d.copy(&new_path)?),
                        DbX::Map(d) => DbX::Map(d.copy(&new_path)?),
                        DbX::Any(d) => DbX::Any(d.copy(&new_path)?),
                        DbX::Faulty(d) => DbX::Faulty(d.copy(&new_path)?),
                    };
                    let old = std::mem::replace(db, copy);
                    drop(old);
                    if kind.file_backed() { remove_files(path); }
                    *path = new_path.clone();
                    Ok(())
                }
                "rename" => {
                    with_db!(db, d => d.rename(&new_path))?;
                    *path = new_path.clone();
                    Ok(())
                }
                _ => {
                    // reopen the file with the OTHER file-backed variant
                    if kind.file_backed() {
                        let other = match kind { Kind::File => Kind::Mapped, Kind::Mapped => Kind::File, Kind::AnyFile => Kind::AnyMapped, _ => Kind::AnyFile };
                        let old = std::mem::replace(db, open(Kind::Memory, "swap")?);
                        drop(old);
                        *db = open(other, path)?;
                        *kind = other;
                    }
                    Ok(())
                }
            }
        });
        match r {
            Ok(Ok(())) => {}
            Ok(Err(e)) => { ok = false; errs.push(format!("{}: {}", kind.name(), e.description)); }
            Err(p) => { ok = false; errs.push(format!("{}: panic {p}", kind.name())); }
        }
    }
    // every query returns exactly the same result as before, result order included
    let after: Vec<String> = vs.dbs.iter().map(|(_, db, _)| order_fingerprint(db)).collect();
    let changed: Vec<&str> = vs.dbs.iter().enumerate().filter(|(i, _)| before[*i] != after[*i]).map(|(_, (k, _, _))| k.name()).collect();
    json!({"ev": "Maintain", "op": op, "ok": ok, "errs": errs, "order_same": changed.is_empty(), "order_changed_on": changed})
}

pub fn run(args: &Args) {
    let seed = args.num("seed", 1);
    let first = args.num("first", 0);
    let runs = args.num("programs", 10);
    let ops = args.num("ops", 40);
    let work = args.str("work", "/verif/harness/target/scratch/vdb");
    let out = args.str("out", &format!("{work}/db_trace.ndjson"));
    let profile = Profile::named(&args.str("profile", "mixed"));
    std::fs::create_dir_all(&work).unwrap();
    std::panic::set_hook(Box::new(|_| {}));
    let mut trace = Trace::create(&out);
    let wd = vcore::Watchdog::start(20, &out);
    let (mut n_mut, mut n_ok, mut n_fail, mut n_tx, mut n_tx_rb, mut n_reads, mut n_maint, mut n_obs) = (0u64, 0u64, 0u64, 0u64, 0u64, 0u64, 0u64, 0u64);
    let mut distinct = std::collections::HashSet::new();
    let mut aborted_runs = 0u64;
    let (mut n_search, mut n_search_nontrivial) = (0u64, 0u64);
    for run in first..first + runs {
        let mut rng = Rng::new(seed.wrapping_mul(1_000_003).wrapping_add(run).wrapping_add(vcore::fnv(profile.name.as_bytes())));
        let mut gen_no = 0u64;
        let mut vs = Variants { dbs: vec![] };
        for k in &profile.variants {
            let path = path_for(&work, run, *k, 0);
            remove_files(&path);
            vs.dbs.push((*k, open(*k, &path).expect("open"), path));
        }
        trace.emit(json!({"ev": "Reset", "profile": profile.name, "run": run,
                          "variants": profile.variants.iter().map(|k| k.name()).collect::<Vec<_>>()}));
        let mut obs = observe_all(&vs);
        trace.emit(obs.clone());
        let mut keys_pool: Vec<DbValue> = vec![];
        let total_w = profile.w_tx + profile.w_maintain + 100;
        let mut step = 0;
        'steps: while step < ops {
            step += 1;
            for note in ALTERED.with(|a| std::mem::take(&mut *a.borrow_mut())) { trace.emit(note); }
            trace.flush();
            wd.kick(&format!("run {run} step {step}"));
            if obs["ev"] != "Observe" {
                aborted_runs += 1;
                break;
            }
            let view = View::from_obs(&obs);
            let x = rng.below(total_w);
            let mut mutated = true;
            if x < profile.w_tx {
                // a transaction of 1..4 queries; ~45% are aborted by the closure itself
                let n = rng.range(1, 4) as usize;
                let mut qs: Vec<MQ> = vec![];
                {
                    let mut g = Gen { rng: &mut rng, p: &profile, keys_pool: std::mem::take(&mut keys_pool), allow_dup: false, in_tx: true };
                    let mut tries = 0;
                    while qs.len() < n && tries < 20 {
                        tries += 1;
                        // sub-queries are generated against the state BEFORE the transaction; that makes some of
                        // them fail inside it (e.g. using an id removed earlier in the transaction) - intended
                        if let Some(q) = g.mutation(&view) { qs.push(q); }
                    }
                    keys_pool = g.keys_pool;
                }
                if qs.is_empty() { continue; }
                let abort = if rng.chance(45, 100) { Some(rng.range(1, qs.len() as u64) as usize) } else { None };
                let mut outs: Vec<(Vec<Result<QueryResult, DbError>>, bool)> = vec![];
                for (_, db, _) in vs.dbs.iter_mut() {
                    match guarded(|| exec_tx(db, &qs, abort)) {
                        Ok(o) => outs.push(o),
                        Err(p) => { trace.emit(json!({"ev": "Panic", "query": "tx", "msg": p})); aborted_runs += 1; break 'steps; }
                    }
                }
                let enc = |o: &(Vec<Result<QueryResult, DbError>>, bool)| -> (Vec<Value>, bool) {
                    (o.0.iter().enumerate().map(|(i, r)| merge(qs[i].event(), qs[i].outcome(r))).collect(), o.1)
                };
                let (subs, committed) = enc(&outs[0]);
                let others: Vec<Value> = outs[1..].iter().map(|o| { let (s, c) = enc(o); json!({"ok": c, "res": s}) }).collect();
                n_tx += 1;
                if !committed { n_tx_rb += 1; }
                trace.emit(json!({"ev": "Tx", "queries": subs.clone(), "ok": committed, "res": subs, "abort": abort.unwrap_or(0), "others": others}));
            } else if x < profile.w_tx + profile.w_maintain {
                let ev = maintain(&mut rng, &mut vs, &work, run, &mut gen_no);
                n_maint += 1;
                trace.emit(ev);
            } else {
                let q = {
                    let mut g = Gen { rng: &mut rng, p: &profile, keys_pool: std::mem::take(&mut keys_pool), allow_dup: false, in_tx: false };
                    let q = g.mutation(&view);
                    keys_pool = g.keys_pool;
                    q
                };
                let Some(q) = q else { step -= 1; mutated = false; if rng.chance(1, 50) { step += 1; } continue; };
                let mut outs: Vec<Value> = vec![];
                for (_, db, _) in vs.dbs.iter_mut() {
                    match guarded(|| exec_mq(db, &q)) {
                        Ok(r) => outs.push(q.outcome(&r)),
                        Err(p) => { trace.emit(json!({"ev": "Panic", "query": q.event(), "msg": p})); aborted_runs += 1; break 'steps; }
                    }
                }
                let firsto = outs.remove(0);
                n_mut += 1;
                if firsto["ok"] == true { n_ok += 1; } else { n_fail += 1; }
                let others: Vec<Value> = outs.iter().map(|o| json!({"ok": o["ok"], "res": o["res"]})).collect();
                let ev = merge(merge(q.event(), firsto), json!({"others": others}));
                distinct.insert(vcore::fnv(serde_json::to_string(&ev).unwrap().as_bytes()));
                trace.emit(ev);
            }
            if mutated {
                obs = observe_all(&vs);
                n_obs += 1;
                trace.emit(obs.clone());
                if obs["ev"] != "Observe" { aborted_runs += 1; break; }
                let view = View::from_obs(&obs);
                for _ in 0..profile.reads_per_step {
                    let ev = read_event(&mut rng, &mut keys_pool, &view, &vs, &profile);
                    n_reads += 1;
                    trace.emit(ev);
                }
                for _ in 0..profile.searches_per_step {
                    let sv = SearchView { nodes: &view.nodes, edges: &view.edges, aliases: &view.aliases };
                    let dbs: Vec<&DbX> = vs.dbs.iter().map(|(_, d, _)| d).collect();
                    let keys: Vec<DbValue> = KEYS.iter().map(|k| DbValue::String(k.to_string())).collect();
                    let ev = search_event(&mut rng, &sv, &dbs, &keys, profile.focus, profile.cross_type);
                    n_reads += 1;
                    n_search += 1;
                    if ev["ev"] == "Search" && ev["base"].as_array().map(|a| a.len() > 1).unwrap_or(false) { n_search_nontrivial += 1; }
                    trace.emit(ev);
                }
            }
        }
        for (k, db, path) in vs.dbs.drain(..) {
            drop(db);
            if k.file_backed() { remove_files(&path); } else { let _ = std::fs::remove_file(&path); }
        }
        for g in 0..=gen_no { for k in Kind::all() { remove_files(&path_for(&work, run, k, g)); } }
    }
    trace.flush();
    println!("{}", serde_json::to_string(&json!({
        "profile": profile.name, "first": first, "programs": runs, "mutations": n_mut, "mutations_ok": n_ok, "mutations_failed": n_fail,
        "transactions": n_tx, "transactions_rolled_back": n_tx_rb, "reads": n_reads, "maintenance_ops": n_maint, "observations": n_obs,
        "distinct_mutation_events": distinct.len(), "aborted_runs": aborted_runs, "trace_events": trace.events,
        "variants": profile.variants.len(), "searches": n_search, "searches_nontrivial": n_search_nontrivial,
    })).unwrap());
}
