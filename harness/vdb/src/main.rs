mod codec;
mod conc;
mod crash;
mod dbx;
mod enc;
mod fault;
mod hist;
mod mbt;
mod search;
mod types;
use vcore::Args;

fn main() {
    let args = Args::from_env();
    match args.cmd().as_str() {
        "hist" => hist::run(&args),
        "crash" => crash::run(&args),
        "conc" => conc::run(&args),
        "codec" => codec::run(&args),
        "types" => types::run(&args),
        "pathfam" => search::path_family(&args),
        "fault" => fault::run(&args),
        "mbt" => mbt::run(&args),
        other => {
            eprintln!("unknown subcommand {other:?}");
            std::process::exit(2);
        }
    }
}
