//! Spec -> implementation direction for the database engine: histories printed by TLC (MCDbExport.tla: one
//! history per transition of the bounded DbModel) are executed on the real database; the run is recorded in the
//! usual DbTrace form (Reset, the queries with the real outcomes, Observe) and decided by DbTrace.
//! The last step of every history is executed on all requested variants in lock-step; every `reopen-every`-th
//! history closes and reopens the file-backed variants before the final Observe.
use crate::dbx::*;
use crate::hist::observe_variants;
use crate::search::finish_search;
use crate::enc::qid_enc;
use agdb::*;
use serde_json::{Value, json};
use vcore::{Args, Trace};

fn qid(v: &Value) -> QueryId {
    match v[0].as_str() {
        Some("i") => QueryId::Id(DbId(v[1].as_i64().unwrap())),
        _ => QueryId::Alias(v[1].as_str().unwrap().to_string()),
    }
}
fn qids(v: &Value) -> QueryIds {
    QueryIds::Ids(v.as_array().map(|a| a.iter().map(qid).collect()).unwrap_or_default())
}
fn val(v: &Value) -> DbValue {
    match v {
        Value::String(s) => DbValue::String(s.clone()),
        Value::Number(n) => DbValue::I64(n.as_i64().unwrap()),
        other => panic!("unsupported model value {other}"),
    }
}
fn pairs(v: &Value) -> Vec<DbKeyValue> {
    v.as_array().unwrap().iter().map(|p| DbKeyValue { key: val(&p[0]), value: val(&p[1]) }).collect()
}
fn values(v: &Value) -> QueryValues {
    QueryValues::Multi(v.as_array().unwrap().iter().map(pairs).collect())
}
fn strings(v: &Value) -> Vec<String> {
    v.as_array().map(|a| a.iter().map(|s| s.as_str().unwrap().to_string()).collect()).unwrap_or_default()
}

/// the query a model event stands for
pub fn parse(e: &Value) -> MQ {
    match e["ev"].as_str().unwrap() {
        "InsertNodes" => {
            let aliases = strings(&e["aliases"]);
            let n = std::cmp::max(1, aliases.len()) as u64;
            MQ::InsertNodes(InsertNodesQuery { count: if aliases.is_empty() { n } else { 0 }, values: values(&e["values"]), aliases, ids: QueryIds::Ids(vec![]) })
        }
        "UpdateNodes" => MQ::InsertNodes(InsertNodesQuery { count: 0, values: values(&e["values"]), aliases: strings(&e["aliases"]), ids: qids(&e["ids"]) }),
        "InsertEdges" => MQ::InsertEdges(InsertEdgesQuery { from: qids(&e["from"]), to: qids(&e["to"]), ids: QueryIds::Ids(vec![]),
                                                           values: values(&e["values"]), each: e["each"].as_bool().unwrap_or(false) }),
        "UpdateEdges" => MQ::InsertEdges(InsertEdgesQuery { from: QueryIds::Ids(vec![]), to: QueryIds::Ids(vec![]), ids: qids(&e["ids"]),
                                                           values: values(&e["values"]), each: false }),
        "InsertAliases" => MQ::InsertAliases(InsertAliasesQuery { ids: qids(&e["ids"]), aliases: strings(&e["aliases"]) }),
        "InsertValues" => MQ::InsertValues(InsertValuesQuery { ids: qids(&e["ids"]), values: values(&e["values"]) }),
        "InsertIndex" => MQ::InsertIndex(InsertIndexQuery(val(&e["key"]))),
        "RemoveIndex" => MQ::RemoveIndex(RemoveIndexQuery(val(&e["key"]))),
        "Remove" => MQ::Remove(RemoveQuery(qids(&e["ids"]))),
        "RemoveAliases" => MQ::RemoveAliases(RemoveAliasesQuery(strings(&e["aliases"]))),
        "RemoveValues" => MQ::RemoveValues(RemoveValuesQuery(SelectValuesQuery {
            keys: e["keys"].as_array().unwrap().iter().map(val).collect(), ids: qids(&e["ids"]) })),
        other => panic!("unknown model event {other}"),
    }
}

enum Step { One(MQ), Tx(Vec<MQ>, Option<usize>) }

pub fn run(args: &Args) {
    let input = args.str("in", "");
    let work = args.str("work", "/verif/harness/target/scratch/vdb_mbt");
    let out = args.str("out", &format!("{work}/mbt_trace.ndjson"));
    let first = args.num("first", 0);
    let reopen_every = args.num("reopen-every", 5);
    let file_every = args.num("file-every", 1);
    let searches = args.num("searches", 0) == 1;
    let tx = args.num("tx", 0) == 1;
    let (mut n_tx, mut n_tx_rb) = (0u64, 0u64);
    let (mut n_search, mut n_search_nt) = (0u64, 0u64);
    let kinds_all: Vec<Kind> = args.str("variants", "memory").split(',').map(|n| Kind::all().into_iter().find(|k| k.name() == n).expect("variant")).collect();
    std::fs::create_dir_all(&work).unwrap();
    std::panic::set_hook(Box::new(|_| {}));
    let mut trace = Trace::create(&out);
    let wd = vcore::Watchdog::start(20, &out);
    let text = std::fs::read_to_string(&input).expect("input");
    let (mut n_hist, mut n_steps, mut n_ok, mut n_fail, mut n_reopen, mut aborted) = (0u64, 0u64, 0u64, 0u64, 0u64, 0u64);
    let mut distinct = std::collections::HashSet::new();
    for (i, line) in text.lines().enumerate() {
        if line.trim().is_empty() { continue; }
        let run = first + i as u64;
        let events: Vec<Value> = serde_json::from_str(line).expect("history");
        let qs: Vec<MQ> = events.iter().map(parse).collect();
        // the plans derived from one TLC history: as printed; and (--tx 1) with its last query / last two queries inside
        // a transaction that the closure aborts, and the last two inside a transaction that commits
        let n = qs.len();
        let mut plans: Vec<(&str, Vec<Step>)> = vec![("plain", qs.iter().map(|q| Step::One(q.clone())).collect())];
        if tx && n >= 1 {
            let mut p: Vec<Step> = qs[..n - 1].iter().map(|q| Step::One(q.clone())).collect();
            p.push(Step::Tx(vec![qs[n - 1].clone()], Some(1)));
            plans.push(("tx1-abort", p));
        }
        if tx && n >= 2 {
            for (name, abort) in [("tx2-abort", Some(2)), ("tx2-commit", None)] {
                let mut p: Vec<Step> = qs[..n - 2].iter().map(|q| Step::One(q.clone())).collect();
                p.push(Step::Tx(vec![qs[n - 2].clone(), qs[n - 1].clone()], abort));
                plans.push((name, p));
            }
        }
      for (plan_name, plan) in plans {
        let mut dbs: Vec<(Kind, DbX, String)> = vec![];
        // all requested variants in lock-step on every `file_every`-th history, the first variant alone otherwise
        let kinds: Vec<Kind> = if run % file_every == 0 { kinds_all.clone() } else { vec![kinds_all[0]] };
        for k in &kinds {
            let path = format!("{work}/mbt_{run}_{}.agdb", k.name());
            remove_files(&path);
            dbs.push((*k, open(*k, &path).expect("open"), path));
        }
        n_hist += 1;
        wd.kick(&format!("history {run} {plan_name}"));
        trace.emit(json!({"ev": "Reset", "profile": "mbt", "run": run, "plan": plan_name, "variants": kinds.iter().map(|k| k.name()).collect::<Vec<_>>()}));
        let mut dead = false;
        for step in &plan {
            match step {
                Step::One(q) => {
                    let mut outs: Vec<Value> = vec![];
                    for (_, db, _) in dbs.iter_mut() {
                        match guarded(|| exec_mq(db, q)) {
                            Ok(r) => outs.push(q.outcome(&r)),
                            Err(p) => { trace.emit(json!({"ev": "Panic", "query": q.event(), "msg": p})); dead = true; break; }
                        }
                    }
                    if dead { break; }
                    let firsto = outs.remove(0);
                    n_steps += 1;
                    if firsto["ok"] == true { n_ok += 1; } else { n_fail += 1; }
                    let others: Vec<Value> = outs.iter().map(|o| json!({"ok": o["ok"], "res": o["res"]})).collect();
                    let ev = merge(merge(q.event(), firsto), json!({"others": others}));
                    distinct.insert(vcore::fnv(serde_json::to_string(&ev).unwrap().as_bytes()));
                    trace.emit(ev);
                }
                Step::Tx(tqs, abort) => {
                    let mut outs: Vec<(Vec<Result<QueryResult, DbError>>, bool)> = vec![];
                    for (_, db, _) in dbs.iter_mut() {
                        match guarded(|| exec_tx(db, tqs, *abort)) {
                            Ok(o) => outs.push(o),
                            Err(p) => { trace.emit(json!({"ev": "Panic", "query": "tx", "msg": p})); dead = true; break; }
                        }
                    }
                    if dead { break; }
                    let enc = |o: &(Vec<Result<QueryResult, DbError>>, bool)| -> (Vec<Value>, bool) {
                        (o.0.iter().enumerate().map(|(i, r)| merge(tqs[i].event(), tqs[i].outcome(r))).collect(), o.1)
                    };
                    let (subs, committed) = enc(&outs[0]);
                    let others: Vec<Value> = outs[1..].iter().map(|o| { let (s, c) = enc(o); json!({"ok": c, "res": s}) }).collect();
                    n_tx += 1;
                    if !committed { n_tx_rb += 1; }
                    n_steps += subs.len() as u64;
                    trace.emit(json!({"ev": "Tx", "queries": subs.clone(), "ok": committed, "res": subs, "abort": abort.unwrap_or(0), "others": others}));
                }
            }
        }
        if dead { aborted += 1; }
        if !dead {
            if reopen_every > 0 && run % reopen_every == 0 {
                // close and reopen the file-backed variants: the state reached must be the state persisted
                let mut again = vec![];
                for (k, db, path) in dbs.drain(..) {
                    if k.file_backed() {
                        drop(db);
                        match guarded(|| open(k, &path)) {
                            Ok(Ok(d)) => again.push((k, d, path)),
                            Ok(Err(e)) => { trace.emit(json!({"ev": "ReopenFailed", "variant": k.name(), "err": e.description})); dead = true; }
                            Err(p) => { trace.emit(json!({"ev": "Panic", "query": "reopen", "msg": p})); dead = true; }
                        }
                    } else {
                        again.push((k, db, path));
                    }
                }
                dbs = again;
                n_reopen += 1;
            }
            if !dead && !dbs.is_empty() {
                let obs = observe_variants(&dbs);
                trace.emit(obs.clone());
                if searches && obs["ev"] == "Observe" {
                    // the whole family: every element (and one missing id) as origin, forward and reverse,
                    // breadth and depth first, plus the elements search
                    let mut all: Vec<i64> = obs["nodes"].as_array().unwrap().iter().map(|x| x.as_i64().unwrap()).collect();
                    all.extend(obs["edges"].as_array().unwrap().iter().map(|e| e[0].as_i64().unwrap()));
                    all.push(77);
                    let refs: Vec<&DbX> = dbs.iter().map(|(_, d, _)| d).collect();
                    let blank = || SearchQuery { algorithm: SearchQueryAlgorithm::BreadthFirst, origin: QueryId::Id(DbId(0)), destination: QueryId::Id(DbId(0)),
                                                 limit: 0, offset: 0, order_by: vec![], conditions: vec![] };
                    for id in &all {
                        for (alg, name) in [(SearchQueryAlgorithm::BreadthFirst, "bfs"), (SearchQueryAlgorithm::DepthFirst, "dfs")] {
                            for fwd in [true, false] {
                                let mut q = blank();
                                q.algorithm = alg;
                                let o = QueryId::Id(DbId(*id));
                                let oj = qid_enc(&o);
                                if fwd { q.origin = o; } else { q.destination = o; }
                                let head = json!({"ev": "Search", "alg": name, "dir": if fwd { "fwd" } else { "rev" }, "origin": oj, "dest": ["i", 0],
                                                  "conds": [], "limit": 0, "offset": 0, "order": []});
                                let ev = finish_search(head, &q, &refs);
                                if ev["base"].as_array().map(|a| a.len() > 1).unwrap_or(false) { n_search_nt += 1; }
                                trace.emit(ev);
                                n_search += 1;
                            }
                        }
                    }
                    let mut q = blank();
                    q.algorithm = SearchQueryAlgorithm::Elements;
                    let head = json!({"ev": "Search", "alg": "elements", "dir": "fwd", "origin": ["i", 0], "dest": ["i", 0],
                                      "conds": [], "limit": 0, "offset": 0, "order": []});
                    trace.emit(finish_search(head, &q, &refs));
                    n_search += 1;
                }
            } else { aborted += 1; }
        }
        for (k, db, path) in dbs.drain(..) {
            drop(db);
            if k.file_backed() { remove_files(&path); } else { let _ = std::fs::remove_file(&path); }
        }
        for k in &kinds { remove_files(&format!("{work}/mbt_{run}_{}.agdb", k.name())); }
      }
    }
    trace.flush();
    println!("{}", serde_json::to_string(&json!({
        "histories": n_hist, "steps": n_steps, "steps_ok": n_ok, "steps_failed": n_fail, "reopened": n_reopen,
        "aborted_runs": aborted, "transactions": n_tx, "transactions_rolled_back": n_tx_rb, "searches": n_search, "searches_nontrivial": n_search_nt, "distinct_step_events": distinct.len(), "trace_events": trace.events, "variants": kinds_all.len(),
    })).unwrap());
}
