//! Search queries for the history driver: random origins, algorithms, directions, condition trees,
//! limit / offset / order-by. Each search is executed three times on every variant - without
//! slicing and ordering (`base`), with ordering only (`ordered`), and in full (`res`) - so that TLC
//! can decide each layer (traversal + conditions, stable sort, slice) separately.
use crate::dbx::*;
use crate::enc::*;
use agdb::*;
use serde_json::{Value, json};
use vcore::Rng;

pub const STRS: [&str; 9] = ["", "a", "ab", "abc", "b", "bc", "c", "x", "y"];

/// small typed values for property-bearing graphs that the search oracle can order
pub fn search_value(rng: &mut Rng, cross_type: bool) -> DbValue {
    match rng.below(if cross_type { 10 } else { 4 }) {
        0..=3 => DbValue::I64(rng.below(4) as i64 - 1),
        4 => DbValue::U64(rng.below(3)),
        5 => DbValue::F64(((rng.below(5) as f64) / 2.0 - 0.5).into()),
        6 | 7 => DbValue::String(rng.pick(&STRS).to_string()),
        _ => DbValue::VecI64((0..rng.below(3)).map(|_| rng.below(3) as i64).collect()),
    }
}

fn count_cmp(rng: &mut Rng, max: u64) -> (CountComparison, Value) {
    let n = rng.below(max + 1);
    match rng.below(6) {
        0 => (CountComparison::Equal(n), json!(["eq", n])),
        1 => (CountComparison::GreaterThan(n), json!(["gt", n])),
        2 => (CountComparison::GreaterThanOrEqual(n), json!(["ge", n])),
        3 => (CountComparison::LessThan(n), json!(["lt", n])),
        4 => (CountComparison::LessThanOrEqual(n), json!(["le", n])),
        _ => (CountComparison::NotEqual(n), json!(["ne", n])),
    }
}

fn value_cmp(rng: &mut Rng, v: DbValue) -> (Comparison, &'static str) {
    match rng.below(12) {
        0 | 1 => (Comparison::Equal(v), "eq"),
        2 => (Comparison::NotEqual(v), "ne"),
        3 => (Comparison::GreaterThan(v), "gt"),
        4 => (Comparison::GreaterThanOrEqual(v), "ge"),
        5 => (Comparison::LessThan(v), "lt"),
        6 => (Comparison::LessThanOrEqual(v), "le"),
        7 | 8 => (Comparison::Contains(v), "contains"),
        9 => (Comparison::StartsWith(v), "starts"),
        10 => (Comparison::EndsWith(v), "ends"),
        _ => (Comparison::Equal(v), "eq"),
    }
}

pub struct CondGen<'a> {
    pub rng: &'a mut Rng,
    pub all: Vec<i64>,
    pub aliases: Vec<(String, i64)>,
    pub keys: Vec<DbValue>,
    pub cross_type: bool,
    pub no_distance: bool,
}

impl CondGen<'_> {
    pub fn conds(&mut self, depth: u64) -> (Vec<QueryCondition>, Vec<Value>) {
        let n = self.rng.range(1, 3);
        let mut cs = vec![];
        let mut js = vec![];
        for _ in 0..n {
            let (c, j) = self.cond(depth);
            cs.push(c);
            js.push(j);
        }
        (cs, js)
    }

    fn cond(&mut self, depth: u64) -> (QueryCondition, Value) {
        let (logic, l) = if self.rng.chance(7, 10) { (QueryConditionLogic::And, "and") } else { (QueryConditionLogic::Or, "or") };
        let (modifier, m) = match self.rng.below(10) {
            0..=5 => (QueryConditionModifier::None, "none"),
            6 | 7 => (QueryConditionModifier::Not, "not"),
            8 => (QueryConditionModifier::Beyond, "beyond"),
            _ => (QueryConditionModifier::NotBeyond, "notbeyond"),
        };
        let pick = self.rng.below(if depth > 0 { 12 } else { 11 });
        let (data, d): (QueryConditionData, Value) = match pick {
            0 => (QueryConditionData::Node, json!({"t": "node"})),
            1 => (QueryConditionData::Edge, json!({"t": "edge"})),
            2 if !self.no_distance => {
                let (c, j) = count_cmp(self.rng, 4);
                (QueryConditionData::Distance(c), json!({"t": "dist", "c": j}))
            }
            3 => {
                let (c, j) = count_cmp(self.rng, 3);
                match self.rng.below(3) {
                    0 => (QueryConditionData::EdgeCount(c), json!({"t": "ec", "c": j})),
                    1 => (QueryConditionData::EdgeCountFrom(c), json!({"t": "ecf", "c": j})),
                    _ => (QueryConditionData::EdgeCountTo(c), json!({"t": "ect", "c": j})),
                }
            }
            4 => {
                let n = self.rng.range(1, 3);
                let mut ids: Vec<QueryId> = vec![];
                for _ in 0..n {
                    if self.all.is_empty() { break; }
                    let id = *self.rng.pick(&self.all);
                    if let Some((a, _)) = self.aliases.iter().find(|(_, i)| *i == id) {
                        if self.rng.chance(1, 3) { ids.push(QueryId::Alias(a.clone())); continue; }
                    }
                    ids.push(QueryId::Id(DbId(id)));
                }
                let j = qids_enc(&ids);
                (QueryConditionData::Ids(ids), json!({"t": "ids", "v": j}))
            }
            5 => {
                let n = self.rng.range(1, 2);
                let mut ks: Vec<DbValue> = vec![];
                for _ in 0..n { let k = self.rng.pick(&self.keys).clone(); if !ks.contains(&k) { ks.push(k); } }
                let j: Vec<Value> = ks.iter().map(venc).collect();
                (QueryConditionData::Keys(ks), json!({"t": "keys", "v": j}))
            }
            6..=10 | 2 => {
                let key = self.rng.pick(&self.keys).clone();
                let v = search_value(self.rng, self.cross_type);
                let vj = venc(&v);
                let (cmp, op) = value_cmp(self.rng, v);
                (QueryConditionData::KeyValue(KeyValueComparison { key: key.clone(), value: cmp }),
                 json!({"t": "kv", "k": venc(&key), "c": op, "v": vj}))
            }
            _ => {
                let (cs, js) = self.conds(depth - 1);
                (QueryConditionData::Where(cs), json!({"t": "where", "v": js}))
            }
        };
        (QueryCondition { logic, modifier, data }, json!({"l": l, "m": m, "d": d}))
    }
}

fn run3(db: &DbX, q: &SearchQuery) -> Value {
    let mut base = q.clone();
    base.limit = 0;
    base.offset = 0;
    base.order_by = vec![];
    let mut ordered = q.clone();
    ordered.limit = 0;
    ordered.offset = 0;
    let rb = exec_read(db, &base);
    let ro = exec_read(db, &ordered);
    let rf = exec_read(db, q);
    match (rb, ro, rf) {
        (Ok(b), Ok(o), Ok(f)) => json!({"ok": true, "res": ids_of(&f), "base": ids_of(&b), "ordered": ids_of(&o)}),
        (Err(_), Err(_), Err(_)) => json!({"ok": false, "res": [], "base": [], "ordered": []}),
        (b, o, f) => json!({"ok": "mixed", "res": [], "base": [], "ordered": [],
                            "detail": format!("base ok={} ordered ok={} full ok={}", b.is_ok(), o.is_ok(), f.is_ok())}),
    }
}

pub struct SearchView<'a> {
    pub nodes: &'a [i64],
    pub edges: &'a [i64],
    pub aliases: &'a [(String, i64)],
}

/// which layer a search exercises
#[derive(Clone, Copy, PartialEq)]
pub enum Focus {
    Traversal, // C14: no conditions
    Conditions, // C15
    Slicing,   // C16
    Path,      // C17
    PathCost,  // C17: path searches whose only condition passes on about half of the elements (cost 1 / 2 routes)
    Elements,  // C18
    Mixed,
}

pub fn search_event(rng: &mut Rng, view: &SearchView, dbs: &[&DbX], keys: &[DbValue], focus: Focus, cross_type: bool) -> Value {
    let mut all: Vec<i64> = view.nodes.to_vec();
    all.extend(view.edges);
    let focus = if focus == Focus::Mixed {
        *rng.pick(&[Focus::Traversal, Focus::Conditions, Focus::Slicing, Focus::Path, Focus::Elements])
    } else { focus };
    let mut q = SearchQuery {
        algorithm: SearchQueryAlgorithm::BreadthFirst,
        origin: QueryId::Id(DbId(0)),
        destination: QueryId::Id(DbId(0)),
        limit: 0,
        offset: 0,
        order_by: vec![],
        conditions: vec![],
    };
    let qid = |rng: &mut Rng, pool: &[i64]| -> QueryId {
        if pool.is_empty() || rng.chance(1, 25) { return QueryId::Id(DbId(77)); }
        let id = *rng.pick(pool);
        if let Some((a, _)) = view.aliases.iter().find(|(_, i)| *i == id) {
            if rng.chance(1, 4) { return QueryId::Alias(a.clone()); }
        }
        QueryId::Id(DbId(id))
    };
    let alg_pick = match focus {
        Focus::Path | Focus::PathCost => 3,
        Focus::Elements => 2,
        Focus::Slicing => rng.below(4),
        _ => rng.below(2),
    };
    let (alg, dir, origin_j, dest_j): (&str, &str, Value, Value) = match alg_pick {
        0 | 1 => {
            q.algorithm = if alg_pick == 0 { SearchQueryAlgorithm::BreadthFirst } else { SearchQueryAlgorithm::DepthFirst };
            let o = qid(rng, &all);
            let oj = qid_enc(&o);
            let fwd = rng.chance(1, 2);
            if fwd { q.origin = o; } else { q.destination = o; }
            (if alg_pick == 0 { "bfs" } else { "dfs" }, if fwd { "fwd" } else { "rev" }, oj, json!(["i", 0]))
        }
        2 => {
            q.algorithm = SearchQueryAlgorithm::Elements;
            ("elements", "fwd", json!(["i", 0]), json!(["i", 0]))
        }
        _ => {
            let pool: Vec<i64> = if rng.chance(1, 15) { all.clone() } else { view.nodes.to_vec() };
            let (a, b) = (qid(rng, &pool), qid(rng, &pool));
            let (aj, bj) = (qid_enc(&a), qid_enc(&b));
            q.origin = a;
            q.destination = b;
            ("path", "fwd", aj, bj)
        }
    };
    let mut conds_j: Vec<Value> = vec![];
    let want_conds = match focus { Focus::Traversal => false, Focus::Conditions => true, _ => rng.chance(1, 2) };
    if focus == Focus::PathCost && !keys.is_empty() {
        // one plain key == value condition: every element either passes (cost 1) or not (cost 2), none is unusable
        let key: DbValue = if rng.chance(4, 5) { "k".into() } else { rng.pick(keys).clone() };
        let v = DbValue::I64(rng.below(2) as i64);
        conds_j = vec![json!({"l": "and", "m": "none", "d": {"t": "kv", "k": venc(&key), "c": "eq", "v": venc(&v)}})];
        q.conditions = vec![QueryCondition { logic: QueryConditionLogic::And, modifier: QueryConditionModifier::None,
                                             data: QueryConditionData::KeyValue(KeyValueComparison { key, value: Comparison::Equal(v) }) }];
    } else if want_conds && !keys.is_empty() {
        let mut g = CondGen { rng, all: all.clone(), aliases: view.aliases.to_vec(), keys: keys.to_vec(), cross_type,
                              no_distance: alg == "path" || alg == "elements" };
        let (cs, js) = g.conds(2);
        q.conditions = cs;
        conds_j = js;
    }
    let mut order_j: Vec<Value> = vec![];
    if matches!(focus, Focus::Slicing) || (focus != Focus::Traversal && rng.chance(1, 5)) {
        let n = all.len() as u64;
        if rng.chance(2, 3) { q.limit = rng.below(n + 4); }
        if rng.chance(2, 3) { q.offset = rng.below(n + 4); }
        if !keys.is_empty() {
            for _ in 0..rng.below(4) {
                let k = rng.pick(keys).clone();
                let desc = rng.chance(1, 2);
                order_j.push(json!([venc(&k), desc]));
                q.order_by.push(if desc { DbKeyOrder::Desc(k) } else { DbKeyOrder::Asc(k) });
            }
        }
    }
    let head = json!({"ev": "Search", "alg": alg, "dir": dir, "origin": origin_j, "dest": dest_j, "conds": conds_j,
                      "limit": q.limit, "offset": q.offset, "order": order_j});
    finish_search(head, &q, dbs)
}

/// runs the query (plain / ordered / sliced layers) on every variant and completes the Search event
pub fn finish_search(head: Value, q: &SearchQuery, dbs: &[&DbX]) -> Value {
    let mut outs: Vec<Value> = vec![];
    for db in dbs {
        outs.push(match guarded(|| run3(db, q)) { Ok(v) => v, Err(p) => json!({"ok": "panic", "msg": p}) });
    }
    let first = outs.remove(0);
    if first["ok"] == "panic" {
        return json!({"ev": "Panic", "query": head, "msg": first["msg"]});
    }
    if first["ok"] == "mixed" {
        return json!({"ev": "InconsistentSearch", "query": head, "detail": first["detail"]});
    }
    let others: Vec<Value> = outs.iter().map(|o| json!({"ok": o["ok"], "res": o["res"]})).collect();
    merge(merge(head, first), json!({"others": others}))
}

/// C17, bounded-exhaustive: the family of graphs with TWO parallel routes from node 1 to node 2, of a and b edges
/// (1 <= a, b <= max_edges), every interior element (edges and intermediate nodes) labelled k = 0 or 1 in ALL
/// combinations, searched with the condition k == 1: the cheaper route is not always the shorter one.
/// Each case is one run of the trace: Reset, Observe, InsertNodes, InsertEdges ..., Search - decided by DbSearch!PathOk.
pub fn path_family(args: &vcore::Args) {
    use crate::hist::observe_all_pub;
    let max_edges = args.num("max-edges", 3) as usize;
    let out = args.str("out", "/verif/harness/target/scratch/pathfam.ndjson");
    let first = args.num("first", 0);
    let count = args.num("programs", u64::MAX);
    let mut trace = vcore::Trace::create(&out);
    let mut case = 0u64;
    let mut done = 0u64;
    for a in 1..=max_edges {
        for b in 1..=max_edges {
            let na = 2 * a - 1; // interior elements of route A: edge, node, edge, ...
            let nb = 2 * b - 1;
            for labels in 0..(1u32 << (na + nb)) {
                case += 1;
                if case <= first || done >= count { continue; }
                done += 1;
                let mut db = crate::dbx::open(crate::dbx::Kind::Memory, "pathfam").unwrap();
                trace.emit(json!({"ev": "Reset", "profile": "path_family", "run": case, "variants": ["memory"]}));
                trace.emit(observe_all_pub(&db));
                let lab = |i: usize| -> i64 { ((labels >> i) & 1) as i64 };
                // nodes: 1 = origin, 2 = destination (both pass), then the intermediate nodes of A and of B
                let mut node_vals: Vec<Vec<DbKeyValue>> = vec![vec![("k", 1_i64).into()], vec![("k", 1_i64).into()]];
                for i in 0..(a - 1) { node_vals.push(vec![("k", lab(2 * i + 1)).into()]); }
                for i in 0..(b - 1) { node_vals.push(vec![("k", lab(na + 2 * i + 1)).into()]); }
                let mut run_mq = |db: &mut DbX, q: MQ, trace: &mut vcore::Trace| {
                    let r = crate::dbx::exec_mq(db, &q);
                    trace.emit(merge(merge(q.event(), q.outcome(&r)), json!({"others": []})));
                };
                run_mq(&mut db, MQ::InsertNodes(InsertNodesQuery { count: 0, values: QueryValues::Multi(node_vals), aliases: vec![], ids: QueryIds::Ids(vec![]) }), &mut trace);
                let route = |first_mid: i64, n_edges: usize| -> Vec<(i64, i64)> {
                    let mut nodes = vec![1i64];
                    for i in 0..(n_edges - 1) { nodes.push(first_mid + i as i64); }
                    nodes.push(2);
                    nodes.windows(2).map(|w| (w[0], w[1])).collect()
                };
                let mut edges: Vec<((i64, i64), i64)> = vec![];
                for (i, e) in route(3, a).into_iter().enumerate() { edges.push((e, lab(2 * i))); }
                for (i, e) in route(3 + (a as i64 - 1), b).into_iter().enumerate() { edges.push((e, lab(na + 2 * i))); }
                for ((f, t), k) in edges {
                    run_mq(&mut db, MQ::InsertEdges(InsertEdgesQuery {
                        from: QueryIds::Ids(vec![QueryId::Id(DbId(f))]), to: QueryIds::Ids(vec![QueryId::Id(DbId(t))]), ids: QueryIds::Ids(vec![]),
                        values: QueryValues::Single(vec![("k", k).into()]), each: false }), &mut trace);
                }
                trace.emit(observe_all_pub(&db));
                let key: DbValue = "k".into();
                let v = DbValue::I64(1);
                let q = SearchQuery {
                    algorithm: SearchQueryAlgorithm::BreadthFirst, origin: QueryId::Id(DbId(1)), destination: QueryId::Id(DbId(2)), limit: 0, offset: 0,
                    order_by: vec![],
                    conditions: vec![QueryCondition { logic: QueryConditionLogic::And, modifier: QueryConditionModifier::None,
                                                      data: QueryConditionData::KeyValue(KeyValueComparison { key: key.clone(), value: Comparison::Equal(v.clone()) }) }],
                };
                let head = json!({"ev": "Search", "alg": "path", "dir": "fwd", "origin": ["i", 1], "dest": ["i", 2],
                                  "conds": [{"l": "and", "m": "none", "d": {"t": "kv", "k": venc(&key), "c": "eq", "v": venc(&v)}}],
                                  "limit": 0, "offset": 0, "order": []});
                trace.emit(finish_search(head, &q, &[&db]));
            }
        }
    }
    trace.flush();
    println!("{}", json!({"first": first, "programs": done, "cases_total": case, "searches": done, "searches_nontrivial": done, "mutations": 0,
                          "mutations_failed": 0, "transactions": 0, "transactions_rolled_back": 0, "reads": done, "maintenance_ops": 0,
                          "distinct_mutation_events": done}));
}
