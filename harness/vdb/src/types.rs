//! C22 driver: user types deriving `agdb::DbType` are inserted as elements (`insert().element(&v)`, `elements(&[..])`)
//! and selected back as that type (`select().elements::<T>()`), new and through their id field.
//!
//! The event that goes into the trace is NOT what the derive macro produced: for every type of the corpus the
//! expected key-values are written down by hand here from the documented rule (keys = field names in declaration
//! order, `db_id` skipped, `None` => key absent, values through the library's `From` conversions). The event is an
//! ordinary InsertValues event with those expected pairs; DbTrace applies it to DbModel and the Observe that follows
//! (taken from the real database) must equal the model: wrong key names, dropped fields, wrong order, wrong target
//! element all surface there. The typed read-back is a TypedRead event: the value selected as T must equal the
//! value written (PartialEq), decided by the driver and required by the specification.
use crate::dbx::*;
use crate::enc::*;
use crate::hist::observe_all_pub;
use agdb::*;
use serde_json::{Value, json};
use vcore::{Args, Rng, Trace};

#[derive(DbType, Clone, Debug, PartialEq)]
struct Account {
    db_id: Option<DbId>,
    name: String,
    age: u64,
    delta: i64,
    ratio: f64,
    data: Vec<u8>,
    active: bool,
}

#[derive(DbType, Clone, Debug, PartialEq)]
struct Profile {
    db_id: Option<QueryId>,
    tags: Vec<String>,
    nums: Vec<i64>,
    unums: Vec<u64>,
    floats: Vec<f64>,
    nick: Option<String>,
    level: Option<u64>,
}

#[derive(DbType, Clone, Debug, PartialEq)]
struct Note {
    title: String,
    count: i64,
}

// types deriving DbElement (DbType + the pair ("db_element_id", "<TypeName>") appended after the fields): one with a
// mix of required and optional fields, one with optional fields only, one without options
#[derive(DbElement, Clone, Debug, PartialEq)]
struct Device {
    db_id: Option<DbId>,
    name: String,
    port: Option<u64>,
}

#[derive(DbElement, Clone, Debug, PartialEq)]
struct Prefs {
    db_id: Option<DbId>,
    theme: Option<String>,
    size: Option<u64>,
}

#[derive(DbElement, Clone, Debug, PartialEq)]
struct Plain {
    db_id: Option<DbId>,
    label: String,
    n: i64,
}

// field attributes: renamed keys (required and optional field), a flattened nested type (its keys merged in place), a
// skipped field (never stored; reads back as Default)
#[derive(DbType, Clone, Debug, PartialEq)]
struct Tagged {
    db_id: Option<DbId>,
    #[agdb(rename = "tag_name")]
    name: String,
    #[agdb(rename = "tag_group")]
    group: Option<String>,
    #[agdb(flatten)]
    note: Note,
    #[agdb(skip)]
    cache: u64,
    weight: Option<i64>,
}

// custom value types (derive DbValue + DbTypeMarker + DbSerialize: stored as the bytes of their binary serialization) as
// a field, inside a vector (stored as the serialization of a vector of byte values; empty vector = empty bytes) and optional
#[derive(Default, Debug, Clone, PartialEq, DbTypeMarker, DbValue, DbSerialize)]
enum Status { Active, #[default] Inactive }
#[derive(Clone, PartialEq, Debug, DbValue, DbTypeMarker, DbSerialize)]
struct Attr { name: String, value: String }
#[derive(DbType, Clone, Debug, PartialEq)]
struct Labeled {
    db_id: Option<DbId>,
    status: Status,
    attr: Attr,
    attrs: Vec<Attr>,
    extra: Option<Attr>,
}
fn framed(s: &str) -> Vec<u8> { let mut b = (s.len() as u64).to_le_bytes().to_vec(); b.extend_from_slice(s.as_bytes()); b }
fn attr_bytes(a: &Attr) -> Vec<u8> { let mut b = framed(&a.name); b.extend(framed(&a.value)); b }
fn expected_labeled(v: &Labeled) -> Vec<DbKeyValue> {
    let mut out = vec![kv("status", vec![if v.status == Status::Active { 0u8 } else { 1u8 }]), kv("attr", attr_bytes(&v.attr))];
    let items: Vec<DbValue> = v.attrs.iter().map(|a| DbValue::Bytes(attr_bytes(a))).collect();
    out.push(kv("attrs", if items.is_empty() { Vec::<u8>::new() } else { AgdbSerialize::serialize(&items) }));
    if let Some(e) = &v.extra { out.push(kv("extra", attr_bytes(e))); }
    out
}
fn gen_attr(rng: &mut Rng) -> Attr { Attr { name: word(rng), value: word(rng) } }
fn gen_labeled(rng: &mut Rng) -> Labeled {
    Labeled { db_id: None, status: if rng.chance(1, 2) { Status::Active } else { Status::Inactive }, attr: gen_attr(rng),
              attrs: (0..rng.below(4)).map(|_| gen_attr(rng)).collect(), extra: if rng.chance(1, 2) { Some(gen_attr(rng)) } else { None } }
}

fn kv<K: Into<DbValue>, V: Into<DbValue>>(k: K, v: V) -> DbKeyValue {
    DbKeyValue { key: k.into(), value: v.into() }
}

// ---- the documented mapping, written by hand ----
fn expected_account(v: &Account) -> Vec<DbKeyValue> {
    vec![kv("name", v.name.clone()), kv("age", v.age), kv("delta", v.delta), kv("ratio", v.ratio), kv("data", v.data.clone()), kv("active", v.active)]
}
fn expected_profile(v: &Profile) -> Vec<DbKeyValue> {
    let mut out = vec![kv("tags", v.tags.clone()), kv("nums", v.nums.clone()), kv("unums", v.unums.clone()), kv("floats", v.floats.clone())];
    if let Some(n) = &v.nick { out.push(kv("nick", n.clone())); }
    if let Some(l) = &v.level { out.push(kv("level", *l)); }
    out
}
fn expected_note(v: &Note) -> Vec<DbKeyValue> {
    vec![kv("title", v.title.clone()), kv("count", v.count)]
}

fn expected_device(v: &Device) -> Vec<DbKeyValue> {
    let mut out = vec![kv("name", v.name.clone())];
    if let Some(p) = &v.port { out.push(kv("port", *p)); }
    out.push(kv("db_element_id", "Device"));
    out
}
fn expected_prefs(v: &Prefs) -> Vec<DbKeyValue> {
    let mut out = vec![];
    if let Some(t) = &v.theme { out.push(kv("theme", t.clone())); }
    if let Some(z) = &v.size { out.push(kv("size", *z)); }
    out.push(kv("db_element_id", "Prefs"));
    out
}
fn expected_plain(v: &Plain) -> Vec<DbKeyValue> {
    vec![kv("label", v.label.clone()), kv("n", v.n), kv("db_element_id", "Plain")]
}

fn expected_tagged(v: &Tagged) -> Vec<DbKeyValue> {
    let mut out = vec![kv("tag_name", v.name.clone())];
    if let Some(g) = &v.group { out.push(kv("tag_group", g.clone())); }
    out.push(kv("title", v.note.title.clone()));
    out.push(kv("count", v.note.count));
    if let Some(w) = &v.weight { out.push(kv("weight", *w)); }
    out
}
fn gen_tagged(rng: &mut Rng) -> Tagged {
    Tagged { db_id: None, name: word(rng), group: if rng.chance(2, 3) { Some(word(rng)) } else { None }, note: Note { title: word(rng), count: rng.below(7) as i64 },
             cache: 0, weight: if rng.chance(1, 2) { Some(rng.below(9) as i64 - 4) } else { None } }
}

fn word(rng: &mut Rng) -> String {
    let n = rng.below(22) as usize; // crosses the 15 byte inline limit
    (0..n).map(|_| (b'a' + rng.below(26) as u8) as char).collect()
}
fn gen_account(rng: &mut Rng) -> Account {
    Account { db_id: None, name: word(rng), age: rng.below(100), delta: rng.below(50) as i64 - 25, ratio: (rng.below(9) as f64) / 2.0 - 1.0,
              data: (0..rng.below(20)).map(|_| rng.below(256) as u8).collect(), active: rng.chance(1, 2) }
}
fn gen_profile(rng: &mut Rng) -> Profile {
    Profile { db_id: None, tags: (0..rng.below(4)).map(|_| word(rng)).collect(), nums: (0..rng.below(4)).map(|_| rng.below(9) as i64 - 4).collect(),
              unums: (0..rng.below(4)).map(|_| rng.below(9)).collect(), floats: (0..rng.below(3)).map(|_| rng.below(5) as f64 / 2.0).collect(),
              nick: if rng.chance(1, 2) { Some(word(rng)) } else { None }, level: if rng.chance(1, 2) { Some(rng.below(9)) } else { None } }
}

fn insert_event(ids: &[QueryId], values: &[Vec<DbKeyValue>], r: &Result<QueryResult, DbError>) -> Value {
    let q = MQ::InsertValues(InsertValuesQuery { ids: QueryIds::Ids(ids.to_vec()), values: QueryValues::Multi(values.to_vec()) });
    merge(merge(q.event(), q.outcome(r)), json!({"others": []}))
}

#[derive(Clone)]
enum Stored { A(Account), P(Profile), N(Note), D(Device), F(Prefs), L(Plain), T(Tagged), B(Labeled) }

/// typed read-back through both typed selects: `elements::<T>()` (Vec<T>) and `element::<T>()` (T)
macro_rules! typed_read {
    ($T:ty, $db:expr, $id:expr, $want:expr) => {{
        let many = guarded(|| with_db_ref($db, |d| d.exec(QueryBuilder::select().elements::<$T>().ids($id).query())).and_then(|r| TryInto::<Vec<$T>>::try_into(r)));
        let one = guarded(|| with_db_ref($db, |d| d.exec(QueryBuilder::select().element::<$T>().ids($id).query())).and_then(|r| TryInto::<$T>::try_into(r)));
        match (many, one) {
            (Ok(Ok(vs)), Ok(Ok(v))) => (true, vs.len() == 1 && &vs[0] == $want && &v == $want),
            _ => (false, false),
        }
    }};
}

pub fn run(args: &Args) {
    let seed = args.num("seed", 1);
    let first = args.num("first", 0);
    let runs = args.num("programs", 4);
    let ops = args.num("ops", 30);
    let work = args.str("work", "/verif/harness/target/scratch/vtypes");
    let out = args.str("out", &format!("{work}/types_trace.ndjson"));
    std::fs::create_dir_all(&work).unwrap();
    if std::env::var("VDB_PANIC").is_err() { std::panic::set_hook(Box::new(|_| {})); }
    let mut trace = Trace::create(&out);
    let (mut n_ins, mut n_upd, mut n_read, mut n_multi) = (0u64, 0u64, 0u64, 0u64);
    for run in first..first + runs {
        let mut rng = Rng::new(seed.wrapping_mul(1_000_003).wrapping_add(run).wrapping_add(660_001));
        let kind = [Kind::Memory, Kind::File, Kind::Mapped][(run % 3) as usize];
        let path = format!("{work}/t{run}.agdb");
        remove_files(&path);
        let mut db = open(kind, &path).unwrap();
        trace.emit(json!({"ev": "Reset", "profile": "types", "run": run, "variants": [kind.name()]}));
        trace.emit(observe_all_pub(&db));
        let mut stored: Vec<(i64, Stored)> = vec![];
        for _ in 0..ops {
            let x = rng.below(10);
            if x < 5 || stored.is_empty() {
                // insert a new element (one, or two at once through elements())
                match rng.below(11) {
                    9 | 10 => {
                        let v = gen_labeled(&mut rng);
                        let r = with_db_mut(&mut db, |d| d.exec_mut(QueryBuilder::insert().element(&v).query()));
                        trace.emit(insert_event(&[QueryId::Id(DbId(0))], &[expected_labeled(&v)], &r));
                        if let Ok(r) = &r { let id = r.elements[0].id.0; stored.push((id, Stored::B(Labeled { db_id: Some(DbId(id)), ..v }))); }
                    }
                    7 | 8 => {
                        let v = gen_tagged(&mut rng);
                        let r = with_db_mut(&mut db, |d| d.exec_mut(QueryBuilder::insert().element(&v).query()));
                        trace.emit(insert_event(&[QueryId::Id(DbId(0))], &[expected_tagged(&v)], &r));
                        if let Ok(r) = &r { let id = r.elements[0].id.0; stored.push((id, Stored::T(Tagged { db_id: Some(DbId(id)), ..v }))); }
                    }
                    4 => {
                        let v = Device { db_id: None, name: word(&mut rng), port: if rng.chance(1, 2) { Some(rng.below(9000)) } else { None } };
                        let r = with_db_mut(&mut db, |d| d.exec_mut(QueryBuilder::insert().element(&v).query()));
                        trace.emit(insert_event(&[QueryId::Id(DbId(0))], &[expected_device(&v)], &r));
                        if let Ok(r) = &r { let id = r.elements[0].id.0; stored.push((id, Stored::D(Device { db_id: Some(DbId(id)), ..v }))); }
                    }
                    5 => {
                        let v = Prefs { db_id: None, theme: if rng.chance(2, 3) { Some(word(&mut rng)) } else { None }, size: if rng.chance(2, 3) { Some(rng.below(40)) } else { None } };
                        let r = with_db_mut(&mut db, |d| d.exec_mut(QueryBuilder::insert().element(&v).query()));
                        trace.emit(insert_event(&[QueryId::Id(DbId(0))], &[expected_prefs(&v)], &r));
                        if let Ok(r) = &r { let id = r.elements[0].id.0; stored.push((id, Stored::F(Prefs { db_id: Some(DbId(id)), ..v }))); }
                    }
                    6 => {
                        let v = Plain { db_id: None, label: word(&mut rng), n: rng.below(9) as i64 - 4 };
                        let r = with_db_mut(&mut db, |d| d.exec_mut(QueryBuilder::insert().element(&v).query()));
                        trace.emit(insert_event(&[QueryId::Id(DbId(0))], &[expected_plain(&v)], &r));
                        if let Ok(r) = &r { let id = r.elements[0].id.0; stored.push((id, Stored::L(Plain { db_id: Some(DbId(id)), ..v }))); }
                    }
                    0 => {
                        let v = gen_account(&mut rng);
                        let r = with_db_mut(&mut db, |d| d.exec_mut(QueryBuilder::insert().element(&v).query()));
                        trace.emit(insert_event(&[QueryId::Id(DbId(0))], &[expected_account(&v)], &r));
                        if let Ok(r) = &r { let id = r.elements[0].id.0; stored.push((id, Stored::A(Account { db_id: Some(DbId(id)), ..v }))); }
                    }
                    1 => {
                        let v = gen_profile(&mut rng);
                        let r = with_db_mut(&mut db, |d| d.exec_mut(QueryBuilder::insert().element(&v).query()));
                        trace.emit(insert_event(&[QueryId::Id(DbId(0))], &[expected_profile(&v)], &r));
                        if let Ok(r) = &r { let id = r.elements[0].id.0; stored.push((id, Stored::P(Profile { db_id: Some(QueryId::Id(DbId(id))), ..v }))); }
                    }
                    2 => {
                        let v = Note { title: word(&mut rng), count: rng.below(7) as i64 };
                        let r = with_db_mut(&mut db, |d| d.exec_mut(QueryBuilder::insert().element(&v).query()));
                        trace.emit(insert_event(&[QueryId::Id(DbId(0))], &[expected_note(&v)], &r));
                        if let Ok(r) = &r { stored.push((r.elements[0].id.0, Stored::N(v))); }
                    }
                    _ => {
                        let vs = vec![gen_account(&mut rng), gen_account(&mut rng)];
                        let r = with_db_mut(&mut db, |d| d.exec_mut(QueryBuilder::insert().elements(&vs).query()));
                        trace.emit(insert_event(&[QueryId::Id(DbId(0)), QueryId::Id(DbId(0))], &[expected_account(&vs[0]), expected_account(&vs[1])], &r));
                        if let Ok(r) = &r {
                            for (i, v) in vs.into_iter().enumerate() { let id = r.elements[i].id.0; stored.push((id, Stored::A(Account { db_id: Some(DbId(id)), ..v }))); }
                        }
                        n_multi += 1;
                    }
                }
                n_ins += 1;
            } else if x < 8 {
                // update exactly one stored element through its id field (same type, same None pattern of the options)
                let i = rng.below(stored.len() as u64) as usize;
                let (id, old) = stored[i].clone();
                match old {
                    Stored::A(_) if rng.chance(1, 3) => {
                        // one batch that updates this element through its id field AND inserts a new one (either order)
                        let upd = Account { db_id: Some(DbId(id)), ..gen_account(&mut rng) };
                        let fresh = gen_account(&mut rng);
                        let first_new = rng.chance(1, 2);
                        let vs = if first_new { vec![fresh.clone(), upd.clone()] } else { vec![upd.clone(), fresh.clone()] };
                        let qids: Vec<QueryId> = vs.iter().map(|v| QueryId::Id(v.db_id.unwrap_or(DbId(0)))).collect();
                        let r = with_db_mut(&mut db, |d| d.exec_mut(QueryBuilder::insert().elements(&vs).query()));
                        trace.emit(insert_event(&qids, &[expected_account(&vs[0]), expected_account(&vs[1])], &r));
                        if let Ok(r) = &r {
                            stored[i].1 = Stored::A(upd);
                            let new_id = r.elements[0].id.0; // the result lists only the elements the query created
                            stored.push((new_id, Stored::A(Account { db_id: Some(DbId(new_id)), ..fresh })));
                        }
                        n_multi += 1;
                    }
                    Stored::A(_) => {
                        let v = Account { db_id: Some(DbId(id)), ..gen_account(&mut rng) };
                        let r = with_db_mut(&mut db, |d| d.exec_mut(QueryBuilder::insert().element(&v).query()));
                        trace.emit(insert_event(&[QueryId::Id(DbId(id))], &[expected_account(&v)], &r));
                        if r.is_ok() { stored[i].1 = Stored::A(v); }
                    }
                    Stored::P(o) => {
                        let mut v = Profile { db_id: Some(QueryId::Id(DbId(id))), ..gen_profile(&mut rng) };
                        if o.nick.is_none() { v.nick = None; } else if v.nick.is_none() { v.nick = Some(word(&mut rng)); }
                        if o.level.is_none() { v.level = None; } else if v.level.is_none() { v.level = Some(rng.below(9)); }
                        let r = with_db_mut(&mut db, |d| d.exec_mut(QueryBuilder::insert().element(&v).query()));
                        trace.emit(insert_event(&[QueryId::Id(DbId(id))], &[expected_profile(&v)], &r));
                        if r.is_ok() { stored[i].1 = Stored::P(v); }
                    }
                    Stored::L(_) => {
                        let v = Plain { db_id: Some(DbId(id)), label: word(&mut rng), n: rng.below(9) as i64 - 4 };
                        let r = with_db_mut(&mut db, |d| d.exec_mut(QueryBuilder::insert().element(&v).query()));
                        trace.emit(insert_event(&[QueryId::Id(DbId(id))], &[expected_plain(&v)], &r));
                        if r.is_ok() { stored[i].1 = Stored::L(v); }
                    }
                    Stored::D(o) => {
                        // same None pattern of the option (an update never removes a key)
                        let v = Device { db_id: Some(DbId(id)), name: word(&mut rng), port: o.port.map(|_| rng.below(9000)) };
                        let r = with_db_mut(&mut db, |d| d.exec_mut(QueryBuilder::insert().element(&v).query()));
                        trace.emit(insert_event(&[QueryId::Id(DbId(id))], &[expected_device(&v)], &r));
                        if r.is_ok() { stored[i].1 = Stored::D(v); }
                    }
                    Stored::T(o) => {
                        let mut v = Tagged { db_id: Some(DbId(id)), ..gen_tagged(&mut rng) };
                        if o.group.is_none() { v.group = None; } else if v.group.is_none() { v.group = Some(word(&mut rng)); }
                        if o.weight.is_none() { v.weight = None; } else if v.weight.is_none() { v.weight = Some(rng.below(9) as i64 - 4); }
                        let r = with_db_mut(&mut db, |d| d.exec_mut(QueryBuilder::insert().element(&v).query()));
                        trace.emit(insert_event(&[QueryId::Id(DbId(id))], &[expected_tagged(&v)], &r));
                        if r.is_ok() { stored[i].1 = Stored::T(v); }
                    }
                    Stored::B(o) => {
                        let mut v = Labeled { db_id: Some(DbId(id)), ..gen_labeled(&mut rng) };
                        if o.extra.is_none() { v.extra = None; } else if v.extra.is_none() { v.extra = Some(gen_attr(&mut rng)); }
                        let r = with_db_mut(&mut db, |d| d.exec_mut(QueryBuilder::insert().element(&v).query()));
                        trace.emit(insert_event(&[QueryId::Id(DbId(id))], &[expected_labeled(&v)], &r));
                        if r.is_ok() { stored[i].1 = Stored::B(v); }
                    }
                    Stored::F(_) => continue,
                    Stored::N(_) => continue, // no id field: cannot be addressed through the type
                }
                n_upd += 1;
            } else {
                // typed read-back of one stored element
                let i = rng.below(stored.len() as u64) as usize;
                let (id, v) = stored[i].clone();
                let (ok, eq) = match &v {
                    Stored::A(a) => typed_read!(Account, &db, id, a),
                    Stored::P(p) => typed_read!(Profile, &db, id, p),
                    Stored::N(n) => typed_read!(Note, &db, id, n),
                    Stored::D(d) => typed_read!(Device, &db, id, d),
                    Stored::F(f) => typed_read!(Prefs, &db, id, f),
                    Stored::L(l) => typed_read!(Plain, &db, id, l),
                    Stored::T(t) => typed_read!(Tagged, &db, id, t),
                    Stored::B(b) => typed_read!(Labeled, &db, id, b),
                };
                trace.emit(json!({"ev": "TypedRead", "id": id, "ok": ok, "eq": eq, "type": match v { Stored::A(_) => "Account", Stored::P(_) => "Profile", Stored::N(_) => "Note", Stored::D(_) => "Device", Stored::F(_) => "Prefs", Stored::L(_) => "Plain", Stored::T(_) => "Tagged", Stored::B(_) => "Labeled" }}));
                n_read += 1;
                continue;
            }
            trace.emit(observe_all_pub(&db));
        }
        drop(db);
        remove_files(&path);
    }
    trace.flush();
    println!("{}", json!({"first": first, "programs": runs, "inserts": n_ins, "updates": n_upd, "typed_reads": n_read, "multi_inserts": n_multi,
                          "mutations": n_ins + n_upd, "mutations_failed": 0, "transactions": 0, "transactions_rolled_back": 0, "reads": n_read,
                          "maintenance_ops": 0, "distinct_mutation_events": n_ins + n_upd, "searches": 0, "searches_nontrivial": 0}));
}
