//! Compiles the UNMODIFIED /repo/agdb_server/src/raft.rs into the simulator: the only textual change is the
//! import of `std::time::Instant`, replaced by the simulator's virtual clock, plus an appended read-only
//! projection of the private state (the "H4 view": nothing in /repo is touched).
use std::{env, fs, path::PathBuf};
fn main() {
    let src = env::var("VERIF_RAFT_SRC").unwrap_or_else(|_| "/repo/agdb_server/src/raft.rs".to_string());
    println!("cargo:rerun-if-changed={src}");
    println!("cargo:rerun-if-env-changed=VERIF_RAFT_SRC");
    let mut text = fs::read_to_string(&src).expect("raft.rs");
    let needle = "use std::time::Instant;";
    assert!(text.contains(needle), "raft.rs no longer imports std::time::Instant: the clock substitution must be revisited");
    text = text.replace(needle, "use crate::vclock::Instant;");
    text.push_str(r#"
// ---- appended by /verif/harness/vraft/build.rs (read-only projection) ----
pub(crate) struct VNode {
    pub st: String, pub sa: u64, pub term: u64, pub voted: Vec<u64>, pub view: Vec<(u64, u64, u64)>,
    pub timer: Vec<u64>, pub et: u64,
}
impl<T: Clone, N, S: Storage<T, N>> Cluster<T, N, S> {
    pub(crate) fn verif_ns(&self) -> VNode {
        let (st, sa) = match self.state {
            ClusterState::Candidate => ("Candidate", 0),
            ClusterState::Election => ("Election", 0),
            ClusterState::Follower(l) => ("Follower", l),
            ClusterState::Leader => ("Leader", 0),
            ClusterState::Voted(t) => ("Voted", t),
        };
        VNode {
            st: st.to_string(), sa, term: self.term,
            voted: self.nodes.iter().filter(|n| n.voted).map(|n| n.index).collect(),
            view: self.nodes.iter().map(|n| (n.log_index, n.log_term, n.log_commit)).collect(),
            timer: self.nodes.iter().map(|n| n.timer.ms()).collect(),
            et: self.election_timeout.as_millis() as u64,
        }
    }
    pub(crate) fn verif_is_leader(&self) -> bool { matches!(self.state, ClusterState::Leader) }
}
pub(crate) struct VReq {
    pub ty: &'static str, pub from: u64, pub to: u64, pub term: u64, pub li: u64, pub lt: u64, pub lc: u64,
    pub es: Vec<(u64, u64, u64)>,
}
impl Request<u64> {
    pub(crate) fn verif(&self) -> VReq {
        let (ty, es) = match &self.data {
            RequestType::Append(logs) => ("Append", logs.iter().map(|l| (l.index, l.term, l.data)).collect()),
            RequestType::Heartbeat => ("Heartbeat", vec![]),
            RequestType::PreVote => ("PreVote", vec![]),
            RequestType::Vote => ("Vote", vec![]),
        };
        VReq { ty, from: self.index, to: self.target, term: self.term, li: self.log_index, lt: self.log_term, lc: self.log_commit, es }
    }
}
impl Response {
    /// (kind, v): v = the responder's term for TermMismatch, its commit index for LogMismatch, else 0
    pub(crate) fn verif(&self) -> (&'static str, u64) {
        match &self.result {
            ResponseType::Ok => ("Ok", 0),
            ResponseType::CommitError(_) => ("CommitError", 0),
            ResponseType::ClusterMismatch(_) => ("ClusterMismatch", 0),
            ResponseType::LeaderMismatch(_) => ("LeaderMismatch", 0),
            ResponseType::TermMismatch(m) => ("TermMismatch", m.local.unwrap_or(0)),
            ResponseType::LogMismatch(m) => ("LogMismatch", m.commit.local.unwrap_or(0)),
            ResponseType::AlreadyVoted(_) => ("AlreadyVoted", 0),
        }
    }
}
"#);
    fs::write(PathBuf::from(env::var("OUT_DIR").unwrap()).join("raft.rs"), text).unwrap();
}
