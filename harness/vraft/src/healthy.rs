//! C30 driver: after an optional fault-ridden election prefix (loss, duplication, arbitrary timer expiries, no
//! client appends) the network heals: every message is delivered, all clocks advance together in small steps,
//! every node calls process() at every step (the server does so every 10 ms), a client appends entries at the
//! node that is leader at that moment. After `--healthy-ms` of that the cluster is observed at quiescence
//! (Quiet event): RaftTrace decides whether it has exactly one leader, equal logs, and every appended entry
//! committed everywhere.
use crate::sim::*;
use serde_json::json;
use vcore::{Args, Rng, Trace};

/// delivers messages in random order until none is in flight; a conversation that does not end by itself (e.g. the leader
/// re-sending entries that the follower keeps refusing until the next heartbeat) is cut after `cap` deliveries and goes
/// on in the next round, after the clocks moved - only a panic ends the run (returns false)
fn drain(sim: &mut Sim, rng: &mut Rng, trace: &mut Trace, cap: usize) -> bool {
    let mut n = 0;
    while !sim.flight.is_empty() {
        let (id, is_req) = { let m = rng.pick(&sim.flight); (m.0, matches!(m.1, Msg::Req(_))) };
        let ev = if is_req { sim.deliver_req(id) } else { sim.deliver_resp(id) };
        let bad = ev["ev"] == "Panic";
        trace.emit(ev);
        n += 1;
        if bad { return false; }
        if n > cap { return true; }
    }
    true
}

pub fn run(args: &Args) {
    let seed = args.num("seed", 1);
    let first = args.num("first", 0);
    let runs = args.num("programs", 10);
    let healthy_ms = args.num("healthy-ms", 30000);
    let max_chaos = args.num("max-chaos", 60);
    let max_appends = args.num("max-appends", 4);
    // client appends DURING the fault-ridden prefix (at whoever is leader): the logs differ when the network heals
    let chaos_appends = args.num("chaos-appends", 0);
    let work = args.str("work", "/verif/harness/target/scratch/vraft");
    let out = args.str("out", &format!("{work}/healthy_trace.ndjson"));
    std::fs::create_dir_all(&work).unwrap();
    let mut trace = Trace::create(&out);
    let (mut n_runs, mut n_chaos, mut n_rounds, mut n_appends, mut n_events) = (0u64, 0u64, 0u64, 0u64, 0u64);
    for run in first..first + runs {
        let mut rng = Rng::new(seed.wrapping_mul(1_000_003).wrapping_add(run).wrapping_add(440_001));
        let cfg = Settings { n: args.num("n", 3), ef: args.num("ef", 1000), hb: args.num("hb", 1000), tt: args.num("tt", 3000) };
        let n = cfg.n as usize;
        let advs = [0, 1, cfg.hb, cfg.hb + 1, cfg.ef, 2 * cfg.ef, cfg.tt, cfg.tt + 1];
        let mut sim = Sim::new(cfg);
        trace.emit(sim.reset_event());
        // ---- chaos prefix: elections under loss / duplication / arbitrary timers (every second run starts cold)
        let chaos = if run % 2 == 0 && chaos_appends == 0 { 0 } else { rng.range(1, max_chaos) };
        let mut early = 0u64;
        for _ in 0..chaos {
            let x = rng.below(100);
            let leaders: Vec<usize> = (0..n).filter(|i| sim.is_leader(*i)).collect();
            let ev = if early < chaos_appends && !leaders.is_empty() && rng.chance(1, 8) {
                early += 1;
                sim.append(*rng.pick(&leaders), 1000 + early)
            } else if !sim.flight.is_empty() && x < 60 {
                let (id, is_req) = { let m = rng.pick(&sim.flight); (m.0, matches!(m.1, Msg::Req(_))) };
                if is_req { sim.deliver_req(id) } else { sim.deliver_resp(id) }
            } else if !sim.flight.is_empty() && x < 72 {
                let id = rng.pick(&sim.flight).0;
                sim.drop_msg(id)
            } else if !sim.flight.is_empty() && sim.flight.len() < 10 && x < 78 {
                let id = rng.pick(&sim.flight).0;
                sim.dup_msg(id)
            } else {
                let node = rng.below(n as u64) as usize;
                let adv = *rng.pick(&advs);
                sim.process(node, adv)
            };
            trace.emit(ev);
            n_chaos += 1;
        }
        // ---- heal
        let mut ok = drain(&mut sim, &mut rng, &mut trace, 300);
        let t0 = *sim.clock.iter().max().unwrap();
        for c in sim.clock.iter_mut() { *c = t0; }
        let mut appended: Vec<u64> = vec![];
        let mut val = 0;
        // a stale leader left over from the prefix may still accept (and legitimately lose) an entry until its next
        // heartbeat is rejected: the client starts once the healed cluster had time to settle (at once on a cold start)
        let append_from = if chaos == 0 { t0 } else { t0 + healthy_ms / 3 };
        let append_until = t0 + 2 * healthy_ms / 3;
        while ok && sim.clock[0] < t0 + healthy_ms {
            let dt = *rng.pick(&[10u64, 100, 250, 500]);
            for c in sim.clock.iter_mut() { *c += dt; }
            n_rounds += 1;
            let mut order: Vec<usize> = (0..n).collect();
            for i in 0..n { let j = i + rng.below((n - i) as u64) as usize; order.swap(i, j); }
            for node in order {
                let ev = sim.process(node, 0);
                if ev["branch"] != "None" { trace.emit(ev); }
            }
            ok = drain(&mut sim, &mut rng, &mut trace, 300);
            let leaders: Vec<usize> = (0..n).filter(|i| sim.is_leader(*i)).collect();
            if ok && sim.flight.is_empty() && leaders.len() == 1 && (appended.len() as u64) < max_appends && sim.clock[0] >= append_from && sim.clock[0] <= append_until && rng.chance(1, 6) {
                val += 1;
                let ev = sim.append(leaders[0], val);
                ok = ev["ev"] != "Panic";
                trace.emit(ev);
                appended.push(val);
                n_appends += 1;
                ok = ok && drain(&mut sim, &mut rng, &mut trace, 300);
            }
        }
        // the final observation: whatever is still in flight gets a last chance to settle (a conversation that never ends
        // by itself and was not ended by the timers in the whole healthy period is a finding)
        if ok { ok = drain(&mut sim, &mut rng, &mut trace, 2000); }
        let drained = ok && sim.flight.is_empty();
        trace.emit(json!({"ev": "Quiet", "now": sim.clock[0], "since_heal_ms": sim.clock[0] - t0, "appended": appended, "drained": drained}));
        n_runs += 1;
    }
    n_events += trace.events;
    trace.flush();
    println!("{}", json!({"first": first, "programs": n_runs, "chaos_steps": n_chaos, "healthy_rounds": n_rounds, "appends": n_appends, "trace_events": n_events}));
}
