//! C30 driver: the fault-free, timely schedule. (filled in below)
use vcore::Args;
pub fn run(_args: &Args) {
    eprintln!("not implemented yet");
    std::process::exit(2);
}
