//! Deterministic single-threaded simulator around the REAL agdb_server/src/raft.rs (compiled in by build.rs
//! with a virtual clock). The scheduler's choices are exactly the actions of spec/AgdbRaft.tla:
//! process(n) after advancing n's clock, deliver a request, deliver a response, drop, duplicate,
//! client append, restart. After every action the acting node's complete projected state is logged,
//! so spec/RaftTrace.tla can decide every step.
#![allow(dead_code)]
mod server_error {
    #[derive(Debug)]
    pub struct ServerError {
        pub description: String,
    }
    pub type ServerResult<T = ()> = Result<T, ServerError>;
}
mod vclock {
    use std::cell::Cell;
    use std::time::Duration;
    thread_local! { pub static NOW: Cell<u64> = const { Cell::new(0) }; }
    #[derive(Clone, Copy, Debug)]
    pub struct Instant(u64);
    impl Instant {
        pub fn now() -> Self {
            Instant(NOW.with(|n| n.get()))
        }
        pub fn elapsed(&self) -> Duration {
            Duration::from_millis(NOW.with(|n| n.get()).saturating_sub(self.0))
        }
        pub fn ms(&self) -> u64 {
            self.0
        }
    }
}
mod raft {
    include!(concat!(env!("OUT_DIR"), "/raft.rs"));
}
mod healthy;
mod qjson;
mod sim;
mod walk;

use vcore::Args;

fn main() {
    let args = Args::from_env();
    match args.cmd().as_str() {
        "walk" => walk::run(&args),
        "replay" => walk::replay(&args),
        "healthy" => healthy::run(&args),
        "qjson" => qjson::run(),
        other => {
            eprintln!("unknown subcommand {other:?}");
            std::process::exit(2);
        }
    }
}
