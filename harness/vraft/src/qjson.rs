//! prints the JSON wire form of the queries the server driver uses (agdb is built with the serde feature here)
use agdb::*;
pub fn run() {
    let qs: Vec<(&str, QueryType)> = vec![
        ("count", QueryBuilder::select().node_count().query().into()),
        ("aliases", QueryBuilder::select().aliases().query().into()),
        ("insert2", QueryBuilder::insert().nodes().count(2).query().into()),
        ("insert_alias", QueryBuilder::insert().nodes().aliases("ALIAS").query().into()),
        ("fail_read", QueryBuilder::select().ids("nope").query().into()),
        ("fail_mut", QueryBuilder::insert().edges().from("nope").to("nope").query().into()),
        ("edge_ref", QueryBuilder::insert().edges().from(":0").to(":1").query().into()),
        ("edge_count", QueryBuilder::search().elements().query().into()),
        ("remove_alias_node", QueryBuilder::remove().ids("ALIAS").query().into()),
    ];
    let m: serde_json::Map<String, serde_json::Value> = qs.into_iter().map(|(k, q)| (k.to_string(), serde_json::to_value(q).unwrap())).collect();
    println!("{}", serde_json::Value::Object(m));
}
