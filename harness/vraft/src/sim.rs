//! The simulator proper: nodes, per-node virtual clocks, the message pool, and one method per scheduler action.
use crate::raft::*;
use crate::server_error::ServerResult;
use crate::vclock;
use serde_json::{Value, json};
use std::time::Duration;

/// In-memory log store with the semantics of ClusterStorage / ClusterLog (cluster.rs, cluster_log.rs):
/// append removes the uncommitted records with index >= the appended one, commit marks the uncommitted
/// records up to an index (the cached commit only moves when there is at least one), logs(from) returns
/// the last (count - from) records, the cached (index, term) are those of the last appended record.
#[derive(Default, Clone)]
pub struct Mem {
    pub logs: Vec<(u64, u64, u64, bool)>, // (index, term, value, committed) in insertion order
    pub index: u64,
    pub term: u64,
    pub commit: u64,
    pub applied: Vec<u64>, // indexes in the order the store handed them to execution
}

impl Mem {
    /// what ClusterStorage::new reads back from the persisted log (ClusterLog::cluster_log)
    pub fn reopened(&self) -> Mem {
        let mut m = self.clone();
        m.index = self.logs.last().map(|l| l.0).unwrap_or(0);
        m.term = self.logs.last().map(|l| l.1).unwrap_or(0);
        m.commit = self.logs.iter().rev().find(|l| l.3).map(|l| l.0).unwrap_or(0);
        m
    }
}

impl Storage<u64, ()> for Mem {
    async fn append(&mut self, log: Log<u64>, _n: Option<()>) -> ServerResult<()> {
        self.logs.retain(|l| l.3 || l.0 < log.index);
        self.logs.push((log.index, log.term, log.data, false));
        self.index = log.index;
        self.term = log.term;
        Ok(())
    }
    async fn commit(&mut self, index: u64) -> ServerResult<()> {
        let mut todo: Vec<usize> = (0..self.logs.len()).filter(|i| !self.logs[*i].3 && self.logs[*i].0 <= index).collect();
        todo.sort_by_key(|i| self.logs[*i].0);
        for i in todo {
            self.commit = index;
            self.logs[i].3 = true;
            self.applied.push(self.logs[i].0);
        }
        Ok(())
    }
    fn log_index(&self) -> u64 {
        self.index
    }
    fn log_term(&self) -> u64 {
        self.term
    }
    fn log_commit(&self) -> u64 {
        self.commit
    }
    async fn logs(&self, from: u64) -> ServerResult<Vec<Log<u64>>> {
        let cnt = self.logs.len() as u64;
        let take = cnt.saturating_sub(from) as usize;
        Ok(self.logs[self.logs.len() - take..].iter().map(|l| Log { db_id: None, index: l.0, term: l.1, data: l.2 }).collect())
    }
}

pub fn block_on<F: std::future::Future>(f: F) -> F::Output {
    use std::task::{Context, Poll, RawWaker, RawWakerVTable, Waker};
    fn raw() -> RawWaker {
        fn no(_: *const ()) {}
        fn cl(_: *const ()) -> RawWaker {
            raw()
        }
        static VT: RawWakerVTable = RawWakerVTable::new(cl, no, no, no);
        RawWaker::new(std::ptr::null(), &VT)
    }
    let w = unsafe { Waker::from_raw(raw()) };
    let mut cx = Context::from_waker(&w);
    let mut f = std::pin::pin!(f);
    match f.as_mut().poll(&mut cx) {
        Poll::Ready(v) => v,
        Poll::Pending => panic!("a storage future of the simulator was pending"),
    }
}

pub type RNode = Cluster<u64, (), Mem>;

pub enum Msg {
    Req(Request<u64>),
    Resp(Request<u64>, Response),
}

fn clone_req(r: &Request<u64>) -> Request<u64> {
    serde_json::from_value(serde_json::to_value(r).unwrap()).unwrap()
}
fn clone_resp(r: &Response) -> Response {
    serde_json::from_value(serde_json::to_value(r).unwrap()).unwrap()
}

pub fn req_json(r: &Request<u64>) -> Value {
    let v = r.verif();
    json!({"ty": v.ty, "from": v.from, "to": v.to, "term": v.term, "li": v.li, "lt": v.lt, "lc": v.lc,
           "es": v.es.iter().map(|e| json!([e.0, e.1, e.2])).collect::<Vec<_>>()})
}

pub struct Settings {
    pub n: u64,
    pub ef: u64,
    pub hb: u64,
    pub tt: u64,
}

pub struct Sim {
    pub cfg: Settings,
    pub nodes: Vec<RNode>,
    pub clock: Vec<u64>,
    pub flight: Vec<(u64, Msg)>,
    pub next_id: u64,
}

impl Sim {
    pub fn new(cfg: Settings) -> Sim {
        vclock::NOW.with(|c| c.set(0));
        let nodes = (0..cfg.n).map(|i| Self::mk(&cfg, i, Mem::default())).collect();
        let clock = vec![0; cfg.n as usize];
        Sim { cfg, nodes, clock, flight: vec![], next_id: 1 }
    }
    fn mk(cfg: &Settings, i: u64, mem: Mem) -> RNode {
        Cluster::new(mem, ClusterSettings {
            index: i,
            size: cfg.n,
            hash: 1,
            election_factor_ms: cfg.ef,
            heartbeat_timeout: Duration::from_millis(cfg.hb),
            term_timeout: Duration::from_millis(cfg.tt),
        })
    }
    pub fn reset_event(&self) -> Value {
        json!({"ev": "Reset", "n": self.cfg.n, "ef": self.cfg.ef, "hb": self.cfg.hb, "tt": self.cfg.tt})
    }
    fn at(&self, n: usize) {
        vclock::NOW.with(|c| c.set(self.clock[n]));
    }
    pub fn ns_json(&self, n: usize) -> Value {
        let v = self.nodes[n].verif_ns();
        let st = &self.nodes[n].storage;
        json!({"st": v.st, "sa": v.sa, "term": v.term, "voted": v.voted,
               "view": v.view.iter().map(|x| json!([x.0, x.1, x.2])).collect::<Vec<_>>(),
               "timer": v.timer, "et": v.et,
               "log": st.logs.iter().map(|l| json!([l.0, l.1, l.2, l.3])).collect::<Vec<_>>(),
               "applied": st.applied})
    }
    fn put(&mut self, reqs: Vec<Request<u64>>) -> Vec<Value> {
        let mut out = vec![];
        for r in reqs {
            let id = self.next_id;
            self.next_id += 1;
            out.push(json!({"id": id, "req": req_json(&r)}));
            self.flight.push((id, Msg::Req(r)));
        }
        out
    }
    pub fn pos(&self, id: u64) -> Option<usize> {
        self.flight.iter().position(|m| m.0 == id)
    }

    /// advance node n's clock by `adv` ms and call process()
    pub fn process(&mut self, n: usize, adv: u64) -> Value {
        self.clock[n] += adv;
        self.at(n);
        let before = self.nodes[n].verif_ns();
        let reqs = self.nodes[n].process().unwrap_or_default();
        let after = self.nodes[n].verif_ns();
        let branch = if let Some(r) = reqs.first() {
            match r.verif().ty {
                "Heartbeat" => "Heartbeat",
                "PreVote" => "PreElection",
                _ => "Other",
            }
        } else if before.st != after.st || before.timer[n] != after.timer[n] || before.et != after.et {
            "TermTimeout"
        } else {
            "None"
        };
        let targets: Vec<u64> = reqs.iter().map(|r| r.target).collect();
        let out = self.put(reqs);
        json!({"ev": "Process", "node": n, "now": self.clock[n], "branch": branch, "targets": targets, "out": out, "ns": self.ns_json(n)})
    }

    /// deliver request `id` to its target; the (request, response) pair goes back into the pool
    pub fn deliver_req(&mut self, id: u64) -> Value {
        let i = self.pos(id).expect("request id");
        let (_, m) = self.flight.remove(i);
        let Msg::Req(r) = m else { panic!("not a request") };
        let t = r.target as usize;
        self.at(t);
        let resp = block_on(self.nodes[t].request(&r));
        let (res, v) = resp.verif();
        let rid = self.next_id;
        self.next_id += 1;
        let ev = json!({"ev": "Request", "id": id, "node": t, "now": self.clock[t], "req": req_json(&r),
                        "rsp": {"res": res, "v": v}, "rid": rid, "ns": self.ns_json(t)});
        self.flight.push((rid, Msg::Resp(r, resp)));
        ev
    }

    /// deliver response `id` to the sender of its request
    pub fn deliver_resp(&mut self, id: u64) -> Value {
        let i = self.pos(id).expect("response id");
        let (_, m) = self.flight.remove(i);
        let Msg::Resp(r, p) = m else { panic!("not a response") };
        let s = r.index as usize;
        self.at(s);
        let (res, v) = p.verif();
        let reqs = match block_on(self.nodes[s].response(&r, &p)) {
            Ok(x) => x.unwrap_or_default(),
            Err(e) => return json!({"ev": "Panic", "what": "response returned Err", "msg": e.description}),
        };
        let out = self.put(reqs);
        json!({"ev": "Response", "id": id, "node": s, "now": self.clock[s], "req": req_json(&r), "rsp": {"res": res, "v": v},
               "out": out, "ns": self.ns_json(s)})
    }

    pub fn drop_msg(&mut self, id: u64) -> Value {
        let i = self.pos(id).expect("id");
        self.flight.remove(i);
        json!({"ev": "Drop", "id": id})
    }

    pub fn dup_msg(&mut self, id: u64) -> Value {
        let i = self.pos(id).expect("id");
        let copy = match &self.flight[i].1 {
            Msg::Req(r) => Msg::Req(clone_req(r)),
            Msg::Resp(r, p) => Msg::Resp(clone_req(r), clone_resp(p)),
        };
        let nid = self.next_id;
        self.next_id += 1;
        self.flight.push((nid, copy));
        json!({"ev": "Dup", "id": id, "new": nid})
    }

    /// Cluster::append at node n (the caller decides whether n is entitled to it)
    pub fn append(&mut self, n: usize, val: u64) -> Value {
        self.at(n);
        let was_leader = self.nodes[n].verif_is_leader();
        let reqs = match block_on(self.nodes[n].append(val, None)) {
            Ok(r) => r,
            Err(e) => return json!({"ev": "Panic", "what": "append returned Err", "msg": e.description}),
        };
        let out = self.put(reqs);
        json!({"ev": "Append", "node": n, "now": self.clock[n], "val": val, "was_leader": was_leader, "out": out, "ns": self.ns_json(n)})
    }

    /// the process of node n dies and comes back: a new Cluster over what ClusterStorage::new reads back
    pub fn restart(&mut self, n: usize) -> Value {
        self.at(n);
        let mem = self.nodes[n].storage.reopened();
        self.nodes[n] = Self::mk(&self.cfg, n as u64, mem);
        json!({"ev": "Restart", "node": n, "now": self.clock[n], "ns": self.ns_json(n)})
    }

    /// how far node n's clock must advance for process() to take the wanted branch (or for a pre-vote to
    /// find the follower's term timer expired)
    pub fn advance_for(&self, n: usize, want: &str) -> u64 {
        let v = self.nodes[n].verif_ns();
        let now = self.clock[n];
        let need = match want {
            "PreElection" => v.timer[n] + v.et,
            "TermTimeout" | "Expired" => v.timer[n] + self.cfg.tt + 1,
            "Heartbeat" => (0..v.timer.len()).filter(|p| *p != n).map(|p| v.timer[p] + self.cfg.hb + 1).max().unwrap_or(0),
            _ => now,
        };
        need.saturating_sub(now)
    }

    pub fn is_leader(&self, n: usize) -> bool {
        self.nodes[n].verif_is_leader()
    }
}
