//! Seeded random walks over the scheduler's choices, and replay of a given schedule (TLC counterexamples).
use crate::sim::*;
use serde_json::{Value, json};
use vcore::{Args, Rng, Trace};

fn settings(args: &Args) -> Settings {
    Settings { n: args.num("n", 3), ef: args.num("ef", 1000), hb: args.num("hb", 1000), tt: args.num("tt", 3000) }
}

pub fn run(args: &Args) {
    let seed = args.num("seed", 1);
    let first = args.num("first", 0);
    let runs = args.num("programs", 10);
    let steps = args.num("steps", 150);
    let work = args.str("work", "/verif/harness/target/scratch/vraft");
    let out = args.str("out", &format!("{work}/raft_trace.ndjson"));
    let w_drop = args.num("w-drop", 6);
    let w_dup = args.num("w-dup", 3);
    let w_proc = args.num("w-process", 16);
    let w_append = args.num("w-append", 8);
    let w_restart = args.num("w-restart", 0);
    let anywhere = args.num("append-anywhere", 0); // percent of appends issued at a non-leader (check-then-act window)
    let max_appends = args.num("max-appends", 6);
    // partitions: with this weight the scheduler isolates one node (or heals); while a node is isolated every
    // message to or from it is lost at the moment it would be delivered - the classic way to get divergent logs
    let w_part = args.num("w-partition", 0);
    // forks: re-run one program exactly up to step `fork-step` (same random stream), then continue `fork-count` times
    // with a fresh random stream each and a benign network (no loss, duplication or partition), so that the
    // consequences of whatever happened at that step unfold; each continuation is one run of the trace
    let fork_step = args.num("fork-step", 0);
    let fork_count = args.num("fork-count", 1);
    let fork_steps = args.num("fork-steps", 60);
    // adversarial continuation: the given node is cut off for the first two thirds of the continuation (the others elect a
    // leader and clients append there), then the network heals - what a wrong step on that node needs to become visible as
    // disagreement (99 = no isolation: benign continuation)
    let fork_isolate = args.num("fork-isolate", 99);
    std::fs::create_dir_all(&work).unwrap();
    let mut trace = Trace::create(&out);
    let (mut n_steps, mut n_deliver, mut n_drop, mut n_dup, mut n_proc, mut n_append, mut n_restart, mut n_leader_steps) = (0u64, 0u64, 0u64, 0u64, 0u64, 0u64, 0u64, 0u64);
    let forks = if fork_step > 0 { fork_count } else { 1 };
    for (run, fork) in (first..first + runs).flat_map(|r| (0..forks).map(move |f| (r, f))) {
        let (mut w_drop, mut w_dup, mut w_part) = (w_drop, w_dup, w_part);
        let mut rng = Rng::new(seed.wrapping_mul(1_000_003).wrapping_add(run).wrapping_add(330_001));
        let cfg = settings(args);
        let n = cfg.n as usize;
        let advs = [0, 1, cfg.hb, cfg.hb + 1, cfg.ef, 2 * cfg.ef, cfg.tt, cfg.tt + 1];
        let mut sim = Sim::new(cfg);
        trace.emit(sim.reset_event());
        let mut val = 0u64;
        let mut appends = 0u64;
        let mut isolated: Option<u64> = None;
        let total_steps = if fork_step > 0 { fork_step + fork_steps } else { steps };
        for step_no in 0..total_steps {
            if fork_step > 0 && step_no == fork_step {
                rng = Rng::new(seed.wrapping_mul(7919).wrapping_add(run * 1000 + fork).wrapping_add(99));
                w_drop = 0;
                w_dup = 0;
                w_part = 0;
                isolated = if fork_isolate < n as u64 { Some(fork_isolate) } else { None };
                if fork_isolate < n as u64 { appends = appends.saturating_sub(3); }
            }
            if fork_step > 0 && fork_isolate < n as u64 && step_no == fork_step + (2 * fork_steps) / 3 {
                isolated = None;
            }
            if w_part > 0 && rng.below(1000) < w_part {
                isolated = if isolated.is_some() && rng.chance(2, 3) { None } else { Some(rng.below(n as u64)) };
            }
            let w_deliver = if sim.flight.is_empty() { 0 } else { 70 };
            let wd = if sim.flight.is_empty() { 0 } else { w_drop };
            let wu = if sim.flight.is_empty() || sim.flight.len() > 12 { 0 } else { w_dup };
            let leaders: Vec<usize> = (0..n).filter(|i| sim.is_leader(*i)).collect();
            let wa = if appends < max_appends && (!leaders.is_empty() || anywhere > 0) { w_append } else { 0 };
            let total = w_deliver + wd + wu + w_proc + wa + w_restart;
            let mut x = rng.below(total);
            let ev: Value;
            if x < w_deliver {
                let (id, is_req, a, b) = { let m = rng.pick(&sim.flight); let (a, b) = ends(&m.1); (m.0, matches!(m.1, Msg::Req(_)), a, b) };
                if isolated.is_some() && (isolated == Some(a) || isolated == Some(b)) {
                    ev = sim.drop_msg(id);
                    n_drop += 1;
                } else {
                    ev = if is_req { sim.deliver_req(id) } else { sim.deliver_resp(id) };
                    n_deliver += 1;
                }
            } else {
                x -= w_deliver;
                if x < wd {
                    let id = rng.pick(&sim.flight).0;
                    ev = sim.drop_msg(id);
                    n_drop += 1;
                } else {
                    x -= wd;
                    if x < wu {
                        let id = rng.pick(&sim.flight).0;
                        ev = sim.dup_msg(id);
                        n_dup += 1;
                    } else {
                        x -= wu;
                        if x < w_proc {
                            let node = rng.below(n as u64) as usize;
                            let adv = *rng.pick(&advs);
                            ev = sim.process(node, adv);
                            n_proc += 1;
                        } else {
                            x -= w_proc;
                            if x < wa {
                                let node = if leaders.is_empty() || rng.below(100) < anywhere { rng.below(n as u64) as usize } else { *rng.pick(&leaders) };
                                val += 1;
                                appends += 1;
                                ev = sim.append(node, val);
                                n_append += 1;
                            } else {
                                let node = rng.below(n as u64) as usize;
                                ev = sim.restart(node);
                                n_restart += 1;
                            }
                        }
                    }
                }
            }
            let bad = ev["ev"] == "Panic";
            trace.emit(ev);
            n_steps += 1;
            if (0..n).any(|i| sim.is_leader(i)) { n_leader_steps += 1; }
            if bad { break; }
        }
    }
    trace.flush();
    println!("{}", json!({"first": first, "programs": runs, "steps": n_steps, "deliveries": n_deliver, "drops": n_drop, "dups": n_dup,
                          "process_calls": n_proc, "appends": n_append, "restarts": n_restart, "steps_with_a_leader": n_leader_steps,
                          "trace_events": trace.events}));
}

/// (sender, target) of the underlying request
fn ends(m: &Msg) -> (u64, u64) {
    let r = match m { Msg::Req(r) => r, Msg::Resp(r, _) => r };
    (r.index, r.target)
}

fn req_matches(m: &Msg, want: &Value, resp: bool) -> bool {
    let (r, p) = match m {
        Msg::Req(r) => (r, None),
        Msg::Resp(r, p) => (r, Some(p)),
    };
    if resp != p.is_some() { return false; }
    let j = req_json(r);
    for k in ["ty", "from", "to", "term", "li", "lt", "lc"] {
        if let Some(w) = want.get(k) { if &j[k] != w { return false; } }
    }
    if let Some(w) = want.get("es") { if &j["es"] != w { return false; } }
    if let (Some(p), Some(w)) = (p, want.get("res")) {
        if p.verif().0 != w.as_str().unwrap_or("") { return false; }
    }
    true
}

/// Replays a schedule: a JSON array of actions
///   {"a":"process","node":n,"adv":ms} | {"a":"req"|"resp"|"drop"|"dup","id":k | "match":{..}} |
///   {"a":"append","node":n,"val":v} | {"a":"restart","node":n}
/// and writes the trace; a step that cannot be executed (no such message) is reported and ends the replay.
pub fn replay(args: &Args) {
    let sched: Value = serde_json::from_str(&std::fs::read_to_string(args.str("schedule", "")).expect("schedule file")).expect("json");
    let out = args.str("out", "/verif/harness/target/scratch/vraft_replay.ndjson");
    let mut trace = Trace::create(&out);
    let mut sim = Sim::new(settings(args));
    trace.emit(sim.reset_event());
    let mut done = 0;
    let mut stuck = Value::Null;
    for a in sched.as_array().expect("array") {
        let kind = a["a"].as_str().unwrap_or("");
        let find = |sim: &Sim, resp: bool| -> Option<u64> {
            if let Some(id) = a.get("id").and_then(|x| x.as_u64()) { return sim.pos(id).map(|_| id); }
            let want = a.get("match").cloned().unwrap_or(json!({}));
            sim.flight.iter().find(|m| req_matches(&m.1, &want, resp)).map(|m| m.0)
        };
        let ev = match kind {
            "process" => {
                let n = a["node"].as_u64().unwrap() as usize;
                let adv = match a.get("want").and_then(|w| w.as_str()) {
                    // advance node n's clock just far enough for the wanted process() branch
                    Some(w) => sim.advance_for(n, w),
                    None => a["adv"].as_u64().unwrap_or(0),
                };
                sim.process(n, adv)
            }
            "advance" => {
                let n = a["node"].as_u64().unwrap() as usize;
                let adv = match a.get("want").and_then(|w| w.as_str()) { Some(w) => sim.advance_for(n, w), None => a["adv"].as_u64().unwrap_or(0) };
                sim.clock[n] += adv;
                done += 1;
                continue;
            }
            "append" => sim.append(a["node"].as_u64().unwrap() as usize, a["val"].as_u64().unwrap_or(1)),
            "restart" => sim.restart(a["node"].as_u64().unwrap() as usize),
            "req" => match find(&sim, false) { Some(id) => sim.deliver_req(id), None => { stuck = a.clone(); break; } },
            "resp" => match find(&sim, true) { Some(id) => sim.deliver_resp(id), None => { stuck = a.clone(); break; } },
            "drop" => {
                let id = match a.get("kind").and_then(|k| k.as_str()) { Some("req") => find(&sim, false), Some("resp") => find(&sim, true), _ => find(&sim, false).or_else(|| find(&sim, true)) };
                match id { Some(id) => sim.drop_msg(id), None => { stuck = a.clone(); break; } }
            }
            "dup" => {
                let id = match a.get("kind").and_then(|k| k.as_str()) { Some("req") => find(&sim, false), Some("resp") => find(&sim, true), _ => find(&sim, false).or_else(|| find(&sim, true)) };
                match id { Some(id) => sim.dup_msg(id), None => { stuck = a.clone(); break; } }
            }
            _ => { stuck = a.clone(); break; }
        };
        trace.emit(ev);
        done += 1;
    }
    trace.flush();
    let finals: Vec<Value> = (0..sim.cfg.n as usize).map(|i| sim.ns_json(i)).collect();
    println!("{}", json!({"steps_done": done, "stuck_at": stuck, "final": finals}));
}
