//! C04 driver: random histories of storage-layer operations on the real Storage<D> (hook H2) for the
//! three back-ends, with the projection (record table, free list, length, every live value) after
//! every operation; validated by StorageAllocTrace.tla.
use agdb::verif::VStorage;
use agdb::{FileStorage, FileStorageMemoryMapped, MemoryStorage, StorageData};
use serde_json::{Value, json};
use vcore::{Args, Rng, Trace};

fn projection<D: StorageData>(s: &VStorage<D>) -> Value {
    let recs = s.records();
    let vals: Vec<Value> = recs.iter().map(|(i, _, _)| match s.value_as_bytes(*i) {
        Ok(b) => json!([i, b]),
        Err(e) => json!([i, {"error": e.description}]),
    }).collect();
    json!({"recs": recs.iter().map(|(i, p, z)| json!([i, p, z])).collect::<Vec<_>>(),
           "free": s.free_regions().iter().map(|(p, z)| json!([p, z])).collect::<Vec<_>>(),
           "len": s.len(), "vals": vals})
}

fn emit<D: StorageData>(trace: &mut Trace, mut head: Value, ok: bool, s: &VStorage<D>) {
    let o = head.as_object_mut().unwrap();
    o.insert("ok".into(), json!(ok));
    for (k, v) in projection(s).as_object().unwrap() {
        o.insert(k.clone(), v.clone());
    }
    trace.emit(head);
}

trait Backend: StorageData {
    const NAME: &'static str;
    const IN_MEMORY: bool;
}
impl Backend for MemoryStorage { const NAME: &'static str = "memory"; const IN_MEMORY: bool = true; }
impl Backend for FileStorage { const NAME: &'static str = "file"; const IN_MEMORY: bool = false; }
impl Backend for FileStorageMemoryMapped { const NAME: &'static str = "mapped"; const IN_MEMORY: bool = false; }

fn run_program<D: Backend>(rng: &mut Rng, trace: &mut Trace, path: &str, ops: u64, wd: &vcore::Watchdog, stats: &mut [u64; 10]) {
    let _ = std::fs::remove_file(path);
    let _ = std::fs::remove_file(crate::wal::wal_name(path));
    let mut s = VStorage::<D>::new(path).expect("new storage");
    trace.emit(json!({"ev": "Reset", "backend": D::NAME}));
    let mut fill = 0u8;
    let mut removed: Vec<u64> = vec![];
    let mut val = |rng: &mut Rng, max: u64| -> Vec<u8> {
        let n = match rng.below(8) { 0 => 0, 1 => 8, 2 => 16, _ => rng.below(max + 1) } as usize;
        fill = if fill >= 250 { 1 } else { fill + 1 };
        vec![fill; n]
    };
    for step in 0..ops {
        wd.kick(&format!("storage operation {step}"));
        let recs = s.records();
        let some = if recs.is_empty() { None } else { Some(*rng.pick(&recs)) };
        // an index that does not exist every now and then
        let idx_of = |_rng: &mut Rng, r: (u64, u64, u64)| r.0;
        match rng.below(100) {
            0..=21 => {
                if recs.len() >= 8 { continue; }
                let b = val(rng, 40);
                let r = s.insert_bytes(&b);
                stats[0] += 1;
                emit(trace, json!({"ev": "Insert", "bytes": b, "index": r.as_ref().copied().unwrap_or(0)}), r.is_ok(), &s);
            }
            22..=33 if some.is_some() => {
                let r0 = some.unwrap();
                let i = idx_of(rng, r0);
                let off = rng.below(r0.2 + 12);
                let b = val(rng, 24);
                let r = s.insert_bytes_at(i, off, &b);
                stats[1] += 1;
                emit(trace, json!({"ev": "InsertAt", "index": i, "off": off, "bytes": b}), r.is_ok(), &s);
            }
            34..=47 if some.is_some() => {
                let i = idx_of(rng, some.unwrap());
                let b = val(rng, 48);
                let r = s.replace_with_bytes(i, &b);
                stats[2] += 1;
                emit(trace, json!({"ev": "Replace", "index": i, "bytes": b}), r.is_ok(), &s);
            }
            48..=59 if some.is_some() => {
                let r0 = some.unwrap();
                let i = idx_of(rng, r0);
                let n = if rng.chance(1, 5) { 0 } else { rng.below(r0.2 + 24) };
                let r = s.resize_value(i, n);
                stats[3] += 1;
                emit(trace, json!({"ev": "Resize", "index": i, "n": n}), r.is_ok(), &s);
            }
            60..=69 if some.is_some() => {
                let r0 = some.unwrap();
                let i = idx_of(rng, r0);
                let from = rng.below(r0.2 + 1);
                let n = if rng.chance(1, 12) { r0.2 + 3 } else { rng.below(r0.2 - from + 1) };
                let to = rng.below(r0.2 + 8);
                let r = s.move_at(i, from, to, n);
                stats[4] += 1;
                emit(trace, json!({"ev": "MoveAt", "index": i, "from": from, "to": to, "n": n}), r.is_ok(), &s);
            }
            70..=82 if some.is_some() => {
                let i = idx_of(rng, some.unwrap());
                let r = s.remove(i);
                if r.is_ok() { removed.push(i); }
                stats[5] += 1;
                emit(trace, json!({"ev": "Remove", "index": i}), r.is_ok(), &s);
            }
            83..=88 => {
                let r = s.optimize_storage();
                stats[6] += 1;
                emit(trace, json!({"ev": "Optimize"}), r.is_ok(), &s);
            }
            89..=95 => {
                // reopen: the record table and the free list are rebuilt from the file
                if D::IN_MEMORY {
                    let raw = s.raw().expect("raw");
                    std::fs::write(path, raw).unwrap();
                }
                drop(s);
                match VStorage::<D>::new(path) {
                    Ok(n) => { s = n; }
                    Err(e) => { trace.emit(json!({"ev": "OpenFailed", "err": e.description})); return; }
                }
                if D::IN_MEMORY { let _ = std::fs::remove_file(path); }
                stats[7] += 1;
                emit(trace, json!({"ev": "Reopen"}), true, &s);
            }
            _ => {
                let live: Vec<u64> = recs.iter().map(|r| r.0).collect();
                let cands: Vec<u64> = removed.iter().copied().filter(|i| !live.contains(i)).collect();
                if cands.is_empty() { continue; }
                let i = *rng.pick(&cands);
                let r = s.value_as_bytes(i);
                stats[8] += 1;
                trace.emit(json!({"ev": "ReadRemoved", "index": i, "ok": r.is_ok()}));
            }
        }
        trace.flush();
    }
    drop(s);
    let _ = std::fs::remove_file(path);
    let _ = std::fs::remove_file(crate::wal::wal_name(path));
}

pub fn main(args: &Args) {
    let seed = args.num("seed", 1);
    let first = args.num("first", 0);
    let programs = args.num("programs", 10);
    let ops = args.num("ops", 60);
    let work = args.str("work", "/verif/harness/target/scratch/alloc");
    let out = args.str("out", &format!("{work}/alloc_trace.ndjson"));
    std::fs::create_dir_all(&work).unwrap();
    std::panic::set_hook(Box::new(|_| {}));
    let mut trace = Trace::create(&out);
    let wd = vcore::Watchdog::start(20, &out);
    let mut stats = [0u64; 10];
    for n in first..first + programs {
        let mut rng = Rng::new(seed.wrapping_mul(1_000_003).wrapping_add(n).wrapping_add(4040));
        let path = format!("{work}/a{n}.agdb");
        let r = std::panic::catch_unwind(std::panic::AssertUnwindSafe(|| match n % 3 {
            0 => run_program::<MemoryStorage>(&mut rng, &mut trace, &path, ops, &wd, &mut stats),
            1 => run_program::<FileStorage>(&mut rng, &mut trace, &path, ops, &wd, &mut stats),
            _ => run_program::<FileStorageMemoryMapped>(&mut rng, &mut trace, &path, ops, &wd, &mut stats),
        }));
        if let Err(p) = r {
            let msg = p.downcast_ref::<String>().cloned().or_else(|| p.downcast_ref::<&str>().map(|s| s.to_string())).unwrap_or_default();
            trace.emit(json!({"ev": "Panic", "program": n, "msg": msg}));
        }
    }
    trace.flush();
    println!("{}", serde_json::to_string(&json!({
        "first": first, "programs": programs, "insert": stats[0], "insert_at": stats[1], "replace": stats[2], "resize": stats[3],
        "move_at": stats[4], "remove": stats[5], "optimize": stats[6], "reopen": stats[7], "read_removed": stats[8],
        "trace_events": trace.events,
    })).unwrap());
}
