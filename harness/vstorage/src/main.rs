mod alloc;
mod map;
mod wal;
use vcore::Args;

fn main() {
    let args = Args::from_env();
    match args.cmd().as_str() {
        "wal" => wal::main(&args),
        "map" => map::main(&args),
        "alloc" => alloc::main(&args),
        "wal-images" => wal::images_main(&args),
        other => {
            eprintln!("unknown subcommand {other:?}");
            std::process::exit(2);
        }
    }
}
