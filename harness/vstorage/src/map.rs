//! C19 driver: random operation histories on the real MultiMapStorage<u64, u64> (VMap, hook H2)
//! with the full slot table logged after every operation (HashMapTrace.tla).
use agdb::verif::VMap;
use agdb::{FileStorage, MemoryStorage, StorageData};
use serde_json::{Value, json};
use vcore::{Args, Rng, Trace};

fn slots_json<D: StorageData>(m: &VMap<D>) -> Value {
    match m.slots() {
        Ok(s) => Value::Array(s.iter().map(|(st, k, v)| json!([st, k, v])).collect()),
        Err(e) => json!({"error": e.description}),
    }
}

fn run_program<D: StorageData>(rng: &mut Rng, trace: &mut Trace, path: &str, ops: u64, stats: &mut [u64; 6], wd: &vcore::Watchdog) {
    let _ = std::fs::remove_file(path);
    let mut m = match VMap::<D>::new(path) {
        Ok(m) => m,
        Err(e) => {
            trace.emit(json!({"ev": "OpenFailed", "err": e.description}));
            return;
        }
    };
    trace.emit(json!({"ev": "Reset"}));
    // keys: a few residues mod 64 so that probe chains collide, in three "generations" so that
    // grown tables (128, 256) still see collisions; churn profile decides how quickly tombstones pile up
    let churn = rng.below(3);
    let nkeys = match churn { 0 => 6, 1 => 24, _ => 90 };
    let keys: Vec<u64> = (0..nkeys).map(|i| (i % 8) * 3 + 64 * (i / 8) + if churn == 2 { i } else { 0 }).collect();
    let mut live: Vec<(u64, u64)> = vec![];
    // phases shift the insert/remove balance so that tables grow to 128/256 slots and shrink back
    let phased = rng.chance(1, 2);
    for step in 0..ops {
        let k = *rng.pick(&keys);
        let v = rng.below(3);
        let phase = (step / 70) % 3;
        wd.kick(&format!("map operation {step} on key {k}"));
        let pick = if !phased { rng.below(10) } else if phase == 0 { *rng.pick(&[0, 0, 0, 0, 0, 1, 3, 3, 7, 9]) }
                   else if phase == 1 { rng.below(10) } else { *rng.pick(&[0, 5, 5, 5, 7, 7, 7, 7, 8, 9]) };
        let (ev, r): (Value, Result<Value, agdb::DbError>) = match pick {
            0..=2 => {
                stats[0] += 1;
                live.push((k, v));
                (json!({"ev": "Insert", "k": k, "v": v}), m.insert(k, v).map(|_| json!({})))
            }
            3..=4 => {
                stats[1] += 1;
                let old = rng.below(3);
                let r = m.insert_or_replace(k, old, v);
                if let Ok(ret) = &r {
                    if ret.is_some() { if let Some(p) = live.iter().position(|x| *x == (k, old)) { live[p] = (k, v); } } else { live.push((k, v)); }
                }
                (json!({"ev": "InsertOrReplace", "k": k, "old": old, "v": v}), r.map(|x| json!({"replaced": x.is_some()})))
            }
            5..=6 => {
                stats[2] += 1;
                // prefer keys that exist
                let k = if !live.is_empty() && rng.chance(3, 4) { rng.pick(&live).0 } else { k };
                live.retain(|x| x.0 != k);
                (json!({"ev": "RemoveKey", "k": k}), m.remove_key(k).map(|_| json!({})))
            }
            7..=8 => {
                stats[3] += 1;
                let (k, v) = if !live.is_empty() && rng.chance(3, 4) { *rng.pick(&live) } else { (k, v) };
                if let Some(p) = live.iter().position(|x| *x == (k, v)) { live.remove(p); }
                (json!({"ev": "RemoveValue", "k": k, "v": v}), m.remove_value(k, v).map(|_| json!({})))
            }
            _ => {
                stats[4] += 1;
                (json!({"ev": "Values", "k": k}), m.values(k).map(|x| json!({"res": x})))
            }
        };
        let mut ev = ev;
        let is_lookup = ev["ev"] == "Values";
        let o = ev.as_object_mut().unwrap();
        match r {
            Ok(extra) => {
                o.insert("ok".into(), json!(true));
                for (a, b) in extra.as_object().unwrap() { o.insert(a.clone(), b.clone()); }
            }
            Err(e) => {
                o.insert("ok".into(), json!(false));
                o.insert("err".into(), json!(e.description));
            }
        }
        if !is_lookup {
            o.insert("slots".into(), slots_json(&m));
            o.insert("len".into(), json!(m.len()));
            if m.capacity() > 64 { stats[5] += 1; }
        }
        trace.emit(ev);
        trace.flush(); // a hang in the next operation must leave the history on disk
    }
}

pub fn main(args: &Args) {
    let seed = args.num("seed", 1);
    let first = args.num("first", 0);
    let programs = args.num("programs", 10);
    let ops = args.num("ops", 300);
    let work = args.str("work", "/verif/harness/target/scratch/map");
    let out = args.str("out", &format!("{work}/map_trace.ndjson"));
    std::fs::create_dir_all(&work).unwrap();
    std::panic::set_hook(Box::new(|_| {}));
    let mut trace = Trace::create(&out);
    let wd = vcore::Watchdog::start(10, &out);
    let mut stats = [0u64; 6];
    for n in first..first + programs {
        let mut rng = Rng::new(seed.wrapping_mul(1_000_003).wrapping_add(n).wrapping_add(77));
        let path = format!("{work}/m{n}.agdb");
        let r = std::panic::catch_unwind(std::panic::AssertUnwindSafe(|| {
            if n % 4 == 3 { run_program::<FileStorage>(&mut rng, &mut trace, &path, ops, &mut stats, &wd) }
            else { run_program::<MemoryStorage>(&mut rng, &mut trace, &path, ops, &mut stats, &wd) }
        }));
        if r.is_err() {
            trace.emit(json!({"ev": "Panic", "program": n}));
        }
        let _ = std::fs::remove_file(&path);
        let _ = std::fs::remove_file(crate::wal::wal_name(&path));
    }
    trace.flush();
    println!("{}", serde_json::to_string(&json!({
        "first": first, "programs": programs, "inserts": stats[0], "insert_or_replace": stats[1], "remove_key": stats[2],
        "remove_value": stats[3], "lookups": stats[4], "ops_on_grown_table": stats[5], "trace_events": trace.events,
    })).unwrap());
}
