//! C01 driver: random Storage-level programs on FileStorage / FileStorageMemoryMapped with the
//! fs hook installed. At every mutating file-system call (the hook fires BEFORE the call):
//!   * both files are read from disk = one crash point; every strict byte-prefix of a pending
//!     write is a further (torn) crash point;
//!   * each crash image is written to a scratch pair and opened with the real FileStorage::new;
//!     the recovered bytes must equal the image at the last completed outermost transaction;
//!   * the system call is appended to the ndjson trace that WalTrace.tla validates.
use agdb::verif::{FsEvent, VStorage, set_fs_hook};
use agdb::{FileStorage, FileStorageMemoryMapped, StorageData};
use serde_json::{Value, json};
use std::cell::RefCell;
use std::collections::HashSet;
use std::rc::Rc;
use vcore::{Args, Rng, Trace, fnv};

pub fn wal_name(path: &str) -> String {
    let pos = path.rfind('/').map(|p| p + 1).unwrap_or(0);
    let mut s = path.to_string();
    s.insert(pos, '.');
    s
}

pub struct Ctx {
    pub data_path: String,
    pub probe_path: String,
    pub trace: Trace,
    pub committed: Vec<u8>,
    pub muted: bool,
    pub hook_no: u64,
    pub crash_at: Option<u64>,  // stash a crash image at this hook number of the program
    pub crash_torn: u64,        // how many bytes of the pending write reach the disk (0 = none)
    pub stash: Option<(Vec<u8>, Vec<u8>, Value)>,
    pub crash_points: u64,
    pub torn_points: u64,
    pub nontrivial: u64,
    pub distinct: HashSet<u64>,
    pub mismatches: Vec<Value>,
    pub program: u64,
    pub syscalls: u64,
    pub sample_images: Vec<Value>,
    /// big mode: values of 64 KiB .. 200 KB; torn prefixes are sampled, the trace is not recorded (byte strings of this
    /// size are out of TLC's reach), the verdict is the byte comparison recovered == committed at every crash point
    pub big: bool,
}

fn read_or_empty(p: &str) -> Vec<u8> {
    std::fs::read(p).unwrap_or_default()
}

/// Opens the crash image with the real recovery code and returns what it yields.
pub fn recover(probe_path: &str, data: &[u8], wal: &[u8]) -> Result<Vec<u8>, String> {
    std::fs::write(probe_path, data).map_err(|e| e.to_string())?;
    std::fs::write(wal_name(probe_path), wal).map_err(|e| e.to_string())?;
    let r = std::panic::catch_unwind(|| -> Result<Vec<u8>, String> {
        let s = FileStorage::new(probe_path).map_err(|e| format!("open error: {}", e.description))?;
        let len = s.len();
        let bytes = s.read(0, len).map_err(|e| format!("read error: {}", e.description))?.to_vec();
        drop(s);
        // what is on disk after recovery must be the same thing
        let disk = std::fs::read(probe_path).map_err(|e| e.to_string())?;
        if disk != bytes {
            return Err("recovered view differs from file on disk".to_string());
        }
        Ok(bytes)
    });
    match r {
        Ok(x) => x,
        Err(_) => Err("panic during recovery".to_string()),
    }
}

fn patch(d: &[u8], pos: usize, b: &[u8]) -> Vec<u8> {
    let mut v = d.to_vec();
    if v.len() < pos + b.len() {
        v.resize(pos + b.len(), 0);
    }
    v[pos..pos + b.len()].copy_from_slice(b);
    v
}

impl Ctx {
    fn check_image(&mut self, data: &[u8], wal: &[u8], what: &str, torn: bool, ev: &Value) -> Option<Vec<u8>> {
        self.crash_points += 1;
        if torn {
            self.torn_points += 1;
        }
        let mut key = data.to_vec();
        key.push(0xfe);
        key.extend_from_slice(wal);
        let new = self.distinct.insert(fnv(&key));
        if new && !wal.is_empty() && data != self.committed.as_slice() {
            self.nontrivial += 1; // log non-empty AND data already differs from the committed image
        }
        let rec = recover(&self.probe_path, data, wal);
        let ok = match &rec {
            Ok(b) => *b == self.committed,
            Err(_) => false,
        };
        if !ok && self.big {
            let rl = match &rec { Ok(b) => json!(b.len()), Err(e) => json!(e) };
            let first_diff = match &rec { Ok(b) => b.iter().zip(self.committed.iter()).position(|(x, y)| x != y), Err(_) => None };
            self.mismatches.push(json!({"program": self.program, "hook": self.hook_no, "at": what, "torn": torn,
                "event": ev.get("ev"), "data_len": data.len(), "wal_len": wal.len(), "committed_len": self.committed.len(),
                "recovered_len": rl, "first_differing_offset": first_diff}));
        } else if !ok && self.mismatches.len() < 50 {
            self.mismatches.push(json!({
                "program": self.program, "hook": self.hook_no, "at": what, "torn": torn, "event": ev,
                "data": data, "wal": wal, "committed": self.committed,
                "recovered": match &rec { Ok(b) => json!(b), Err(e) => json!(e) },
            }));
        } else if !ok {
            self.mismatches.push(json!({"program": self.program, "hook": self.hook_no, "at": what}));
        }
        if new && !self.big && self.sample_images.len() < 3 && !wal.is_empty() && torn {
            self.sample_images.push(json!({"program": self.program, "before": ev, "data_len": data.len(), "wal": wal}));
        }
        rec.ok()
    }

    fn on_event(&mut self, e: &FsEvent) {
        let (ev, is_mut) = match e {
            FsEvent::WalWrite { bytes } if self.big => (json!({"ev": "WalWrite", "len": bytes.len()}), true),
            FsEvent::DataWrite { pos, bytes } if self.big => (json!({"ev": "DataWrite", "pos": pos, "len": bytes.len()}), true),
            FsEvent::WalWrite { bytes } => (json!({"ev": "WalWrite", "bytes": bytes}), true),
            FsEvent::WalSetLen { len } => (json!({"ev": "WalSetLen", "len": len}), true),
            FsEvent::DataWrite { pos, bytes } => (json!({"ev": "DataWrite", "pos": pos, "bytes": bytes}), true),
            FsEvent::DataSetLen { len } => (json!({"ev": "DataSetLen", "len": len}), true),
            _ => (Value::Null, false),
        };
        if !is_mut || self.muted {
            return;
        }
        self.hook_no += 1;
        self.syscalls += 1;
        let data = read_or_empty(&self.data_path);
        let wal = read_or_empty(&wal_name(&self.data_path));
        // the clean crash point: state before this system call
        let rec = self.check_image(&data, &wal, "before", false, &ev);
        if !self.big { self.trace.emit(json!({"ev": "Probe", "ok": rec.is_some(), "rec": rec.unwrap_or_default()})); }
        // torn crash points: every strict prefix of a pending write (big mode: a sample - the ends, the middle, and
        // both sides of every 64 KiB boundary)
        let ks = |n: usize| -> Vec<usize> {
            if n <= 256 { return (1..n).collect(); }
            let mut v = vec![1, 2, 15, 16, 17, n / 2, n - 2, n - 1];
            let mut b = 65536;
            while b < n + 1 { for k in [b - 1, b, b + 1] { if k < n { v.push(k); } } b += 65536; }
            v.sort(); v.dedup(); v
        };
        match e {
            FsEvent::WalWrite { bytes } if self.big => {
                for k in ks(bytes.len()) {
                    let mut w = wal.clone();
                    w.extend_from_slice(&bytes[..k]);
                    self.check_image(&data, &w, "torn-wal", true, &ev);
                }
            }
            FsEvent::DataWrite { pos, bytes } if self.big => {
                for k in ks(bytes.len()) {
                    let d = patch(&data, *pos as usize, &bytes[..k]);
                    self.check_image(&d, &wal, "torn-data", true, &ev);
                }
            }
            FsEvent::WalWrite { bytes } => {
                for k in 1..bytes.len() {
                    let mut w = wal.clone();
                    w.extend_from_slice(&bytes[..k]);
                    self.check_image(&data, &w, "torn-wal", true, &ev);
                }
            }
            FsEvent::DataWrite { pos, bytes } => {
                for k in 1..bytes.len() {
                    let d = patch(&data, *pos as usize, &bytes[..k]);
                    self.check_image(&d, &wal, "torn-data", true, &ev);
                }
            }
            _ => {}
        }
        if self.crash_at == Some(self.hook_no) {
            // the process dies here; optionally part of the pending write reached the disk
            let (d, w, torn) = match e {
                FsEvent::WalWrite { bytes } if self.crash_torn > 0 && bytes.len() > 1 => {
                    let k = 1 + (self.crash_torn as usize - 1) % (bytes.len() - 1);
                    let mut w = wal.clone();
                    w.extend_from_slice(&bytes[..k]);
                    (data.clone(), w, json!({"file": "wal", "bytes": &bytes[..k]}))
                }
                FsEvent::DataWrite { pos, bytes } if self.crash_torn > 0 && bytes.len() > 1 => {
                    let k = 1 + (self.crash_torn as usize - 1) % (bytes.len() - 1);
                    (patch(&data, *pos as usize, &bytes[..k]), wal.clone(),
                     json!({"file": "data", "pos": pos, "bytes": &bytes[..k]}))
                }
                _ => (data.clone(), wal.clone(), json!({"file": "none"})),
            };
            self.stash = Some((d, w, torn));
            self.muted = true;
            return;
        }
        self.trace.emit(ev);
    }
}

trait Backend: StorageData + 'static {
    const NAME: &'static str;
}
impl Backend for FileStorage {
    const NAME: &'static str = "file";
}
impl Backend for FileStorageMemoryMapped {
    const NAME: &'static str = "mapped";
}

struct Prog<D: Backend> {
    s: Option<VStorage<D>>,
    tx: Vec<u64>,
    fill: u8,
}

fn call<D: Backend, R>(ctx: &Rc<RefCell<Ctx>>, p: &mut Prog<D>, name: &str, args: Value, tx: i64,
                       f: impl FnOnce(&mut VStorage<D>) -> Result<R, agdb::DbError>) -> Option<R> {
    ctx.borrow_mut().trace.emit(json!({"ev": "Call", "op": name, "args": args, "tx": tx}));
    let s = p.s.as_mut().unwrap();
    let r = std::panic::catch_unwind(std::panic::AssertUnwindSafe(|| f(s)));
    let mut c = ctx.borrow_mut();
    if c.muted {
        return None; // crashed inside this call; nothing after the crash point is part of the history
    }
    match r {
        Ok(Ok(v)) => {
            c.trace.emit(json!({"ev": "Ret", "ok": true}));
            Some(v)
        }
        Ok(Err(e)) => {
            c.trace.emit(json!({"ev": "Ret", "ok": false, "err": e.description}));
            None
        }
        Err(_) => {
            c.trace.emit(json!({"ev": "Panic", "op": name}));
            None
        }
    }
}

thread_local! { static BIG: std::cell::Cell<bool> = const { std::cell::Cell::new(false) }; }
const BIG_SIZES: [u64; 10] = [65_519, 65_535, 65_536, 65_537, 70_000, 100_000, 131_072, 131_073, 150_001, 200_000];

fn value(rng: &mut Rng, fill: &mut u8, max: u64) -> Vec<u8> {
    if BIG.with(|b| b.get()) && rng.chance(1, 3) {
        *fill = if *fill >= 250 { 1 } else { *fill + 1 };
        return vec![*fill; *rng.pick(&BIG_SIZES) as usize];
    }
    let n = match rng.below(10) {
        0 => 0,
        1 => 8,
        2 => 16,
        _ => rng.below(max + 1),
    } as usize;
    *fill = if *fill >= 250 { 1 } else { *fill + 1 };
    vec![*fill; n]
}

fn run_program<D: Backend>(ctx: &Rc<RefCell<Ctx>>, rng: &mut Rng, nops: u64, work: &str, prog_no: u64) {
    let path = format!("{work}/p{prog_no}.agdb");
    let _ = std::fs::remove_file(&path);
    let _ = std::fs::remove_file(wal_name(&path));
    {
        let mut c = ctx.borrow_mut();
        c.data_path = path.clone();
        c.committed = vec![];
        c.muted = false;
        c.hook_no = 0;
        c.program = prog_no;
        c.stash = None;
        // about half of the programs die once at a random system call and continue after recovery
        c.crash_at = if rng.chance(1, 2) { Some(rng.range(1, 12 * nops)) } else { None };
        c.crash_torn = if rng.chance(1, 2) { rng.range(1, 64) } else { 0 };
        c.trace.emit(json!({"ev": "Reset", "backend": D::NAME, "program": prog_no}));
    }
    let mut p: Prog<D> = Prog { s: None, tx: vec![], fill: 0 };
    open::<D>(ctx, &mut p, &path);
    let mut i = 0;
    while i < nops {
        i += 1;
        if ctx.borrow().stash.is_some() {
            crash_and_reopen::<D>(ctx, &mut p, &path);
            continue;
        }
        if p.s.is_none() {
            break;
        }
        let recs = p.s.as_ref().unwrap().records();
        let udepth = p.tx.len();
        let pick = rng.below(100);
        let some_rec = if recs.is_empty() { None } else { Some(*rng.pick(&recs)) };
        match pick {
            0..=17 => {
                let v = value(rng, &mut p.fill, 40);
                call(ctx, &mut p, "insert", json!({"len": v.len()}), 0, |s| s.insert_bytes(&v));
            }
            18..=29 if some_rec.is_some() => {
                let (idx, _, size) = some_rec.unwrap();
                let off = rng.below(size + 10);
                let v = value(rng, &mut p.fill, 24);
                call(ctx, &mut p, "insert_at", json!({"i": idx, "off": off, "len": v.len()}), 0,
                     |s| s.insert_bytes_at(idx, off, &v));
            }
            30..=41 if some_rec.is_some() => {
                let (idx, _, _) = some_rec.unwrap();
                let v = value(rng, &mut p.fill, 48);
                call(ctx, &mut p, "replace", json!({"i": idx, "len": v.len()}), 0,
                     |s| s.replace_with_bytes(idx, &v));
            }
            42..=51 if some_rec.is_some() => {
                let (idx, _, size) = some_rec.unwrap();
                let n = if rng.chance(1, 4) { 0 } else { rng.below(size + 24) };
                call(ctx, &mut p, "resize", json!({"i": idx, "n": n}), 0, |s| s.resize_value(idx, n));
            }
            52..=61 if some_rec.is_some() => {
                let (idx, _, size) = some_rec.unwrap();
                let from = rng.below(size + 1);
                let len = rng.below(size - from + 1);
                let to = rng.below(size + 8);
                call(ctx, &mut p, "move_at", json!({"i": idx, "from": from, "to": to, "n": len}), 0,
                     |s| s.move_at(idx, from, to, len));
            }
            62..=71 if some_rec.is_some() => {
                let (idx, _, _) = some_rec.unwrap();
                call(ctx, &mut p, "remove", json!({"i": idx}), 0, |s| s.remove(idx));
            }
            72..=76 => {
                call(ctx, &mut p, "optimize", json!({}), 0, |s| s.optimize_storage());
            }
            77..=86 if udepth < 3 => {
                if let Some(id) = call(ctx, &mut p, "transaction", json!({}), 1, |s| Ok(s.transaction())) {
                    p.tx.push(id);
                }
            }
            87..=94 if udepth > 0 => {
                let id = *p.tx.last().unwrap();
                if call(ctx, &mut p, "commit", json!({"id": id}), -1, |s| s.commit(id)).is_some() {
                    p.tx.pop();
                } else if ctx.borrow().stash.is_none() {
                    p.tx.pop();
                }
            }
            95..=97 if udepth > 0 => {
                // drop the storage with an unfinished transaction, then reopen
                ctx.borrow_mut().trace.emit(json!({"ev": "Drop"}));
                let s = p.s.take();
                drop(s);
                p.tx.clear();
                if ctx.borrow().stash.is_some() {
                    crash_and_reopen::<D>(ctx, &mut p, &path);
                } else {
                    ctx.borrow_mut().trace.emit(json!({"ev": "Dropped"}));
                    open::<D>(ctx, &mut p, &path);
                }
            }
            98 if some_rec.is_some() => {
                // an index that does not exist: must fail without touching the files
                call(ctx, &mut p, "remove", json!({"i": 9999}), 0, |s| s.remove(9999));
            }
            _ => {
                i -= 1;
                continue;
            }
        }
        // completed outermost transaction => this is the new committed image
        let mut c = ctx.borrow_mut();
        if c.stash.is_none() && p.tx.is_empty() && p.s.is_some() {
            c.committed = read_or_empty(&path);
        }
    }
    if ctx.borrow().stash.is_some() {
        crash_and_reopen::<D>(ctx, &mut p, &path);
    }
    // end of program: close (drop) whatever state we are in and check the file once more
    if p.s.is_some() {
        if !p.tx.is_empty() {
            ctx.borrow_mut().trace.emit(json!({"ev": "Drop"}));
        } else {
            ctx.borrow_mut().trace.emit(json!({"ev": "Close"}));
        }
        let s = p.s.take();
        drop(s);
        if ctx.borrow().stash.is_some() {
            // died inside drop: recover once more
            crash_and_reopen::<D>(ctx, &mut p, &path);
            if p.s.is_some() {
                ctx.borrow_mut().trace.emit(json!({"ev": "Close"}));
            }
            let s = p.s.take();
            drop(s);
        }
        let mut c = ctx.borrow_mut();
        c.muted = true;
        let data = read_or_empty(&path);
        let wal = read_or_empty(&wal_name(&path));
        let ev = json!({"ev": "Closed"});
        c.hook_no += 1;
        let rec = c.check_image(&data, &wal, "after-close", false, &ev);
        c.trace.emit(json!({"ev": "Closed", "ok": rec.is_some(), "rec": rec.unwrap_or_default()}));
    }
    let _ = std::fs::remove_file(&path);
    let _ = std::fs::remove_file(wal_name(&path));
}

fn open<D: Backend>(ctx: &Rc<RefCell<Ctx>>, p: &mut Prog<D>, path: &str) {
    ctx.borrow_mut().trace.emit(json!({"ev": "Call", "op": "open", "args": {}, "tx": 0}));
    let r = std::panic::catch_unwind(|| VStorage::<D>::new(path));
    let mut c = ctx.borrow_mut();
    if c.muted {
        return;
    }
    match r {
        Ok(Ok(s)) => {
            p.s = Some(s);
            c.trace.emit(json!({"ev": "Ret", "ok": true}));
            c.committed = read_or_empty(path);
        }
        Ok(Err(e)) => {
            c.trace.emit(json!({"ev": "OpenFailed", "err": e.description}));
        }
        Err(_) => {
            c.trace.emit(json!({"ev": "Panic", "op": "open"}));
        }
    }
}

/// The process died at the stashed crash image: forget the live object, put the image on disk,
/// and run the real recovery (with the hook on, so crash points INSIDE recovery are probed too).
fn crash_and_reopen<D: Backend>(ctx: &Rc<RefCell<Ctx>>, p: &mut Prog<D>, path: &str) {
    let (d, w, torn) = ctx.borrow_mut().stash.take().unwrap();
    if let Some(s) = p.s.take() {
        std::mem::forget(s); // a dead process runs no destructors
    }
    p.tx.clear();
    std::fs::write(path, &d).unwrap();
    std::fs::write(wal_name(path), &w).unwrap();
    {
        let mut c = ctx.borrow_mut();
        c.muted = false;
        c.crash_at = None;
        c.trace.emit(json!({"ev": "Crash", "torn": torn}));
    }
    open::<D>(ctx, p, path);
}

pub fn main(args: &Args) {
    let seed = args.num("seed", 1);
    let programs = args.num("programs", 50);
    let nops = args.num("ops", 14);
    let work = args.str("work", "/verif/harness/target/scratch/wal");
    let out = args.str("out", &format!("{work}/wal_trace.ndjson"));
    let backend = args.str("backend", "both");
    std::fs::create_dir_all(&work).unwrap();
    let ctx = Rc::new(RefCell::new(Ctx {
        data_path: String::new(),
        probe_path: format!("{work}/probe.agdb"),
        trace: Trace::create(&out),
        committed: vec![],
        muted: true,
        hook_no: 0,
        crash_at: None,
        crash_torn: 0,
        stash: None,
        crash_points: 0,
        torn_points: 0,
        nontrivial: 0,
        distinct: HashSet::new(),
        mismatches: vec![],
        program: 0,
        syscalls: 0,
        sample_images: vec![],
        big: args.num("big", 0) == 1,
    }));
    if args.num("big", 0) == 1 {
        BIG.with(|b| b.set(true));
        ctx.borrow_mut().trace.mute = true;
    }
    let hc = ctx.clone();
    set_fs_hook(Some(Box::new(move |e: &FsEvent| {
        // events raised by the driver's own probes (context already borrowed) are not part of the run
        if let Ok(mut c) = hc.try_borrow_mut() {
            c.on_event(e);
        }
    })));
    // quiet panics of the code under test: they are data
    std::panic::set_hook(Box::new(|_| {}));
    let first = args.num("first", 0);
    for n in first..first + programs {
        // one independent generator per program, so programs can be run in any chunking
        let mut rng = Rng::new(seed.wrapping_mul(1_000_003).wrapping_add(n));
        let mapped = match backend.as_str() {
            "file" => false,
            "mapped" => true,
            _ => n % 3 == 2,
        };
        if mapped {
            run_program::<FileStorageMemoryMapped>(&ctx, &mut rng, nops, &work, n);
        } else {
            run_program::<FileStorage>(&ctx, &mut rng, nops, &work, n);
        }
    }
    set_fs_hook(None);
    let mut c = ctx.borrow_mut();
    c.trace.flush();
    let summary = json!({
        "first": first, "programs": programs, "ops_per_program": nops, "syscalls": c.syscalls,
        "crash_points": c.crash_points, "torn_points": c.torn_points,
        "distinct_images": c.distinct.len(), "nontrivial_distinct": c.nontrivial,
        "mismatch_count": c.mismatches.len(), "mismatches": c.mismatches.iter().take(10).collect::<Vec<_>>(),
        "trace": out, "trace_events": c.trace.events, "sample_images": c.sample_images,
    });
    println!("{}", serde_json::to_string(&summary).unwrap());
}

/// MBT, specification -> implementation: every distinct disk image (data, log cells) reachable in the
/// bounded WalStorage model, with the content the MODEL says recovery yields; the real
/// FileStorage::new must yield the same bytes.
pub fn images_main(args: &Args) {
    use std::io::BufRead;
    let input = args.str("in", "");
    let work = args.str("work", "/verif/harness/target/scratch/walimg");
    std::fs::create_dir_all(&work).unwrap();
    let probe = format!("{work}/img.agdb");
    let f = std::io::BufReader::new(std::fs::File::open(&input).expect("input"));
    let mut seen = HashSet::new();
    let (mut total, mut distinct, mut nontrivial, mut bad) = (0u64, 0u64, 0u64, 0u64);
    let mut mismatches: Vec<Value> = vec![];
    let mut samples: Vec<Value> = vec![];
    std::panic::set_hook(Box::new(|_| {}));
    for line in f.lines() {
        let line = line.unwrap();
        let v: Value = match serde_json::from_str(&line) {
            Ok(v) => v,
            Err(_) => continue,
        };
        total += 1;
        let arr = |k: &str| -> Vec<u64> {
            match &v[k] {
                Value::Array(a) => a.iter().map(|x| x.as_u64().unwrap()).collect(),
                _ => vec![],
            }
        };
        let (d, w, r) = (arr("d"), arr("w"), arr("r"));
        if !seen.insert((d.clone(), w.clone())) {
            continue;
        }
        distinct += 1;
        // encode the cells: pos (8 bytes LE), len (8 bytes LE), then `len` value bytes; an incomplete tail as far as it goes
        let mut wal: Vec<u8> = vec![];
        let mut i = 0;
        while i < w.len() {
            wal.extend_from_slice(&w[i].to_le_bytes());
            if i + 1 >= w.len() {
                break;
            }
            let n = w[i + 1] as usize;
            wal.extend_from_slice(&w[i + 1].to_le_bytes());
            let end = std::cmp::min(w.len(), i + 2 + n);
            for x in &w[i + 2..end] {
                wal.push(*x as u8);
            }
            i += 2 + n;
        }
        let data: Vec<u8> = d.iter().map(|x| *x as u8).collect();
        let expect: Vec<u8> = r.iter().map(|x| *x as u8).collect();
        if !w.is_empty() && expect != data {
            nontrivial += 1;
        }
        let got = recover(&probe, &data, &wal);
        let ok = matches!(&got, Ok(b) if *b == expect);
        if !ok {
            bad += 1;
            if mismatches.len() < 10 {
                mismatches.push(json!({"d": d, "w": w, "model_recovered": r,
                    "real_recovered": match &got { Ok(b) => json!(b), Err(e) => json!(e) }}));
            }
        } else if samples.len() < 3 && w.len() > 3 && expect != data {
            samples.push(json!({"d": d, "w": w, "recovered": r}));
        }
    }
    println!("{}", serde_json::to_string(&json!({"lines": total, "distinct_images": distinct,
        "nontrivial": nontrivial, "mismatch_count": bad, "mismatches": mismatches, "samples": samples})).unwrap());
}
