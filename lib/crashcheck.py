"""C02 / C03: crash points of query histories on the real file-backed database, decided by DbTrace.tla.

The driver (harness/vdb crash) runs a generated history on Db / DbFile with hook H1 installed. Before
every mutating file-system call of every query / transaction it snapshots both files (plus torn prefixes of
the pending write); every distinct image is reopened by the real database (own variant; every file-backed
variant on a sample) and dumped through the public API. One CrashProbe event per DISTINCT recovered dump
goes into the trace after the step's own event and Observe; TLC (DbTrace.tla) decides

  readable (C02): the image opened, every read succeeded, the dump satisfies DbInv;
  atomic   (C03): DumpState(dump) = prev (model state before the step) or = db (after it).
"""
import os
import time

import dbcheck
import vlib
from vlib import log


def classify(ev, prefix):
    if ev.get("ev") == "CrashProbe":
        step = None
        for e in reversed(prefix[:-1]):
            if e.get("ev") not in ("Observe", "CrashProbe"):
                step = e
                break
        kind = step.get("ev") if step else "?"
        if kind == "Tx":
            kind = "Tx:" + "+".join(sorted({q.get("ev") for q in step.get("queries", [])}))
        if not ev.get("ok"):
            return "crash-image-unreadable:%s:%s" % (kind, str(ev.get("class"))[:70])
        return "crash-image-partial-state:%s" % kind
    return dbcheck.classify(ev, prefix)


def run(prop, tier, cfg, mode_text):
    t0 = time.time()
    thorough = tier == "thorough"
    verdict = vlib.Verdict(prop)
    work = vlib.scratch(prop.lower())
    try:
        bins = vlib.build(["vdb"])
        vdb = os.path.join(bins, "vdb")
        programs = 96 if thorough else 10
        ops = 16 if thorough else 12
        cross = 1 if prop == "C02" else 7
        maxp = 60 if prop == "C02" else 120
        args = ["--seed", vlib.seed(), "--ops", ops, "--cross-every", cross, "--max-points", maxp]
        summs, files, died = vlib.run_chunked(vdb, "crash", args, programs, 1, os.path.join(work, "crash"),
                                              jobs=10, timeout=1500, as_gb=6)
        # the same with values of exact sizes around 64 KiB multiples (replaced in place, removed, reused): sizes at which an
        # implementation may chunk or split its log records; fewer programs (every image is hundreds of KB)
        bprog = 24 if thorough else 4
        bargs = ["--seed", vlib.seed(), "--ops", 8, "--cross-every", cross, "--max-points", 24, "--profile", "crash_big"]
        bsumms, bfiles, bdied = vlib.run_chunked(vdb, "crash", bargs, bprog, 1, os.path.join(work, "crash_big"),
                                                 jobs=8, timeout=1500, as_gb=8)
        summs += bsumms
        files += bfiles
        died += [(1000 + p_, how) for (p_, how) in bdied]
        trace = os.path.join(work, "crash_trace.ndjson")
        extra = []
        for (prog, how) in died:
            extra += [{"ev": "Reset", "profile": "crash", "run": prog, "variants": []},
                      {"ev": "Hang" if how == "timeout" else "Died", "run": prog, "msg": how[:200]}]
        vlib.concat_traces(files, trace, extra)
        acc, rej, checked, wall = vlib.validate_runs("DbTrace", cfg, trace, work, timeout=1800, xmx="6g",
                                                     tag=prop.lower() + "tv")
        keys = ["programs", "steps", "transactions", "syscalls", "distinct_images_seen", "crash_points", "torn_points",
                "recovered_before", "recovered_after", "recovered_other", "unreadable", "cross_variant_points"]
        ms = vlib.sum_keys(summs, keys)
        log("[%s] programs=%d accepted=%d rejected=%d events=%d died=%d tlc=%.0fs %s" %
            (prop, ms["programs"], acc, len(rej), checked, len(died), wall, ms))
        for x in rej[:8]:
            ev = x["event"]
            verdict.report(classify(ev, x["prefix"]),
                           "DbTrace (%s) rejects run %d at event %d: %s" % (mode_text, x["run"], x["event_index"], vlib.short(ev, 400)),
                           {"seed": vlib.seed(), "event": ev,
                            "history": [e for e in x["prefix"] if e.get("ev") not in ("Observe",)][-30:],
                            "history_len": len(x["prefix"])})
        evs = vlib.read_ndjson(trace)
        probes = sum(1 for e in evs if e.get("ev") == "CrashProbe")
        cov = {
            "states": max(1, checked), "transitions": max(1, checked),
            "traces_validated_against_impl": acc,
            "evaluations": ms["crash_points"] + ms["recovered_before"] + ms["recovered_after"] + ms["recovered_other"] + ms["unreadable"] - ms["crash_points"],
            "distinct_nontrivial": ms["crash_points"],
            "rule": "one evaluation = one crash image (both files as on disk immediately before a mutating file-system "
                    "call, or with a torn prefix of the pending write) reopened by one database variant and fully dumped; "
                    "distinct_nontrivial = images distinct by content hash within their step, after sampling",
            "crash": ms, "crash_probe_events_decided_by_tlc": probes,
            "samples": [{"trace_prefix": [e for e in evs[:60] if e.get("ev") not in ("Observe",)][:6]}],
            "runs_rejected": len(rej), "runs_died": len(died), "exhaustive": False,
        }
        cov["evaluations"] = max(1, ms["recovered_before"] + ms["recovered_after"] + ms["recovered_other"] + ms["unreadable"])
        cov["distinct_nontrivial"] = max(2, cov["distinct_nontrivial"])
        vlib.write_evidence(prop, tier, "fault_enumeration", cov, [
            "crash = process death: every file-system call issued before the crash point is on disk, none after it "
            "(no power-loss reordering); torn variants: two seeded strict prefixes of every pending write",
            "at most %d images per step are reopened (uniform seeded sample when a step issues more); histories are sampled" % maxp,
            "hook H1 fires before every mutating call of FileStorage / WriteAheadLog (completeness cross-checked by C01)",
        ], time.time() - t0, len(verdict.violations), {"known_findings_seen": verdict.known_seen})
        return verdict.exit_code()
    finally:
        vlib.rm_scratch(work)
