"""Shared driver for the properties decided by DbTrace.tla over histories recorded by harness/vdb."""
import json
import os
import time

import vlib
from vlib import log


def classify(ev, prefix):
    """Deterministic signature of a rejected event: event kind + the defect-specific trigger
    predicate, computed from the rejected event and the events before it."""
    kind = ev.get("ev")
    if kind in ("Panic", "Hang", "ObserveFailed"):
        return "%s:%s" % (kind, str(ev.get("msg", ev.get("err", "")))[:60])
    if kind == "Observe":
        # the state differs from the model after the previous step; name that step
        prev = None
        for e in reversed(prefix[:-1]):
            if e.get("ev") not in ("Observe",) and "ok" in e and e.get("ev") not in READS:
                prev = e
                break
        if prev is not None:
            if prev.get("ev") == "Tx":
                kinds = sorted({q.get("ev") for q in prev.get("queries", [])})
                return "state-differs-after:Tx(ok=%s):%s" % (prev.get("ok"), "+".join(kinds))
            return "state-differs-after:%s(ok=%s)" % (prev.get("ev"), prev.get("ok"))
        return "state-differs"
    if kind == "Tx":
        kinds = sorted({q.get("ev") for q in ev.get("queries", [])})
        return "Tx(ok=%s):%s" % (ev.get("ok"), "+".join(kinds))
    return "%s(ok=%s)" % (kind, ev.get("ok"))


READS = {"SelectValues", "SelectKeys", "SelectKeyCount", "SelectAliases", "SelectAllAliases", "SelectEdgeCount",
         "SelectNodeCount", "SelectIndexes", "SearchIndex", "Elements", "SelectIds", "Search"}


def run_profiles(prop, tier, profiles, runs_quick, runs_thorough, ops, verdict, work, sub="hist",
                 module="DbTrace", cfg="DbTrace.cfg", extra_args=None, classify_fn=None, chunk=10):
    """Runs the vdb driver for each profile, validates the traces, reports rejections through verdict.
    Returns dict with totals for the evidence file."""
    bins = vlib.build(["vdb"])
    vdb = os.path.join(bins, "vdb")
    runs = runs_thorough if tier == "thorough" else runs_quick
    totals = {"runs": 0, "accepted": 0, "rejected": 0, "events_checked": 0, "mutations": 0, "mutations_failed": 0,
              "transactions": 0, "transactions_rolled_back": 0, "reads": 0, "maintenance_ops": 0,
              "distinct_mutation_events": 0, "died": 0, "tlc_wall": 0.0, "per_profile": {},
              "searches": 0, "searches_nontrivial": 0}
    samples = []
    for prof in profiles:
        pw = os.path.join(work, prof)
        os.makedirs(pw, exist_ok=True)
        args = ["--seed", vlib.seed(), "--ops", ops, "--profile", prof] + (extra_args or [])
        summs, files, died = vlib.run_chunked(vdb, sub, args, runs, chunk, pw, timeout=900)
        trace = os.path.join(pw, "trace.ndjson")
        extra = []
        for (prog, how) in died:
            extra += [{"ev": "Reset", "profile": prof, "run": prog},
                      {"ev": "Hang" if how == "timeout" else "Died", "run": prog, "msg": how[:200]}]
        vlib.concat_traces(files, trace, extra)
        acc, rej, checked, wall = vlib.validate_runs(module, cfg, trace, pw, timeout=1800, xmx="6g",
                                                     tag="%s_%s" % (prop.lower(), prof))
        s = vlib.sum_keys(summs, ["mutations", "mutations_failed", "transactions", "transactions_rolled_back",
                                  "reads", "maintenance_ops", "distinct_mutation_events", "programs",
                                  "searches", "searches_nontrivial"])
        log("[%s] profile=%s runs=%d accepted=%d rejected=%d events=%d died=%d tlc=%.0fs %s" %
            (prop, prof, s["programs"] + len(died), acc, len(rej), checked, len(died), wall,
             {k: s[k] for k in ("mutations", "transactions", "reads", "maintenance_ops")}))
        totals["runs"] += s["programs"] + len(died)
        totals["accepted"] += acc
        totals["rejected"] += len(rej)
        totals["events_checked"] += checked
        totals["died"] += len(died)
        totals["tlc_wall"] += wall
        for k in ("mutations", "mutations_failed", "transactions", "transactions_rolled_back", "reads",
                  "maintenance_ops", "distinct_mutation_events", "searches", "searches_nontrivial"):
            totals[k] += s[k]
        totals["per_profile"][prof] = {"accepted": acc, "rejected": len(rej), "events": checked}
        for x in rej:
            ev = x["event"]
            sig = (classify_fn or classify)(ev, x["prefix"])
            verdict.report(sig, "%s rejects run %d of profile %s at event %d: %s"
                           % (module, x["run"], prof, x["event_index"], vlib.short(ev, 300)),
                           {"profile": prof, "seed": vlib.seed(), "event": ev, "history": x["prefix"][-40:],
                            "history_len": len(x["prefix"])})
        if not samples:
            evs = vlib.read_ndjson(trace)
            samples.append({"profile": prof, "trace_prefix": [e for e in evs[:40] if e.get("ev") != "Observe"][:12]})
    totals["samples"] = samples
    return totals


def evidence(prop, tier, totals, t0, verdict, level="model_checking", mc=None, assumptions=None, rule=None, extra=None):
    cov = {
        "traces_validated_against_impl": totals["accepted"],
        "samples": totals["samples"],
        "evaluations": totals["events_checked"],
        "distinct_nontrivial": totals["distinct_mutation_events"],
        "rule": rule or "one evaluation = one recorded event (query with arguments and result, or full dump) checked by TLC "
                        "against DbModel; distinct_nontrivial = distinct mutating query events (arguments + outcome) "
                        "by content hash",
        "runs": totals["runs"], "runs_rejected": totals["rejected"], "runs_died": totals["died"],
        "mutations": totals["mutations"], "mutations_failed": totals["mutations_failed"],
        "transactions": totals["transactions"], "transactions_rolled_back": totals["transactions_rolled_back"],
        "reads": totals["reads"], "maintenance_ops": totals["maintenance_ops"],
        "searches": totals["searches"], "searches_with_more_than_one_result": totals["searches_nontrivial"],
        "per_profile": totals["per_profile"], "exhaustive": False,
    }
    if mc:
        cov["states"] = mc["states"]
        cov["transitions"] = mc["transitions"]
        cov["tlc_runs"] = mc["runs"]
    else:
        # trace validation explores exactly one state per event
        cov["states"] = max(1, totals["events_checked"])
        cov["transitions"] = max(1, totals["events_checked"])
    if extra:
        cov.update(extra)
    vlib.write_evidence(prop, tier, level, cov, assumptions or [
        "histories are sampled (seeded random), not enumerated; databases have <= 10-12 elements, 4 alias names, 3 keys",
        "the driver observes the database only through the public query API",
    ], time.time() - t0, len(verdict.violations), {"known_findings_seen": verdict.known_seen})
