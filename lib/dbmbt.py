"""Spec -> implementation direction for the database engine (MBT, bounded-exhaustive).

TLC explores MCDbExport (MCDb with the view <<db, steps>>) and prints one history per generated transition: every
query form of the bounded vocabulary in every distinct reachable abstract state, reached by a shortest history.
`vdb mbt` executes each history on the real database (memory variant; every n-th history on the file-backed variants
in lock-step, every 5th of those closed and reopened before the dump) and records the run as a DbTrace trace
(Reset, queries with the real outcomes, final Observe); DbTrace (skip mode) decides every run. Every history is
replayed in four plans: as printed; with its last query inside a transaction that the closure aborts; with its last two
queries inside an aborted transaction; with its last two queries inside a committing transaction.
"""
import json
import os
import subprocess
import time
from concurrent.futures import ThreadPoolExecutor

import dbcheck
import vlib
from vlib import log

PREFIX = '<<"MBT", "'


def export(cfg, out_path, timeout=1500, module="MCDbExport", per_state=False):
    """run TLC on the export module with cfg; write one JSON history per line; returns (histories, TlcResult)"""
    # MCGraphExport's view leaves `steps` out: only a strict breadth-first search (one worker) keeps the SHORTEST history of
    # every state and so expands every state that can be expanded within the bound (deterministic state count)
    r = vlib.tlc(module, cfg, workers=1 if per_state else 4, timeout=timeout, xmx="6g", tag="dbmbt")
    vlib.require_mc_ok(r, cfg)
    if r.violated:
        raise vlib.ToolError("DbModel violates its own invariant %s (specification error)" % r.violated)
    n = 0
    with open(out_path, "w") as o:
        for line in r.output.splitlines():
            if not line.startswith(PREFIX):
                continue
            if not line.endswith('">>'):
                raise vlib.ToolError("unexpected MBT line from TLC: %s" % line[-80:])
            s = line[len(PREFIX):-3].replace('\\"', '"').replace('\\\\', '\\')
            json.loads(s)
            o.write(s + "\n")
            n += 1
    want = r.distinct if per_state else r.generated - 1
    if n == 0 or n != want:
        raise vlib.ToolError("%s printed %d histories, expected %d (%d generated, %d distinct)" % (module, n, want, r.generated, r.distinct))
    return n, r


def run(prop, tier, verdict, work, totals, graph=False):
    """graph=False: MCDbExport, one history per TRANSITION of the bounded DbModel (mutating query forms);
    graph=True: MCGraphExport, one history per distinct STATE of the bounded graph model, and every search of the family
    (each element as origin, forward / reverse, breadth / depth first, elements search) on the graph it builds."""
    t0 = time.time()
    thorough = tier == "thorough"
    bins = vlib.build(["vdb"])
    vdb = os.path.join(bins, "vdb")
    module = "MCGraphExport" if graph else "MCDbExport"
    key = "mbt_search_family_on_every_graph_of_bounded_model" if graph else "mbt_every_transition_of_bounded_model"
    hist = os.path.join(work, "mbt_histories_%s.ndjson" % module)
    if graph:
        n, r = export(module + ("_thorough.cfg" if thorough else ".cfg"), hist, module=module, per_state=True)
        lines = open(hist).read().splitlines()
    else:
        # quick: depth 2 (3 955 transitions); thorough: depth 3 (89 469)
        n, r = export("MCDbExport_thorough.cfg" if thorough else "MCDbExport.cfg", hist, module=module)
        lines = open(hist).read().splitlines()
    jobs = 12 if thorough else 8
    per = (len(lines) + jobs - 1) // jobs
    chunks = []
    for j in range(jobs):
        part = lines[j * per:(j + 1) * per]
        if not part:
            continue
        p = os.path.join(work, "mbt_in_%d.ndjson" % j)
        with open(p, "w") as f:
            f.write("\n".join(part) + "\n")
        chunks.append((j, p, j * per, len(part)))

    def one(ch):
        j, p, first, cnt = ch
        out = os.path.join(work, "mbt_trace_%s_%d.ndjson" % (module, j))
        # every 8th history (every 16th in the thorough tier) runs on the file-backed variants in lock-step, the others in memory
        rr = vlib.run_bin(vdb, ["mbt", "--in", p, "--out", out, "--work", os.path.join(work, "mbtw%d" % j),
                                "--first", first, "--variants", "memory,file,mapped,any_file", "--file-every", 16 if thorough else 8, "--searches", 1 if graph else 0, "--tx", 0 if graph else 1], timeout=2400)
        if rr.returncode != 0:
            return {"chunk": j, "died": (rr.stderr or "")[-300:], "out": out, "first": first}
        summ = json.loads(rr.stdout.strip().splitlines()[-1])
        acc, rej, checked, wall = vlib.validate_runs_skip("DbTrace", "DbTraceSkip.cfg", out, timeout=2400, xmx="3g", tag="dbmbt%d" % j)
        return {"chunk": j, "summary": summ, "acc": acc, "rej": rej, "checked": checked, "wall": wall}

    with ThreadPoolExecutor(max_workers=jobs) as ex:
        results = list(ex.map(one, chunks))
    acc = sum(x.get("acc", 0) for x in results)
    checked = sum(x.get("checked", 0) for x in results)
    rejs = [y for x in results for y in x.get("rej", [])]
    died = [x for x in results if "died" in x]
    ms = vlib.sum_keys([x["summary"] for x in results if "summary" in x],
                       ["histories", "steps", "steps_ok", "steps_failed", "reopened", "aborted_runs", "searches", "searches_nontrivial", "transactions", "transactions_rolled_back"])
    log("[%s] MBT (%s, %d histories from %d distinct states, depth %d): histories=%d accepted=%d rejected=%d "
        "events=%d died=%d %.0fs %s" % (prop, module, n, r.distinct, r.depth, ms["histories"], acc, len(rejs), checked, len(died),
                                        time.time() - t0, ms))
    for x in died:
        verdict.report("mbt:replay-died", "vdb mbt died on a TLC-generated history (chunk %d): %s" % (x["chunk"], x["died"]),
                       {"chunk_first_history": x["first"], "stderr": x["died"]})
    for x in rejs[:6]:
        verdict.report("mbt:%s" % dbcheck.classify(x["event"], x["prefix"]),
                       "DbTrace rejects the replay of TLC-generated history %s at event %d: %s" %
                       (x["prefix"][0].get("run"), x["event_index"], vlib.short(x["event"], 300)),
                       {"event": x["event"], "history": x["prefix"]})
    totals["runs"] += ms["histories"]
    totals["accepted"] += acc
    totals["rejected"] += len(rejs)
    totals["events_checked"] += checked
    totals["mutations"] += ms["steps"]
    totals["mutations_failed"] += ms["steps_failed"]
    totals["transactions"] += ms["transactions"]
    totals["transactions_rolled_back"] += ms["transactions_rolled_back"]
    totals["searches"] += ms["searches"]
    totals["searches_nontrivial"] += ms["searches_nontrivial"]
    totals["per_profile"][key] = {
        "histories_replayed": n, "searches": ms["searches"], "distinct_model_states": r.distinct, "depth": r.depth, "accepted": acc,
        "rejected": len(rejs), "events": checked, "steps_ok": ms["steps_ok"], "steps_failed": ms["steps_failed"],
        "reopened_before_dump": ms["reopened"], "tlc": r.summary()}
