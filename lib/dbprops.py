"""Checks decided by DbModel/DbTrace over recorded histories (+ MCDb exhaustive model)."""
import time

import dbcheck
import vlib
from vlib import log

# property -> (driver profiles, quick runs per profile, thorough runs per profile, ops per run, use MCDb)
TABLE = {
    "C08": (["graph", "elements", "mixed"], 40, 600, 40, True),
    "C09": (["kv", "mixed"], 50, 800, 40, True),
    "C10": (["alias", "mixed"], 50, 800, 40, True),
    "C11": (["index", "tx"], 50, 800, 40, False),
    "C13": (["tx", "alias", "index"], 50, 800, 40, False),
    "C18": (["elements", "search_elem"], 40, 600, 40, False),
    "C14": (["search_trav"], 80, 1200, 30, False),
    "C15": (["search_cond"], 80, 1200, 30, False),
    "C16": (["search_slice"], 80, 1200, 30, False),
    "C17": (["search_path"], 80, 1200, 30, False),
    "C05": (["maint", "maint_file", "maint_memory"], 30, 400, 40, False),
    "C06": (["variants"], 25, 300, 40, False),
    "C12": (["values"], 40, 500, 40, False),
}


def mc_db(tier):
    cfg = "MCDb_thorough.cfg" if tier == "thorough" else "MCDb.cfg"
    r = vlib.tlc("MCDb", cfg, workers=8, timeout=3000, tag="mcdb")
    vlib.require_mc_ok(r, cfg)
    log("[mc] MCDb %s: %d distinct, %d generated, depth %d, %.0fs violated=%s" %
        (cfg, r.distinct, r.generated, r.depth, r.wall, r.violated))
    if r.violated:
        raise vlib.ToolError("DbModel violates its own invariant %s (specification error)" % r.violated)
    return {"states": r.distinct, "transitions": r.generated, "runs": [r.summary()]}


def run(prop, tier):
    t0 = time.time()
    profiles, rq, rt, ops, use_mc = TABLE[prop]
    verdict = vlib.Verdict(prop)
    work = vlib.scratch(prop.lower())
    try:
        mc = mc_db(tier) if use_mc else None
        totals = dbcheck.run_profiles(prop, tier, profiles, rq, rt, ops, verdict, work)
        dbcheck.evidence(prop, tier, totals, t0, verdict, mc=mc)
        return verdict.exit_code()
    finally:
        vlib.rm_scratch(work)
