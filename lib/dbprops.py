"""Checks decided by DbModel/DbTrace over recorded histories (+ MCDb exhaustive model)."""
import time

import dbcheck
import vlib
from vlib import log

# property -> (driver profiles, quick runs per profile, thorough runs per profile, ops per run, use MCDb)
TABLE = {
    "C08": (["graph", "elements", "mixed"], 40, 600, 40, True),
    "C09": (["kv", "mixed"], 50, 800, 40, True),
    "C10": (["alias", "mixed"], 50, 800, 40, True),
    "C11": (["index", "tx"], 50, 800, 40, False),
    "C13": (["tx", "alias", "index"], 50, 800, 40, False),
    "C18": (["elements", "search_elem"], 40, 600, 40, False),
    "C14": (["search_trav"], 80, 1200, 30, False),
    "C15": (["search_cond"], 80, 1200, 30, False),
    "C16": (["search_slice"], 80, 1200, 30, False),
    "C17": (["search_path", "search_pathcost"], 80, 1200, 30, False),
    "C05": (["maint", "maint_file", "maint_memory", "variants_big", "variants_huge"], 30, 400, 40, False),
    "C06": (["variants", "variants_big", "variants_huge"], 25, 300, 40, False),
    "C12": (["values"], 40, 500, 40, False),
    "C22": (["types"], 30, 400, 40, False),
}
SUB = {"C22": "types"}
# properties that also get the spec -> implementation direction (every transition of the bounded DbModel replayed)
MBT = {"C08", "C09", "C10", "C11", "C13"}


def mc_db(tier):
    cfg = "MCDb_thorough.cfg" if tier == "thorough" else "MCDb.cfg"
    r = vlib.tlc("MCDb", cfg, workers=8, timeout=3000, tag="mcdb")
    vlib.require_mc_ok(r, cfg)
    log("[mc] MCDb %s: %d distinct, %d generated, depth %d, %.0fs violated=%s" %
        (cfg, r.distinct, r.generated, r.depth, r.wall, r.violated))
    if r.violated:
        raise vlib.ToolError("DbModel violates its own invariant %s (specification error)" % r.violated)
    return {"states": r.distinct, "transitions": r.generated, "runs": [r.summary()]}


def path_family(tier, verdict, work, totals):
    """C17, bounded-exhaustive: every graph of the two-parallel-routes family (route lengths 1..3 edges, 1..4 in the thorough
    tier; every 0/1 labelling of the interior elements) searched with a condition that makes an element cost 1 or 2; TLC
    decides each result against DbSearch!PathOk (the cheaper route is not always the shorter one)."""
    import json
    import os
    bins = vlib.build(["vdb"])
    out = os.path.join(work, "pathfam.ndjson")
    r = vlib.run_bin(os.path.join(bins, "vdb"), ["pathfam", "--max-edges", 4 if tier == "thorough" else 3, "--out", out], timeout=1800)
    if r.returncode != 0:
        raise vlib.ToolError("vdb pathfam failed: %s" % (r.stderr or "")[-400:])
    summ = json.loads(r.stdout.strip().splitlines()[-1])
    acc, rej, checked, wall = vlib.validate_runs("DbTrace", "DbTrace.cfg", out, work, timeout=3000, xmx="6g", tag="c17fam", max_rejections=5)
    log("[C17] two-route family (exhaustive for its bounds): cases=%d accepted=%d rejected=%d events=%d tlc=%.0fs" % (summ["programs"], acc, len(rej), checked, wall))
    for x in rej:
        verdict.report("path-family:%s" % dbcheck.classify(x["event"], x["prefix"]),
                       "DbTrace rejects case %d of the two-route family at event %d: %s" % (x["run"], x["event_index"], vlib.short(x["event"], 300)),
                       {"event": x["event"], "history": x["prefix"]})
    totals["runs"] += summ["programs"]
    totals["accepted"] += acc
    totals["rejected"] += len(rej)
    totals["events_checked"] += checked
    totals["searches"] += summ["programs"]
    totals["searches_nontrivial"] += summ["programs"]
    totals["per_profile"]["two_route_family_exhaustive"] = {"accepted": acc, "rejected": len(rej), "events": checked, "cases": summ["programs"]}


def run(prop, tier):
    t0 = time.time()
    profiles, rq, rt, ops, use_mc = TABLE[prop]
    sub = SUB.get(prop, "hist")
    verdict = vlib.Verdict(prop)
    work = vlib.scratch(prop.lower())
    try:
        mc = mc_db(tier) if use_mc else None
        totals = dbcheck.run_profiles(prop, tier, profiles, rq, rt, ops, verdict, work, sub=sub)
        if prop == "C17":
            path_family(tier, verdict, work, totals)
        if prop in MBT:
            import dbmbt
            dbmbt.run(prop, tier, verdict, work, totals)
        if prop in ("C14", "C18"):
            import dbmbt
            dbmbt.run(prop, tier, verdict, work, totals, graph=True)
        dbcheck.evidence(prop, tier, totals, t0, verdict, mc=mc)
        return verdict.exit_code()
    finally:
        vlib.rm_scratch(work)
