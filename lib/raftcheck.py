"""C27 C28 C29 (safety of the cluster protocol) and C30 (healthy progress).

Per check:
 (MC)  AgdbRaft.tla / AgdbRaftHealthy.tla model-checked for the bounds in the configuration: the property must hold
       in the design, except where a listed defect trigger (RaftCore!Triggers) explains the violation.
 (TV)  seeded random schedules executed on the REAL raft.rs by the vraft simulator; RaftTrace.tla decides every
       step (conformance with RaftCore: same branch, same responses, same requests, same node state) and
       evaluates the properties in every state of every execution.
 (MBT) stored TLC counterexamples are replayed on the real code; fresh counterexamples of a violated
       model-checking run are replayed before anything is reported about the code.
 If the code no longer follows RaftCore (a run is rejected at a conformance condition) the check prints
 MODEL-DRIFT, re-validates all executions at property level (RaftTraceAbs: observed states taken as they are),
 continues every drifting execution 40 times from the drifting step, and runs 8x the schedule budget: a violation is only reported for an execution of the real code.
"""
import json
import os
import time

import raftlib
import vlib
from vlib import log

WALKS = {
    # property: list of (name, extra walk args, quick programs, thorough programs, steps, n_nodes)
    "C27": [("election", ["--w-append", 0, "--w-drop", 10, "--w-dup", 6, "--w-process", 26], 160, 2500, 200, 3),
            ("partitions", ["--w-partition", 30, "--w-append", 3, "--w-drop", 4, "--w-dup", 4, "--w-process", 24], 80, 1500, 250, 3),
            ("election5", ["--w-append", 0, "--w-drop", 10, "--w-dup", 5, "--w-process", 24], 40, 600, 300, 5),
            ("election4", ["--w-append", 0, "--w-drop", 10, "--w-dup", 5, "--w-process", 24], 40, 600, 250, 4),
            ("mixed", [], 60, 1000, 200, 3)],
    "C28": [("replication", ["--w-drop", 12, "--w-dup", 4, "--max-appends", 8], 200, 3000, 250, 3),
            ("replication5", ["--w-drop", 10, "--w-dup", 3, "--max-appends", 8], 40, 600, 300, 5),
            ("replication4", ["--w-drop", 10, "--w-dup", 3, "--max-appends", 8], 40, 600, 250, 4),
            ("partitions", ["--w-partition", 25, "--w-drop", 4, "--w-dup", 3, "--max-appends", 8], 150, 2500, 300, 3)],
    "C29": [("replication", ["--w-drop", 14, "--w-dup", 3, "--w-process", 22, "--max-appends", 8], 200, 3000, 250, 3),
            ("replication5", ["--w-drop", 10, "--w-dup", 3, "--w-process", 22, "--max-appends", 8], 40, 600, 300, 5),
            ("replication4", ["--w-drop", 10, "--w-dup", 3, "--w-process", 22, "--max-appends", 8], 40, 600, 250, 4),
            ("partitions", ["--w-partition", 25, "--w-drop", 4, "--w-dup", 3, "--w-process", 20, "--max-appends", 8], 200, 3000, 300, 3)],
}
MC_CFG = {
    "C27": (["MCRaftElection_quick.cfg"], ["MCRaftElection.cfg"]),
    "C28": (["MCRaftReplicationNew_quick.cfg"], ["MCRaftReplicationNew.cfg"]),
    "C29": (["MCRaftReplicationNew_quick.cfg"], ["MCRaftReplicationNew.cfg"]),
}
MBT = {
    "C27": ["d12_two_votes_in_one_term"],
    "C28": ["d13b_commit_disagreement"],
    "C29": ["d13b_later_leader_lacks_committed_entry"],
}


def cfg_for(n, abs_mode, timing=""):
    base = "RaftTrace" + ("Abs" if abs_mode else "") + ("" if n == 3 else str(n)) + timing
    return base + ".cfg"


def signature(p):
    return "%s:%s" % (p["property"], "+".join(p["trig"]) if p["trig"] else "no-known-trigger")


def brief(prefix, k=40):
    out = []
    for e in prefix[-k:]:
        x = {a: e[a] for a in ("ev", "node", "now", "branch", "id", "rid", "val") if a in e}
        if "req" in e:
            x["req"] = e["req"]
        if "rsp" in e:
            x["rsp"] = e["rsp"]["res"]
        if "ns" in e:
            x["st"] = [e["ns"]["st"], e["ns"]["sa"], e["ns"]["term"]]
            x["log"] = e["ns"]["log"]
        out.append(x)
    return out


def report_props(prop, verdict, props, where, schedule_of=None):
    wanted = raftlib.PROP_OF.get(prop, []) + (["HealthyProgress"] if prop == "C30" else [])
    n = 0
    for p in props:
        if p["property"] not in wanted:
            continue
        n += 1
        verdict.report(signature(p), "%s: %s violated by the real raft.rs in run %d at event %d (triggers: %s)"
                       % (where, p["property"], p["run"], p["event_index"], p["trig"] or "none"),
                       {"seed": vlib.seed(), "where": where, "property": p["property"], "triggers": p["trig"],
                        "events_tail": brief(p["prefix"]), "trace": p["prefix"]})
    return n


def run_walks(prop, tier, vraft, work, verdict, stats, budget_factor=1):
    drift = 0
    for (name, extra, q, t, steps, n) in WALKS[prop]:
        programs = (t if tier == "thorough" else q) * budget_factor
        pw = os.path.join(work, name)
        args = ["--seed", vlib.seed(), "--steps", steps, "--n", n] + extra
        summs, files, died = vlib.run_chunked(vraft, "walk", args, programs, max(10, programs // 12), pw, jobs=8, timeout=600)
        if died:
            raise vlib.ToolError("vraft walk died: %s" % died[:2])
        trace = os.path.join(pw, "trace.ndjson")
        vlib.concat_traces(files, trace)
        v = raftlib.validate(trace, cfg=cfg_for(n, False), tag=prop.lower() + name)
        ms = vlib.sum_keys(summs, ["programs", "steps", "deliveries", "drops", "dups", "process_calls", "appends", "restarts"])
        log("[%s] walks %-13s runs=%d accepted=%d rejected=%d events=%d property-violations=%d tlc=%.0fs %s" %
            (prop, name, v["runs"], v["accepted"], len(v["rejections"]), v["events"], len(v["props"]), v["wall"], ms))
        stats["runs"] += v["runs"]
        stats["accepted"] += v["accepted"]
        stats["events"] += v["events"]
        stats["tlc_wall"] += v["wall"]
        for k in ms:
            stats["ops"][k] = stats["ops"].get(k, 0) + ms[k]
        props = v["props"]
        if v["rejections"]:
            drift += len(v["rejections"])
            x = v["rejections"][0]
            log("MODEL-DRIFT property=%s %d of %d executions of the real raft.rs are not behaviours of RaftCore (first: run %d "
                "event %d: %s); deciding the properties on the observed states (RaftTraceAbs)"
                % (prop, len(v["rejections"]), v["runs"], x["run"], x["event_index"], vlib.short(x["event"], 260)))
            stats["drift_samples"].append({"profile": name, "event": x["event"], "before": brief(x["prefix"][:-1], 6)})
            va = raftlib.validate(trace, cfg=cfg_for(n, True), tag=prop.lower() + name + "abs")
            props = list(va["props"])
            stats["tlc_wall"] += va["wall"]
            # Amplification: the step at which the code left the model is where its behaviour changed. Each such
            # execution is re-run exactly up to that step and continued 40 times with a fresh random stream over a
            # benign network, so that the consequences of that step unfold (a wrongly granted vote makes a leader one
            # delivery later); the continuations are decided at property level like every other execution.
            fork_files = []
            for x in v["rejections"][:12]:
                fo = os.path.join(pw, "fork_%d.ndjson" % x["run"])
                r = vlib.run_bin(vraft, ["walk"] + args + ["--first", x["run"], "--programs", 1, "--fork-step", x["event_index"],
                                                           "--fork-count", 40, "--fork-steps", 50, "--work", pw, "--out", fo], timeout=300)
                if r.returncode != 0:
                    raise vlib.ToolError("vraft walk (fork) failed: %s" % (r.stderr or "")[-300:])
                fork_files.append(fo)
                # and 30 adversarial continuations: the node on which the code left the model is cut off while the others
                # elect a leader and take appends, then the network heals
                node = x["event"].get("node")
                if isinstance(node, int):
                    fo2 = os.path.join(pw, "forkiso_%d.ndjson" % x["run"])
                    r = vlib.run_bin(vraft, ["walk"] + args + ["--first", x["run"], "--programs", 1, "--fork-step", x["event_index"],
                                                               "--fork-count", 30, "--fork-steps", 150, "--fork-isolate", node,
                                                               "--work", pw, "--out", fo2], timeout=300)
                    if r.returncode != 0:
                        raise vlib.ToolError("vraft walk (isolating fork) failed: %s" % (r.stderr or "")[-300:])
                    fork_files.append(fo2)
            if fork_files:
                ftrace = os.path.join(pw, "forks.ndjson")
                vlib.concat_traces(fork_files, ftrace)
                vf = raftlib.validate(ftrace, cfg=cfg_for(n, True), tag=prop.lower() + name + "fork")
                hist = {}
                for p_ in vf["props"]:
                    k_ = "%s:%s" % (p_["property"], "+".join(sorted(p_["trig"])) or "none")
                    hist[k_] = hist.get(k_, 0) + 1
                log("[%s] %d continuations of the %d drifting executions: events=%d property-violations=%d %s" %
                    (prop, vf["runs"], len(fork_files), vf["events"], len(vf["props"]), hist))
                stats["runs"] += vf["runs"]
                stats["events"] += vf["events"]
                stats["tlc_wall"] += vf["wall"]
                props += vf["props"]
        stats["violations_seen"] += report_props(prop, verdict, props, "random schedules (%s)" % name)
        if not stats["samples"]:
            evs = vlib.read_ndjson(trace)
            stats["samples"].append({"trace_prefix": [{k: e[k] for k in e if k != "ns"} for e in evs[:8]]})
    return drift


def run_mbt(prop, vraft, work, verdict, stats):
    for name in MBT.get(prop, []):
        sched = json.load(open(os.path.join(vlib.SPEC, "mbt", name + ".schedule.json")))
        summ, out = raftlib.replay(vraft, sched, work, name)
        v = raftlib.validate(out, tag=prop.lower() + "mbt")
        props = v["props"]
        if v["rejections"]:
            props = raftlib.validate(out, cfg="RaftTraceAbs.cfg", tag=prop.lower() + "mbtabs")["props"]
        log("[%s] replay of stored TLC counterexample %s on the real code: %d/%d steps, conformant=%s, violated=%s" %
            (prop, name, summ["steps_done"], len(sched), not v["rejections"], [(p["property"], p["trig"]) for p in props]))
        stats["mbt"].append({"schedule": name, "steps_done": summ["steps_done"], "steps": len(sched),
                             "conformant": not v["rejections"], "violated": [signature(p) for p in props]})
        stats["violations_seen"] += report_props(prop, verdict, props, "replay of TLC counterexample %s" % name)


def run_mc(prop, tier, vraft, work, verdict, stats):
    cfgs = MC_CFG[prop][1 if tier == "thorough" else 0]
    for cfg in cfgs:
        dump = os.path.join(work, "cex_%s.json" % cfg)
        r = raftlib.mc(cfg, timeout=3400 if tier == "thorough" else 900, workers=10, dump=dump, tag=prop.lower() + "mc")
        vlib.require_mc_ok(r, cfg)
        log("[%s] mc %s: %d distinct, %d generated, depth %d, %.0fs violated=%s" % (prop, cfg, r.distinct, r.generated, r.depth, r.wall, r.violated))
        stats["mc"].append(r.summary())
        stats["states"] += r.distinct
        stats["transitions"] += r.generated
        if r.violated:
            # a design-level counterexample is a candidate: it counts only if the real code reproduces it
            sched, _ = raftlib.schedule_from_counterexample(dump, 3)
            summ, out = raftlib.replay(vraft, sched, work, "cex_" + prop)
            v = raftlib.validate(out, tag=prop.lower() + "cex")
            props = v["props"] if not v["rejections"] else raftlib.validate(out, cfg="RaftTraceAbs.cfg", tag=prop.lower() + "cexabs")["props"]
            n = report_props(prop, verdict, props, "TLC counterexample of %s (%s) replayed on the real code" % (cfg, r.violated))
            stats["violations_seen"] += n
            if n == 0:
                log("MODEL-DRIFT property=%s the counterexample of %s (%s) is not reproduced by the real raft.rs "
                    "(%d/%d steps replayed): the model no longer describes the code; the verdict rests on the executions of "
                    "the real code" % (prop, cfg, r.violated, summ["steps_done"], len(sched)))
                stats["spurious_counterexamples"] += 1


def new_stats():
    return {"runs": 0, "accepted": 0, "events": 0, "tlc_wall": 0.0, "ops": {}, "drift_samples": [], "samples": [],
            "violations_seen": 0, "mbt": [], "mc": [], "states": 0, "transitions": 0, "spurious_counterexamples": 0}


def run(prop, tier):
    t0 = time.time()
    verdict = vlib.Verdict(prop)
    work = vlib.scratch(prop.lower())
    try:
        bins = vlib.build(["vraft"])
        vraft = os.path.join(bins, "vraft")
        stats = new_stats()
        run_mc(prop, tier, vraft, work, verdict, stats)
        run_mbt(prop, vraft, work, verdict, stats)
        drift = run_walks(prop, tier, vraft, work, verdict, stats)
        if drift:
            # the mechanism model no longer binds: triple the budget of executions decided at property level
            log("[%s] model drift: running 8x the schedule budget, decided at property level" % prop)
            os.environ["VERIF_SEED"] = str(vlib.seed() + 1000)
            run_walks(prop, tier, vraft, os.path.join(work, "more"), verdict, stats, budget_factor=8)
            os.environ["VERIF_SEED"] = str(vlib.seed() - 1000)
        cov = {
            "states": stats["states"], "transitions": stats["transitions"],
            "traces_validated_against_impl": stats["accepted"],
            "evaluations": stats["events"], "distinct_nontrivial": stats["ops"].get("deliveries", 0),
            "rule": "one evaluation = one scheduler step executed on the real raft.rs and decided by TLC (conformance with "
                    "RaftCore and all properties in the resulting state); non-trivial = message deliveries",
            "scheduler_steps": stats["ops"], "runs": stats["runs"], "runs_not_conformant": drift,
            "model_drift_samples": stats["drift_samples"][:3], "mbt_replays": stats["mbt"], "tlc_runs": stats["mc"],
            "spurious_counterexamples": stats["spurious_counterexamples"],
            "samples": stats["samples"], "exhaustive": False, "mc_exhaustive_for_constants": True,
        }
        vlib.write_evidence(prop, tier, "model_checking", cov, [
            "exhaustive only for the constants of the TLC configuration (3 nodes, terms <= 2, log <= 2, budgets of timer firings, "
            "heartbeats and messages in flight; loss decided at send time); schedules on the real code are sampled (seeded)",
            "the simulator's log store mirrors ClusterStorage/ClusterLog (cluster.rs, cluster_log.rs); raft.rs itself is the "
            "unmodified file from /repo with the clock import substituted at build time",
            "node restarts are not in the quantifier of the property and are not part of these schedules",
        ], time.time() - t0, len(verdict.violations), {"known_findings_seen": verdict.known_seen})
        return verdict.exit_code()
    finally:
        vlib.rm_scratch(work)
