"""Shared machinery for the cluster-protocol checks (C27-C30): TLC runs of AgdbRaft.tla, conversion of TLC
counterexamples into simulator schedules (MBT), the vraft simulator, and RaftTrace validation."""
import json
import os
import re

import vlib
from vlib import log

PROPS = ["ElectionSafety", "CommitAgreement", "CommitStable", "CommitMonotone", "LeaderCompleteness"]
PROP_OF = {"C27": ["ElectionSafety"], "C28": ["CommitAgreement", "CommitStable", "CommitMonotone"],
           "C29": ["LeaderCompleteness"]}


def _match_req(r):
    return {"ty": r["ty"], "from": r["from"], "to": r["to"], "term": r["term"], "li": r["li"], "lt": r["lt"],
            "lc": r["lc"], "es": [[e["idx"], e["term"], e["val"]] for e in r.get("es", [])]}


def _drop(m):
    if m["k"] == "req":
        return {"a": "drop", "kind": "req", "match": _match_req(m["r"])}
    d = _match_req(m["r"])
    d["res"] = m["p"]["res"]
    return {"a": "drop", "kind": "resp", "match": d}


def elected_prefix(n_nodes, leader, followers, voters):
    """drives the real cluster from the cold start into AgdbRaft!ElectedInit(leader, followers, voters)"""
    peers = [p for p in range(n_nodes) if p != leader]
    order = sorted(voters) + sorted(f for f in followers if f not in voters)
    s = [{"a": "process", "node": leader, "want": "PreElection"}]
    for ty in ("PreVote", "Vote", "Heartbeat"):
        for p in peers:
            m = {"ty": ty, "from": leader, "to": p}
            s.append({"a": "req", "match": m} if p in followers else {"a": "drop", "kind": "req", "match": m})
        for p in order:
            s.append({"a": "resp", "match": {"ty": ty, "from": leader, "to": p}})
    return s


def schedule_from_counterexample(path, n_nodes):
    """TLC -dumpTrace json -> list of simulator actions (the `act` history variable names every step)"""
    d = json.load(open(path))
    states = [s[1] for s in d["counterexample"]["state"]]
    sched = []
    for st in states:
        a = st["act"]
        kind = a["a"]
        if kind == "init":
            continue
        if kind == "init_elected":
            sched += elected_prefix(n_nodes, a["leader"], a["followers"], a["voters"])
            continue
        n = a.get("node")
        if kind == "election_timeout":
            sched.append({"a": "process", "node": n, "want": "PreElection"})
        elif kind == "term_timeout":
            sched.append({"a": "process", "node": n, "want": "TermTimeout"})
        elif kind == "heartbeat":
            sched.append({"a": "process", "node": n, "want": "Heartbeat"})
        elif kind == "req":
            if a.get("expired"):
                sched.append({"a": "advance", "node": n, "want": "Expired"})
            sched.append({"a": "req", "match": _match_req(a["m"]["r"])})
        elif kind == "resp":
            m = _match_req(a["m"]["r"])
            m["res"] = a["m"]["p"]["res"]
            sched.append({"a": "resp", "match": m})
        elif kind in ("dup_req", "dup_resp"):
            m = _match_req(a["m"]["r"])
            if kind == "dup_resp":
                m["res"] = a["m"]["p"]["res"]
            sched.append({"a": "dup", "kind": "req" if kind == "dup_req" else "resp", "match": m})
            sched.append({"a": "req" if kind == "dup_req" else "resp", "match": m})
        elif kind == "append":
            sched.append({"a": "append", "node": n, "val": a["val"]})
        elif kind == "restart":
            sched.append({"a": "restart", "node": n})
        else:
            raise vlib.ToolError("unknown action in counterexample: %s" % kind)
        for m in a.get("lost", []):
            sched.append(_drop(m))
    return sched, states


PV_RE = re.compile(r'<< ?"PROP_VIOLATED", (\d+), \{([^}]*)\}, \{([^}]*)\} ?>>')


def validate(trace_file, cfg="RaftTrace.cfg", timeout=3000, tag="rafttv"):
    """RaftTrace (skip mode) over a multi-run trace. Returns dict(accepted, rejections, props, events, wall):
    rejections = conformance failures (MODEL-DRIFT candidates), props = [(run, event_index, property, prefix)]."""
    events = vlib.read_ndjson(trace_file)
    runs = vlib.split_runs(events)
    starts = []
    n = 0
    for r in runs:
        starts.append(n)
        n += len(r)
    r = vlib.tlc("RaftTrace", cfg, workers=1, timeout=timeout, xmx="6g", env_extra={"TRACE": trace_file},
                 jvm_props=["tlc2.tool.queue.IStateQueue=StateDeque"], xss="1g", tag=tag)
    if r.timed_out:
        raise vlib.ToolError("RaftTrace validation timed out on %s" % trace_file)
    m = vlib.SKIP_END_RE.search(r.output)
    if r.rc != 0 or not m or int(m.group(1)) != len(events):
        log(r.output[-4000:])
        raise vlib.ToolError("RaftTrace did not reach the end of %s (rc=%s)" % (trace_file, r.rc))
    import bisect

    def locate(line):
        ri = bisect.bisect_right(starts, line - 1) - 1
        return ri, line - 1 - starts[ri]
    rejections = []
    for line in sorted({int(x.group(1)) for x in vlib.SKIP_REJ_RE.finditer(r.output)}):
        ri, ei = locate(line)
        rejections.append({"run": ri, "event_index": ei, "event": runs[ri][ei], "prefix": runs[ri][:ei + 1]})
    props = []
    seen = set()
    flat = re.sub(r"\s+", " ", r.output)      # TLC pretty-prints long tuples over several lines
    for x in PV_RE.finditer(flat):
        line = int(x.group(1))
        trig = sorted(re.findall(r'"([^"]+)"', x.group(3)))
        for name in re.findall(r'"(\w+)"', x.group(2)):
            if (line, name) in seen:
                continue
            seen.add((line, name))
            ri, ei = locate(line)
            props.append({"run": ri, "event_index": ei, "property": name, "trig": trig, "prefix": runs[ri][:ei + 1]})
    bad = {x["run"] for x in rejections}
    return {"accepted": len(runs) - len(bad), "rejections": rejections, "props": props, "events": len(events),
            "runs": len(runs), "wall": r.wall}


def replay(vraft, sched, work, name, n_nodes=3):
    sp = os.path.join(work, name + ".schedule.json")
    out = os.path.join(work, name + ".ndjson")
    with open(sp, "w") as f:
        json.dump(sched, f)
    r = vlib.run_bin(vraft, ["replay", "--schedule", sp, "--out", out, "--n", n_nodes], timeout=120)
    if r.returncode != 0:
        raise vlib.ToolError("vraft replay failed: %s" % (r.stderr or "")[-500:])
    summ = json.loads(r.stdout.strip().splitlines()[-1])
    return summ, out


def mc(cfg, timeout, workers=10, dump=None, tag="raftmc", simulate=None, depth=None):
    extra = ["-dumpTrace", "json", dump] if dump else []
    r = vlib.tlc("AgdbRaft", cfg, workers=workers, timeout=timeout, xmx="12g", extra_args=extra, tag=tag,
                 simulate=simulate, depth=depth)
    return r
