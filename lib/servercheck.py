"""C24 / C25 / C26: request traces of a real agdb_server process decided by spec/ServerTrace.tla."""
import json
import os
import time

import serverdrv
import vlib
from vlib import log


def classify(ev, prefix):
    kind = ev.get("ev")
    if kind == "req":
        return "performed-without-valid-session-or-permission:%s%s" % ("admin/" if ev.get("admin_api") else "", ev.get("op"))
    if kind == "obs":
        req = None
        for e in reversed(prefix[:-1]):
            if e.get("ev") in ("req", "login"):
                req = e
                break
        if req is None or req.get("ev") != "req":
            return "observation-differs"
        ok = 200 <= req.get("status", 0) < 300
        return ("effect-differs:%s" if ok else "rejected-request-had-an-effect:%s") % req.get("op")
    if kind == "login":
        return "login(ok=%s,good_password=%s)" % (200 <= ev.get("status", 0) < 300, ev.get("good_password"))
    return "%s" % kind


def brief(prefix, k=14):
    out = []
    for e in prefix[-k:]:
        if e.get("ev") == "obs":
            out.append({"ev": "obs", "users": e["users"], "dbs": [{x: d[x] for x in ("owner", "db", "kind", "backup", "roles", "nodes", "edges", "aliases", "audit")} for d in e["dbs"]],
                        "files": [f[0] for f in e["files"]]})
        else:
            out.append(e)
    return out


def run(prop, tier, profile, focus, runs_q, runs_t, steps, mbt=False):
    t0 = time.time()
    thorough = tier == "thorough"
    verdict = vlib.Verdict(prop)
    work = vlib.scratch(prop.lower())
    try:
        binary = vlib.build_server()
        runs = runs_t if thorough else runs_q
        import concurrent.futures as cf
        jobs = 6
        per = [(i, max(1, runs // jobs + (1 if i < runs % jobs else 0))) for i in range(min(jobs, runs))]

        profiles = profile if isinstance(profile, list) else [profile]

        def one(a):
            i, n = a
            return serverdrv.record(binary, os.path.join(work, "w%d" % i), profiles[i % len(profiles)], n, steps, vlib.seed() * 31 + i)
        events = []
        summ = {"runs": 0, "requests": 0, "requests_ok": 0, "ops": {}}
        with cf.ThreadPoolExecutor(max_workers=jobs) as ex:
            for evs, s in ex.map(one, per):
                events += evs
                for k in ("runs", "requests", "requests_ok"):
                    summ[k] += s[k]
                for k, v in s["ops"].items():
                    summ["ops"][k] = summ["ops"].get(k, 0) + v
        trace = os.path.join(work, "server_trace.ndjson")
        vlib.write_ndjson(trace, events)
        acc, rej, checked, wall = vlib.validate_runs_skip("ServerTrace", "ServerTrace_%s.cfg" % focus, trace, timeout=3000, xmx="6g",
                                                          tag=prop.lower() + "tv")
        log("[%s] servers=%d requests=%d (2xx: %d) accepted=%d rejected=%d events=%d tlc=%.0fs ops=%s" %
            (prop, summ["runs"], summ["requests"], summ["requests_ok"], acc, len(rej), checked, wall, summ["ops"]))
        by = {}
        for x in rej:
            sig = classify(x["event"], x["prefix"])
            by[sig] = by.get(sig, 0) + 1
            if by[sig] <= 2:
                verdict.report(sig, "ServerTrace (%s) rejects run %d at event %d: %s" % (focus, x["run"], x["event_index"], vlib.short(x["event"], 300)),
                               {"seed": vlib.seed(), "event": x["event"] if x["event"].get("ev") != "obs" else brief([x["event"]])[0],
                                "history": brief(x["prefix"][:-1])})
            else:
                verdict.count(sig)
        if by:
            log("[%s] rejections by signature: %s" % (prop, by))
        mbt_cov = None
        if mbt:
            import servermbt
            mbt_cov = servermbt.run(prop, tier, verdict, work, classify, brief, focus)
        cov = {
            "states": max(1, checked), "transitions": max(1, checked), "traces_validated_against_impl": acc,
            "evaluations": summ["requests"], "distinct_nontrivial": summ["requests_ok"],
            "rule": "one evaluation = one HTTP request to the real server with the observation of the complete visible state "
                    "after it, decided by TLC; non-trivial = requests the server performed (2xx)",
            "servers": summ["runs"], "operations": summ["ops"], "runs_rejected": len(rej), "rejections_by_signature": by,
            "samples": [{"trace_prefix": [e for e in events[:40] if e.get("ev") != "obs"][:10]}], "exhaustive": False,
        }
        if mbt_cov:
            cov["mbt_every_transition_of_bounded_permission_model"] = mbt_cov
            cov["evaluations"] += mbt_cov["requests"]
            cov["distinct_nontrivial"] += mbt_cov["requests_performed"]
            cov["traces_validated_against_impl"] += mbt_cov["accepted"]
            cov["states"] += mbt_cov["events"]
            cov["transitions"] += mbt_cov["events"]
        vlib.write_evidence(prop, tier, "model_checking", cov, [
            "request sequences are sampled (seeded), one client at a time; 2 users + the server admin, 2 database names "
            "(C26: 14 path-like names); sessions are tracked from login/logout because they are not observable",
            "token expiry is not exercised (the configuration minimum is 60 s)",
            "single node server (cluster: []): every action still goes through the cluster log of one",
        ], time.time() - t0, len(verdict.violations), {"known_findings_seen": verdict.known_seen})
        return verdict.exit_code()
    finally:
        vlib.rm_scratch(work)
