"""Driver around a REAL agdb_server process (built from /repo by vlib.build_server): random multi-user request
sequences over the documented endpoint table; after every request the status is recorded, and after every
request an observation through a reserved admin session records the observable state:
users, databases (owner, name, type, backup flag), per-database roles, content (node count, edge count,
aliases), audit log (user, query kind), and the file listing under and around the server's data directory.
The traces are decided by spec/ServerTrace.tla (C24 permissions, C25 batches and audit, C26 files)."""
import json
import os
import random
import shutil
import socket
import subprocess
import time
import urllib.error
import urllib.parse
import urllib.request

import vlib

CONFIG = """bind: "127.0.0.1:{port}"
address: "http://127.0.0.1:{port}"
basepath: ""
static_roots: []
admin: admin
token_expiry_seconds: 3600
data_dir: agdb_server_data
log_level: OFF
log_body_limit: 10240
request_body_limit: 10485760
pepper_path: ""
tls_certificate: ""
tls_key: ""
tls_root: ""
cluster_token: cluster
cluster_heartbeat_timeout_ms: 1000
cluster_term_timeout_ms: 3000
cluster_election_factor_ms: 1000
cluster: []
"""

Q = {
    "count": {"SelectNodeCount": {}},
    "aliases": {"SelectAllAliases": {}},
    "elements": {"Search": {"algorithm": "Elements", "conditions": [], "destination": {"Id": 0}, "limit": 0,
                            "offset": 0, "order_by": [], "origin": {"Id": 0}}},
    "fail_read": {"SelectValues": {"ids": {"Ids": [{"Alias": "nope"}]}, "keys": []}},
    "fail_mut": {"InsertEdges": {"each": False, "from": {"Ids": [{"Alias": "nope"}]}, "ids": {"Ids": []},
                                 "to": {"Ids": [{"Alias": "nope"}]}, "values": {"Single": []}}},
}


def q_insert(n):
    return {"InsertNodes": {"aliases": [], "count": n, "ids": {"Ids": []}, "values": {"Single": []}}}


def q_alias(a):
    return {"InsertNodes": {"aliases": [a], "count": 0, "ids": {"Ids": []}, "values": {"Single": []}}}


def q_edge_ref(i, j):
    return {"InsertEdges": {"each": False, "from": {"Ids": [{"Alias": ":%d" % i}]}, "ids": {"Ids": []},
                            "to": {"Ids": [{"Alias": ":%d" % j}]}, "values": {"Single": []}}}


def free_port():
    s = socket.socket()
    s.bind(("127.0.0.1", 0))
    p = s.getsockname()[1]
    s.close()
    return p


class Server:
    def __init__(self, binary, work):
        self.binary = binary
        self.dir = work
        self.proc = None
        self.port = None

    def start(self):
        shutil.rmtree(self.dir, ignore_errors=True)
        os.makedirs(self.dir)
        for attempt in range(5):
            self.port = free_port()
            with open(os.path.join(self.dir, "agdb_server.yaml"), "w") as f:
                f.write(CONFIG.format(port=self.port))
            self.proc = subprocess.Popen([self.binary], cwd=self.dir, stdout=subprocess.DEVNULL, stderr=subprocess.DEVNULL)
            self.base = "http://127.0.0.1:%d/api/v1" % self.port
            for _ in range(100):
                if self.proc.poll() is not None:
                    break
                try:
                    if self.call("GET", "/status")[0] == 200:
                        return
                except Exception:
                    pass
                time.sleep(0.1)
            self.stop()
        raise vlib.ToolError("agdb_server did not start")

    def restart(self):
        """starts the server again on the data it left (same directory, same port); the caller stopped it before"""
        self.proc = subprocess.Popen([self.binary], cwd=self.dir, stdout=subprocess.DEVNULL, stderr=subprocess.DEVNULL)
        for _ in range(150):
            if self.proc.poll() is not None:
                break
            try:
                if self.call("GET", "/status")[0] == 200:
                    return
            except Exception:
                pass
            time.sleep(0.1)
        self.stop()
        raise vlib.ToolError("agdb_server did not come up again after the restart")

    def stop(self):
        if self.proc and self.proc.poll() is None:
            self.proc.kill()
            self.proc.wait()
        self.proc = None

    def alive(self):
        return self.proc is not None and self.proc.poll() is None

    def call(self, method, path, token=None, body=None, query=None):
        url = self.base + path
        if query:
            url += "?" + urllib.parse.urlencode(query)
        req = urllib.request.Request(url, method=method, data=(json.dumps(body).encode() if body is not None else None))
        req.add_header("Content-Type", "application/json")
        if token:
            req.add_header("Authorization", "Bearer " + token)
        try:
            with urllib.request.urlopen(req, timeout=30) as r:
                return r.status, r.read().decode()
        except urllib.error.HTTPError as e:
            return e.code, e.read().decode()

    def files(self):
        """every file and directory under the server's working directory and next to it (relative paths)"""
        out = []
        root = os.path.dirname(self.dir.rstrip("/"))
        for base, dirs, files in os.walk(root):
            rel = os.path.relpath(base, self.dir)
            for f in files:
                out.append(os.path.normpath(os.path.join(rel, f)))
        return sorted(out)


DATA = "agdb_server_data"


def owner_dir(path):
    """first component below the data directory, "" when the (normalised) path is not inside such a directory"""
    parts = os.path.normpath(path).split("/")
    if len(parts) >= 3 and parts[0] == DATA:
        return parts[1]
    return ""


def paths_of(owner, name):
    """the server's name-to-path mapping (db_pool.rs): data file, its write ahead log ('.' + file name in the same
    directory), audit log, backup, backup of the audit log - normalised as the operating system resolves them"""
    f = os.path.join(DATA, owner, name)
    wal = os.path.join(os.path.dirname(f), "." + os.path.basename(f))
    return sorted({os.path.normpath(p) for p in (
        f, wal, os.path.join(DATA, owner, "audit", name + ".log"), os.path.join(DATA, owner, "backups", name + ".bak"),
        os.path.join(DATA, owner, "backups", name + ".log"))})


def seg(s):
    """one URL path segment"""
    return urllib.parse.quote(s, safe="")


USERS = ["alice", "bob"]
PW = {"alice": "alicepassword", "bob": "bobpassword", "admin": "admin"}
ROLES = ["read", "write", "admin"]
KINDS = ["memory", "mapped", "file"]
RESOURCES = ["all", "db", "audit", "backup"]
SERVER_FILES = {"agdb_server.yaml", "agdb_server.agdb", ".agdb_server.agdb", "pepper"}


class Run:
    """one server instance, one trace"""

    def __init__(self, srv, rng, names, trace, profile):
        self.srv = srv
        self.rng = rng
        self.names = names
        self.trace = trace
        self.profile = profile
        self.toks = {}      # user -> tokens the driver believes are live
        self.dead = []      # tokens it believes are logged out / deleted (still used now and then)
        self.counter = 0
        self.n_req = 0
        self.n_ok = 0
        self.ops = {}

    def emit(self, e):
        self.trace.append(e)

    def login(self, user, password=None):
        pw = PW.get(user, user + "password") if password is None else password
        s, b = self.srv.call("POST", "/user/login", None, {"username": user, "password": pw})
        tok = ""
        if s == 200:
            try:
                tok = json.loads(b)
            except Exception:
                tok = b.strip('"')
        self.emit({"ev": "login", "user": user, "good_password": pw == PW.get(user), "status": s, "token": tok if tok else "none"})
        if tok:
            self.toks.setdefault(user, []).append(tok)
        return tok

    def observe(self):
        a = self.observer
        s, b = self.srv.call("GET", "/admin/user/list", a)
        if s == 401:
            # an admin "logout all" ended the observer's session as well: open a new one
            self.observer = self.login("admin")
            self.toks["admin"].remove(self.observer)
            self.emit({"ev": "observer", "token": self.observer})
            a = self.observer
            s, b = self.srv.call("GET", "/admin/user/list", a)
        users = sorted(u["username"] for u in json.loads(b)) if s == 200 else ["?"]
        s, b = self.srv.call("GET", "/admin/db/list", a)
        dbs = []
        for d in (json.loads(b) if s == 200 else []):
            owner, name = d["owner"], d["db"]
            pre = "/admin/db/%s/%s" % (seg(owner), seg(name))
            s2, b2 = self.srv.call("GET", pre + "/user/list", a)
            roles = sorted([u["username"], u["role"]] for u in json.loads(b2)) if s2 == 200 else [["?", "?"]]
            s3, b3 = self.srv.call("POST", pre + "/exec", a, [Q["count"], Q["elements"], Q["aliases"]])
            if s3 == 200:
                r = json.loads(b3)
                nodes = r[0]["elements"][0]["values"][0]["value"]["U64"] if r[0]["elements"] else r[0]["result"]
                ids = [e["id"] for e in r[1]["elements"]]
                edges = sum(1 for i in ids if i < 0)
                aliases = sorted(e["values"][0]["value"]["String"] for e in r[2]["elements"])
            else:
                nodes, edges, aliases = -1, -1, ["?%d" % s3]
            s4, b4 = self.srv.call("GET", pre + "/audit", a)
            audit = [[x["username"], list(x["query"].keys())[0]] for x in json.loads(b4)] if s4 == 200 else [["?", str(s4)]]
            dbs.append({"owner": owner, "db": name, "kind": d["db_type"], "backup": d["backup"] != 0, "roles": roles,
                        "paths": [[p, owner_dir(p)] for p in paths_of(owner, name)],
                        "nodes": nodes, "edges": edges, "aliases": aliases, "audit": audit})
        dbs.sort(key=lambda x: (x["owner"], x["db"]))
        files = [[f, owner_dir(f)] for f in self.srv.files()
                 if f not in SERVER_FILES and not f.startswith("agdb_server_data/agdb_server") and not f.startswith("agdb_server_data/.agdb_server")]
        self.last = dbs
        self.emit({"ev": "obs", "users": users, "dbs": dbs, "files": files})

    def pick_token(self):
        r = self.rng
        who = r.choice(USERS + ["admin", "nobody"]) if self.profile != "names" else r.choice(USERS + ["admin"])
        tl = self.toks.get(who, [])
        if not tl and who != "nobody" and r.random() < 0.7:
            self.login(who)          # fails (and is recorded) when the user does not exist at the moment
            tl = self.toks.get(who, [])
        x = r.random()
        if tl and x < 0.88:
            return r.choice(tl)
        if self.dead and x < 0.95:
            return r.choice(self.dead)
        return "bogus-token"

    def batch(self):
        r = self.rng
        k = r.choice([1, 1, 2, 2, 3, 4])
        qs, kinds = [], []
        for i in range(k):
            c = r.choice(["count", "insert", "insert", "alias", "alias", "fail_read", "fail_mut", "edge_ref", "aliases"])
            if c == "insert":
                n = r.choice([1, 2])
                qs.append(q_insert(n))
                kinds.append(["insert", n])
            elif c == "alias":
                a = r.choice(["x", "y"])
                qs.append(q_alias(a))
                kinds.append(["alias", a])
            elif c == "edge_ref":
                # refers to earlier results of this batch (or to results that do not exist)
                # :N refers to an earlier insert of this batch, or (1 in 4) to a result that does not exist yet
                good = [j for j in range(i) if kinds[j][0] in ("insert", "alias")]
                i1 = r.choice(good) if good and r.random() < 0.75 else i + r.randrange(0, 2)
                i2 = r.choice(good) if good and r.random() < 0.75 else i + r.randrange(0, 2)
                qs.append(q_edge_ref(i1, i2))
                kinds.append(["edge_ref", i1, i2])
            else:
                qs.append(Q[c])
                kinds.append([c])
        return qs, kinds

    def step(self):
        r = self.rng
        srv = self.srv
        tok = self.pick_token()
        prof = self.profile
        if prof == "auth":
            ops = ["admin_user_add", "admin_user_add", "admin_user_delete", "login", "login", "login", "login", "logout", "logout_all",
                   "logout_others", "admin_user_logout", "admin_logout_all", "db_add", "db_add", "db_add", "db_delete", "db_remove",
                   "db_user_add", "db_user_add", "db_user_add", "db_user_remove", "exec", "exec", "exec", "exec_mut", "exec_mut",
                   "exec_mut", "exec_mut", "optimize", "audit", "backup", "backup", "restore", "rollback", "clear", "convert", "copy", "copy",
                   "rename", "db_user_list", "db_list"]
        elif prof == "roles":
            # C24, second profile: few operation kinds, many role holders - the same database name under several owners,
            # roles granted, changed and removed, and every role-gated operation tried by every kind of holder
            ops = (["db_add"] * 3 + ["db_user_add"] * 5 + ["db_user_remove"] * 2 + ["exec_mut"] * 5 + ["exec"] * 2 + ["optimize"] * 2
                   + ["clear"] * 2 + ["backup", "restore", "convert", "copy", "rename", "audit", "db_user_list", "db_delete", "login", "logout"])
        elif prof == "batch":
            ops = ["exec_mut"] * 8 + ["exec"] * 2 + ["db_add", "db_user_add", "login", "backup", "restore", "rollback", "clear"]
        else:  # names
            ops = ["db_add"] * 6 + ["copy"] * 4 + ["rename"] * 6 + ["backup", "restore", "rollback", "clear", "db_delete", "db_remove",
                                                                     "exec_mut", "exec_mut", "exec_mut", "exec_mut", "convert", "optimize", "login"]
        op = r.choice(ops)
        admin_api = prof in ("auth", "names") and r.random() < (0.2 if prof == "auth" else (0.5 if op in ("copy", "rename") else 0.2)) and op.startswith(("db_", "exec", "optimize", "audit", "backup", "restore", "rollback",
                                                                           "clear", "convert", "copy", "rename")) and op != "db_list"
        owner = r.choice(USERS)
        db = r.choice(self.names)
        tu = r.choice(USERS + ["admin"] if prof == "auth" else USERS)
        # bias towards requests that have a chance of being performed: an existing database, called by its owner
        # or by somebody holding a role on it (the rest stays uniformly random, bogus tokens included)
        last = getattr(self, "last", [])
        if last and op != "db_add" and r.random() < 0.75:
            d = r.choice(last)
            owner, db = d["owner"], d["db"]
            x = r.random()
            own = 0.25 if prof == "roles" else 0.5
            who = owner if x < own else (r.choice(d["roles"])[0] if d["roles"] and x < 0.8 else None)
            if who and not self.toks.get(who) and r.random() < 0.7:
                self.login(who)
            if who and self.toks.get(who):
                tok = r.choice(self.toks[who])
        elif op == "db_add" and r.random() < 0.7 and self.toks.get(owner):
            tok = r.choice(self.toks[owner])
        if op in ("admin_user_logout", "admin_user_delete", "admin_user_add"):
            tu = r.choice(USERS)
        if op.startswith("admin_") and r.random() < 0.6 and self.toks.get("admin"):
            tok = r.choice(self.toks["admin"])
        if admin_api and r.random() < (0.6 if prof == "auth" else 0.95) and self.toks.get("admin"):
            tok = r.choice(self.toks["admin"])
        e = {"ev": "req", "op": op, "caller": tok, "owner": owner, "db": db, "user": tu, "admin_api": admin_api}
        self.ops[op] = self.ops.get(op, 0) + 1
        if op == "login":
            u = r.choice(USERS + ["admin"])
            self.login(u, None if r.random() < 0.85 else "wrongpassword")
            return
        # the random parameters of the request
        qs = None
        if op in ("db_add", "convert"):
            e["kind"] = r.choice(KINDS)
        elif op == "db_user_add":
            e["role"] = r.choice(ROLES)
        elif op in ("exec", "exec_mut"):
            qs, kinds = self.batch()
            e["batch"] = kinds
        elif op == "clear":
            e["resource"] = r.choice(RESOURCES)
        elif op in ("copy", "rename"):
            e["new_db"] = r.choice(self.names)
            e["new_owner"] = r.choice(USERS) if admin_api else ""
        self.send(e, qs)

    def send(self, e, qs=None):
        """issues the fully specified request e (caller = token) and records it with the status"""
        srv = self.srv
        op, tok, owner, db, tu, admin_api = e["op"], e["caller"], e["owner"], e["db"], e["user"], e["admin_api"]
        pre = ("/admin" if admin_api else "") + "/db/%s/%s" % (seg(owner), seg(db))
        if op in ("logout", "logout_all", "logout_others"):
            q = None if op == "logout" else {"session": "all" if op == "logout_all" else "others"}
            s, _ = srv.call("POST", "/user/logout", tok, query=q)
        elif op == "admin_user_add":
            s, _ = srv.call("POST", "/admin/user/%s/add" % seg(tu), tok, {"password": PW.get(tu, tu + "password")})
        elif op == "admin_user_delete":
            s, _ = srv.call("DELETE", "/admin/user/%s/delete" % seg(tu), tok)
        elif op == "admin_user_logout":
            s, _ = srv.call("POST", "/admin/user/%s/logout" % seg(tu), tok)
        elif op == "admin_logout_all":
            s, _ = srv.call("POST", "/admin/user/logout_all", tok)
        elif op == "db_add":
            s, _ = srv.call("POST", pre + "/add", tok, query={"db_type": e["kind"]})
        elif op == "db_delete":
            s, _ = srv.call("DELETE", pre + "/delete", tok)
        elif op == "db_remove":
            s, _ = srv.call("DELETE", pre + "/remove", tok)
        elif op == "db_user_add":
            s, _ = srv.call("PUT", pre + "/user/%s/add" % seg(tu), tok, query={"db_role": e["role"]})
        elif op == "db_user_remove":
            s, _ = srv.call("DELETE", pre + "/user/%s/remove" % seg(tu), tok)
        elif op == "db_user_list":
            s, _ = srv.call("GET", pre + "/user/list", tok)
        elif op == "db_list":
            s, _ = srv.call("GET", "/db/list", tok)
        elif op in ("exec", "exec_mut"):
            s, b = srv.call("POST", pre + "/" + op, tok, qs)
        elif op == "optimize":
            s, _ = srv.call("POST", pre + "/optimize", tok)
        elif op == "audit":
            s, _ = srv.call("GET", pre + "/audit", tok)
        elif op in ("backup", "restore", "rollback"):
            s, _ = srv.call("POST", pre + "/" + op, tok)
        elif op == "clear":
            s, _ = srv.call("POST", pre + "/clear", tok, query={"resource": e["resource"]})
        elif op == "convert":
            s, _ = srv.call("POST", pre + "/convert", tok, query={"db_type": e["kind"]})
        elif op in ("copy", "rename"):
            q = {"new_db": e["new_db"]}
            if admin_api:
                q["new_owner"] = e["new_owner"]
            s, _ = srv.call("POST", pre + "/" + op, tok, query=q)
        else:
            raise vlib.ToolError("unknown op " + op)
        e["status"] = s
        if 200 <= s < 300:
            # the driver's own belief about live sessions (only used to choose tokens; the model tracks sessions itself)
            def kill(pred):
                for u in list(self.toks):
                    for t in list(self.toks[u]):
                        if pred(u, t):
                            self.toks[u].remove(t)
                            self.dead.append(t)
            me = next((u for u in self.toks if tok in self.toks[u]), None)
            if op == "logout":
                kill(lambda u, t: t == tok)
            elif op == "logout_all":
                kill(lambda u, t: u == me)
            elif op == "logout_others":
                kill(lambda u, t: u == me and t != tok)
            elif op in ("admin_user_logout", "admin_user_delete"):
                kill(lambda u, t: u == tu)
            elif op == "admin_logout_all":
                kill(lambda u, t: u != "admin")
        self.n_req += 1
        if 200 <= s < 300:
            self.n_ok += 1
        self.emit(e)

    def prefix(self):
        """the common start of every run: Reset, the observer session, an admin session, the two users with one session each"""
        self.emit({"ev": "Reset", "profile": self.profile, "names": self.names})
        self.toks = {"admin": []}
        self.dead = []
        self.observer = self.login("admin")
        self.toks["admin"] = []          # the observer session is never handed to the random requests
        self.emit({"ev": "observer", "token": self.observer})
        self.login("admin")
        for u in USERS:
            s, _ = self.srv.call("POST", "/admin/user/%s/add" % seg(u), self.toks["admin"][0], {"password": PW[u]})
            self.emit({"ev": "req", "op": "admin_user_add", "caller": self.toks["admin"][0], "owner": "", "db": "", "user": u,
                       "admin_api": False, "status": s})
            self.observe()
            self.login(u)

    def wipe(self):
        """back to an empty server between replayed histories (not part of any trace): every database deleted, the users
        deleted, every session closed"""
        s, b = self.srv.call("POST", "/user/login", None, {"username": "admin", "password": PW["admin"]})
        a = json.loads(b) if s == 200 else ""
        s, b = self.srv.call("GET", "/admin/db/list", a)
        for d in (json.loads(b) if s == 200 else []):
            self.srv.call("DELETE", "/admin/db/%s/%s/delete" % (seg(d["owner"]), seg(d["db"])), a)
        s, b = self.srv.call("GET", "/admin/user/list", a)
        for u in (json.loads(b) if s == 200 else []):
            if u["username"] != "admin":
                self.srv.call("DELETE", "/admin/user/%s/delete" % seg(u["username"]), a)
        self.srv.call("POST", "/admin/user/logout_all", a)
        self.srv.call("POST", "/user/logout", a, query={"session": "all"})

    def wipe_dbs(self):
        """deletes every database (not part of any trace); users and sessions stay"""
        a = self.observer
        s, b = self.srv.call("GET", "/admin/db/list", a)
        for d in (json.loads(b) if s == 200 else []):
            self.srv.call("DELETE", "/admin/db/%s/%s/delete" % (seg(d["owner"]), seg(d["db"])), a)

    def prefix_again(self):
        """start of a further run on the same server after wipe_dbs(): the users and the sessions of the first run are still
        there; the run starts with Reset, the records of the logins that produced the live sessions, and a baseline
        observation (ServerTrace takes an observation without pending request as the new state)"""
        self.emit({"ev": "Reset", "profile": self.profile, "names": self.names})
        self.emit({"ev": "observer", "token": self.observer})
        self.observe()
        for u, tl in self.toks.items():
            for t in tl:
                self.emit({"ev": "login", "user": u, "good_password": True, "status": 200, "token": t, "replayed_record": True})

    def replay(self, reqs, first=True):
        """one TLC-generated request history (MCServerExport): callers are user names; every user has one session.
        Returns the number of requests whose outcome (performed / rejected) is what the model expected."""
        if first:
            self.prefix()
        else:
            self.prefix_again()
        agree = 0
        for m in reqs:
            if not self.srv.alive():
                self.emit({"ev": "Died", "msg": "the server process exited"})
                return agree
            c = m["caller"]
            tok = self.toks[c][0] if self.toks.get(c) else "bogus-token"
            e = {"ev": "req", "op": m["op"], "caller": tok, "owner": m["owner"], "db": m["db"], "user": m["user"],
                 "admin_api": bool(m["admin_api"])}
            qs = None
            op = m["op"]
            if op in ("db_add", "convert"):
                e["kind"] = m["kind"]
            elif op == "db_user_add":
                e["role"] = m["role"]
            elif op in ("exec", "exec_mut"):
                e["batch"] = m["batch"]
                qs = [q_insert(k[1]) if k[0] == "insert" else Q[k[0]] for k in m["batch"]]
            elif op == "clear":
                e["resource"] = m["resource"]
            elif op in ("copy", "rename"):
                e["new_db"] = m["new_db"]
                e["new_owner"] = m["new_owner"]
            self.ops[op] = self.ops.get(op, 0) + 1
            self.send(e, qs)
            if (200 <= e["status"] < 300) == bool(m.get("expect")):
                agree += 1
            self.observe()
        return agree

    def run(self, steps):
        self.prefix()
        for _ in range(steps):
            if not self.srv.alive():
                self.emit({"ev": "Died", "msg": "the server process exited"})
                return
            self.step()
            self.observe()


NAME_SETS = {
    "plain": ["d1", "d2"],
    # path-like names (C26): hidden files, sub-directories of the owner directory that the server itself uses,
    # traversal, names that differ only by what a path join normalises
    "paths": ["a", ".a", "a.bak", "audit", "backups", "audit/a.log", "backups/a.bak", "backups/a.log", "../a", "../bob/a",
              "a/../b", "./a", "a/b", "..", "b", "b.log", "a"],
}


def record(binary, work, profile, runs, steps, seed):
    """runs `runs` fresh servers; returns (trace events, summary)"""
    events = []
    summ = {"runs": 0, "requests": 0, "requests_ok": 0, "ops": {}}
    for i in range(runs):
        rng = random.Random(seed * 100003 + i * 7919 + {"auth": 1, "batch": 2, "names": 3, "roles": 4}[profile])
        srv = Server(binary, os.path.join(work, "srv%d" % i, "cwd"))
        srv.start()
        try:
            names = NAME_SETS["paths"] if profile == "names" else NAME_SETS["plain"]
            r = Run(srv, rng, names, events, profile)
            r.run(steps)
            summ["runs"] += 1
            summ["requests"] += r.n_req
            summ["requests_ok"] += r.n_ok
            for k, v in r.ops.items():
                summ["ops"][k] = summ["ops"].get(k, 0) + v
        finally:
            srv.stop()
            shutil.rmtree(os.path.join(work, "srv%d" % i), ignore_errors=True)
    return events, summ
