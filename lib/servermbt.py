"""Spec -> implementation direction for the server (C24): TLC-generated request histories (MCServerExport.tla: one
shortest history through every transition of the bounded permission model) replayed on real agdb_server processes;
ServerTrace decides the replayed runs (status 2xx => valid session and Permitted; rejected => no effect; performed =>
frame and effect)."""
import json
import os
import shutil
import time
from concurrent.futures import ThreadPoolExecutor

import serverdrv
import vlib
from vlib import log

PREFIX = '<<"MBT", "'


def export(cfg, work):
    empty = os.path.join(work, "empty.ndjson")
    open(empty, "w").close()
    r = vlib.tlc("MCServerExport", cfg, workers=1, timeout=1500, xmx="4g", tag="srvmbt", env_extra={"TRACE": empty})
    vlib.require_mc_ok(r, cfg)
    if r.violated:
        raise vlib.ToolError("MCServerExport violates %s: the constructive model and ServerTrace!Effect disagree (specification error)" % r.violated)
    hs = []
    for line in r.output.splitlines():
        if line.startswith(PREFIX) and line.endswith('">>'):
            hs.append(json.loads(line[len(PREFIX):-3].replace('\\"', '"').replace('\\\\', '\\')))
    if not hs or len(hs) != r.generated - 1:  # one history per generated transition
        raise vlib.ToolError("MCServerExport printed %d histories for %d generated states" % (len(hs), r.generated))
    return hs, r


def replay_chunk(binary, work, j, histories):
    """one server process for the whole chunk, wiped between histories; returns (events, summary)"""
    events = []
    summ = {"histories": 0, "requests": 0, "requests_ok": 0, "ops": {}, "died": 0, "as_expected": 0}
    srv = serverdrv.Server(binary, os.path.join(work, "mbtsrv%d" % j, "cwd"))
    srv.start()
    try:
        run = serverdrv.Run(srv, None, ["x", "y"], events, "mbt")
        first = True
        for h in histories:
            if not srv.alive():
                summ["died"] += 1
                events.append({"ev": "Reset", "profile": "mbt", "names": ["x", "y"]})
                events.append({"ev": "Died", "msg": "the server process exited"})
                srv = serverdrv.Server(binary, os.path.join(work, "mbtsrv%d_%d" % (j, summ["histories"]), "cwd"))
                srv.start()
                run.srv = srv
                first = True
            if not first:
                run.wipe_dbs()
            summ["as_expected"] += run.replay(h, first)
            first = False
            summ["histories"] += 1
        summ["requests"] = run.n_req
        summ["requests_ok"] = run.n_ok
        summ["ops"] = run.ops
    finally:
        srv.stop()
        shutil.rmtree(os.path.join(work, "mbtsrv%d" % j), ignore_errors=True)
    return events, summ


def run(prop, tier, verdict, work, classify, brief, focus="auth"):
    t0 = time.time()
    thorough = tier == "thorough"
    binary = vlib.build_server()
    # depth 4 (8 320 transitions); the quick tier replays every history of <= 2 requests, a seeded quarter of those with 3
    # and a seeded eighth of those with 4
    hs, r = export("MCServerExport.cfg", work)
    n_all = len(hs)
    if not thorough:
        sd = vlib.seed()
        hs = [h for i, h in enumerate(hs) if len(h) <= 2 or (len(h) == 3 and i % 4 == sd % 4) or (len(h) == 4 and i % 8 == sd % 8)]
    jobs = 8
    chunks = [(j, hs[j::jobs]) for j in range(jobs) if hs[j::jobs]]
    with ThreadPoolExecutor(max_workers=jobs) as ex:
        results = list(ex.map(lambda c: replay_chunk(binary, work, c[0], c[1]), chunks))
    events = [e for evs, _ in results for e in evs]
    summ = {"histories": 0, "requests": 0, "requests_ok": 0, "died": 0, "as_expected": 0, "ops": {}}
    for _, s in results:
        for k in ("histories", "requests", "requests_ok", "died", "as_expected"):
            summ[k] += s[k]
        for k, v in s["ops"].items():
            summ["ops"][k] = summ["ops"].get(k, 0) + v
    total = sum(len(h) for h in hs)
    if summ["died"] == 0 and summ["as_expected"] < 0.9 * total:
        # vacuity guard: the specification accepts every rejection, so a replay in which the server rejects what the model
        # expects it to perform exercises nothing
        raise vlib.ToolError("only %d of %d replayed requests had the outcome the model expects" % (summ["as_expected"], total))
    trace = os.path.join(work, "server_mbt_trace.ndjson")
    vlib.write_ndjson(trace, events)
    acc, rej, checked, wall = vlib.validate_runs_skip("ServerTrace", "ServerTrace_%s.cfg" % focus, trace, timeout=3000, xmx="6g",
                                                      tag=prop.lower() + "mbt")
    log("[%s] MBT (MCServerExport, %d transitions of %d distinct permission states, depth %d): histories=%d requests=%d (2xx: %d) "
        "accepted=%d rejected=%d events=%d died=%d %.0fs" % (prop, len(hs), r.distinct, r.depth, summ["histories"], summ["requests"],
                                                              summ["requests_ok"], acc, len(rej), checked, summ["died"], time.time() - t0))
    by = {}
    for x in rej:
        sig = "mbt:" + classify(x["event"], x["prefix"])
        by[sig] = by.get(sig, 0) + 1
        if by[sig] <= 2:
            verdict.report(sig, "ServerTrace (%s) rejects the replay of a TLC-generated request history at event %d: %s" %
                           (focus, x["event_index"], vlib.short(x["event"], 300)),
                           {"event": x["event"] if x["event"].get("ev") != "obs" else brief([x["event"]])[0], "history": brief(x["prefix"][:-1], 30)})
        else:
            verdict.count(sig)
    return {"transitions_of_model": n_all, "transitions_replayed": len(hs), "distinct_permission_states": r.distinct, "depth": r.depth, "histories": summ["histories"],
            "requests": summ["requests"], "requests_performed": summ["requests_ok"], "requests_with_expected_outcome": summ["as_expected"], "accepted": acc, "rejected": len(rej),
            "events": checked, "operations": summ["ops"], "rejections_by_signature": by, "tlc": r.summary()}
