"""Shared machinery for /verif checks: building the harness, running TLC (model checking and
trace validation), evidence files, known findings, verdicts.

Exit-code contract (DESIGN.md section 1): 0 held / 1 VIOLATION printed / 2 tool error.
"""
import json
import os
import re
import shutil
import subprocess
import sys
import time

VERIF = os.path.dirname(os.path.dirname(os.path.abspath(__file__)))
REPO = os.environ.get("VERIF_REPO", "/repo")
SPEC = os.path.join(VERIF, "spec")
HARNESS = os.path.join(VERIF, "harness")
TARGET = os.path.join(HARNESS, "target")
SCRATCH_ROOT = os.path.join(TARGET, "scratch")
EVIDENCE = os.path.join(VERIF, "evidence")
REPLAY = os.path.join(VERIF, "replay")
TLA_CP = "/opt/veriftools/tla/tla2tools.jar:/opt/veriftools/tla/CommunityModules-deps.jar"


class ToolError(Exception):
    pass


def log(*a):
    print(*a, flush=True)


def seed():
    try:
        return int(os.environ.get("VERIF_SEED", "1"))
    except ValueError:
        return 1


def scratch(name):
    d = os.path.join(SCRATCH_ROOT, "%s.%d" % (name, os.getpid()))
    shutil.rmtree(d, ignore_errors=True)
    os.makedirs(d)
    return d


def rm_scratch(d):
    shutil.rmtree(d, ignore_errors=True)


# ----------------------------------------------------------------------------- cargo

def cargo_env():
    env = dict(os.environ)
    env["CARGO_NET_OFFLINE"] = "true"
    # nothing inherited from the caller's shell may redirect or reconfigure the build (a CARGO_TARGET_DIR left in the
    # environment once made a check run a stale binary): the harness configuration is in harness/.cargo/config.toml
    for k in ("RUSTFLAGS", "CARGO_TARGET_DIR", "CARGO_BUILD_TARGET_DIR", "CARGO_BUILD_RUSTFLAGS", "CARGO_ENCODED_RUSTFLAGS",
              "CARGO_BUILD_TARGET", "RUSTC_WRAPPER", "CARGO_INCREMENTAL"):
        env.pop(k, None)
    return env


def ensure_lock():
    lock = os.path.join(HARNESS, "Cargo.lock")
    if not os.path.exists(lock):
        shutil.copy(os.path.join(REPO, "Cargo.lock"), lock)


def _repo_source_hash(dirs):
    import hashlib
    h = hashlib.sha256()
    for d in dirs:
        for base, subdirs, files in os.walk(os.path.join(REPO, d)):
            subdirs.sort()
            if "target" in subdirs:
                subdirs.remove("target")
            for f in sorted(files):
                if f.endswith((".rs", ".toml")):
                    p = os.path.join(base, f)
                    h.update(p.encode())
                    with open(p, "rb") as fh:
                        h.update(fh.read())
    return h.hexdigest()


def _stale(stamp_name, now):
    stamp = os.path.join(TARGET, ".src_hash_" + stamp_name)
    old = open(stamp).read().strip() if os.path.exists(stamp) else ""
    return stamp, old != now


def _drop_fingerprints(fingerprint_dir, crates):
    """cargo decides by modification times; a check must never run a stale binary, so the content hash of the /repo
    sources is kept next to the build output and, when it differs, the fingerprints of the /repo crates and of the
    harness package are removed (cargo then recompiles them whatever the time stamps say)."""
    import glob
    for c in crates:
        for d in glob.glob(os.path.join(fingerprint_dir, c + "-*")):
            shutil.rmtree(d, ignore_errors=True)


def build(packages, timeout=1800):
    """Incremental build of harness packages against /repo's working tree. Returns dir with binaries."""
    ensure_lock()
    os.makedirs(TARGET, exist_ok=True)
    now = _repo_source_hash(["agdb", "agdb_derive", "agdb_server/src"])
    stamps = []
    for p in packages:
        stamp, stale = _stale(p, now)
        stamps.append(stamp)
        if stale:
            _drop_fingerprints(os.path.join(TARGET, "release", ".fingerprint"), ["agdb", "agdb_derive", p])
    cmd = ["cargo", "build", "--release", "--offline", "--target-dir", TARGET]
    for p in packages:
        cmd += ["-p", p]
    t0 = time.time()
    r = subprocess.run(cmd, cwd=HARNESS, env=cargo_env(), stdout=subprocess.PIPE,
                       stderr=subprocess.STDOUT, text=True, timeout=timeout)
    if r.returncode != 0:
        log(r.stdout[-6000:])
        raise ToolError("cargo build failed for %s" % packages)
    for stamp in stamps:
        with open(stamp, "w") as f:
            f.write(now)
    log("[build] %s ok in %.1fs" % (",".join(packages), time.time() - t0))
    return os.path.join(TARGET, "release")


def build_server(timeout=3600):
    """Build the real agdb_server binary from /repo with the hook guard on."""
    out = os.path.join(TARGET, "server")
    os.makedirs(TARGET, exist_ok=True)
    now = _repo_source_hash(["agdb", "agdb_derive", "agdb_api", "agdb_server"])
    stamp, stale = _stale("agdb_server", now)
    if stale:
        _drop_fingerprints(os.path.join(out, "debug", ".fingerprint"), ["agdb", "agdb_derive", "agdb_api", "agdb_server"])
    env = cargo_env()
    env["RUSTFLAGS"] = "--cfg agdb_verif --check-cfg cfg(agdb_verif)"
    cmd = ["cargo", "build", "--offline", "--manifest-path", os.path.join(REPO, "Cargo.toml"),
           "-p", "agdb_server", "--target-dir", out]
    t0 = time.time()
    r = subprocess.run(cmd, env=env, stdout=subprocess.PIPE, stderr=subprocess.STDOUT,
                       text=True, timeout=timeout)
    if r.returncode != 0:
        log(r.stdout[-6000:])
        raise ToolError("cargo build of agdb_server failed")
    with open(stamp, "w") as f:
        f.write(now)
    log("[build] agdb_server ok in %.1fs" % (time.time() - t0))
    return os.path.join(out, "debug", "agdb_server")


def run_bin(binary, args, timeout=3600, env_extra=None, stdin=None):
    env = dict(os.environ)
    if env_extra:
        env.update(env_extra)
    r = subprocess.run([binary] + [str(a) for a in args], env=env, stdout=subprocess.PIPE,
                       stderr=subprocess.PIPE, text=True, timeout=timeout, input=stdin)
    return r


def _limit_as(gb):
    def f():
        import resource
        resource.setrlimit(resource.RLIMIT_AS, (gb << 30, gb << 30))
        resource.setrlimit(resource.RLIMIT_CORE, (0, 0))
    return f


def run_chunked(binary, sub, base_args, total, chunk, work, jobs=8, timeout=3000, as_gb=8):
    """Run `binary sub --first a --programs n --work <dir> --out <trace>` over [0,total) in parallel
    chunks. A child that dies (abort, signal, timeout) is data, not a tool error: its chunk is re-run
    one program per child, and the programs that die again are returned in `died`.
    Returns (summaries, trace_files_in_order, died[list of (program, how)])."""
    import concurrent.futures as cf

    def one(a, n):
        d = os.path.join(work, "c%d_%d" % (a, n))
        os.makedirs(d, exist_ok=True)
        out = os.path.join(d, "trace.ndjson")
        cmd = [binary, sub, "--first", str(a), "--programs", str(n), "--work", d, "--out", out] + \
              [str(x) for x in base_args]
        try:
            r = subprocess.run(cmd, stdout=subprocess.PIPE, stderr=subprocess.PIPE, text=True,
                               timeout=timeout, preexec_fn=_limit_as(as_gb))
        except subprocess.TimeoutExpired:
            return (a, n, None, out, "timeout")
        if r.returncode != 0:
            tail = (r.stderr or "").strip().splitlines()[-12:]
            how = "exit %d: %s" % (r.returncode, " | ".join(tail)[:600])
            return (a, n, None, out, how)
        try:
            summ = json.loads(r.stdout.strip().splitlines()[-1])
        except Exception:
            return (a, n, None, out, "no summary")
        return (a, n, summ, out, None)

    chunks = [(a, min(chunk, total - a)) for a in range(0, total, chunk)]
    results = {}
    died = []
    with cf.ThreadPoolExecutor(max_workers=jobs) as ex:
        todo = list(chunks)
        while todo:
            futs = [ex.submit(one, a, n) for (a, n) in todo]
            todo = []
            for f in futs:
                a, n, summ, out, how = f.result()
                if how is None:
                    results[a] = (summ, out)
                elif n > 1:
                    todo += [(b, 1) for b in range(a, a + n)]
                else:
                    died.append((a, how))
                    results[a] = (None, None)
    order = sorted(results)
    return [results[a][0] for a in order if results[a][0]], \
           [results[a][1] for a in order if results[a][1]], sorted(died)


def concat_traces(files, out, extra_events=None):
    with open(out, "w") as o:
        for f in files:
            with open(f) as i:
                shutil.copyfileobj(i, o)
        for e in (extra_events or []):
            o.write(json.dumps(e) + "\n")


def sum_keys(summaries, keys):
    return {k: sum(s.get(k, 0) for s in summaries) for k in keys}


# ----------------------------------------------------------------------------- TLC

STATS_RE = re.compile(r"(\d+) states generated, (\d+) distinct states found, (\d+) states left on queue")
DEPTH_RE = re.compile(r"The depth of the complete state graph search is (\d+)")
INV_RE = re.compile(r"Error: Invariant (\S+) is violated")
ACTPROP_RE = re.compile(r"Error: Action property (\S+) is violated")
TEMPORAL_RE = re.compile(r"Error: Temporal properties were violated")


class TlcResult:
    def __init__(self):
        self.ok = False
        self.generated = 0
        self.distinct = 0
        self.depth = 0
        self.violated = None
        self.output = ""
        self.wall = 0.0
        self.cmd = ""
        self.timed_out = False
        self.prints = []   # PrintT outputs (raw lines)

    def summary(self):
        return {"cmd": self.cmd, "generated": self.generated, "distinct": self.distinct,
                "depth": self.depth, "violated": self.violated, "wall_s": round(self.wall, 1),
                "timed_out": self.timed_out}


def tlc(module, cfg, workers=8, timeout=600, xmx="8g", env_extra=None, extra_args=None,
        jvm_props=None, cwd=SPEC, simulate=None, depth=None, coverage=False, xss=None,
        tag="mc"):
    """Run TLC on spec/<module>.tla with spec/<cfg>. Returns TlcResult. Does not raise on violation."""
    meta = scratch("tlc_" + tag)
    java = ["java", "-XX:+UseParallelGC", "-Xmx" + xmx]
    if xss:
        java.append("-Xss" + xss)
    for p in (jvm_props or []):
        java.append("-D" + p)
    java += ["-cp", TLA_CP, "tlc2.TLC"]
    args = ["-workers", str(workers), "-metadir", meta, "-cleanup", "-noGenerateSpecTE",
            "-config", cfg]
    if simulate:
        args += ["-simulate", simulate]
    if depth:
        args += ["-depth", str(depth)]
    if coverage:
        args += ["-coverage", "1"]
    args += (extra_args or [])
    args.append(module if module.endswith(".tla") else module + ".tla")
    env = dict(os.environ)
    env.pop("JAVA_TOOL_OPTIONS", None)
    if env_extra:
        env.update(env_extra)
    res = TlcResult()
    res.cmd = "tlc " + " ".join(a for a in args if a != meta)
    t0 = time.time()
    try:
        r = subprocess.run(java + args, cwd=cwd, env=env, stdout=subprocess.PIPE,
                           stderr=subprocess.STDOUT, text=True, timeout=timeout)
        out = r.stdout
        rc = r.returncode
    except subprocess.TimeoutExpired as e:
        out = (e.stdout or b"")
        if isinstance(out, bytes):
            out = out.decode("utf-8", "replace")
        rc = -9
        res.timed_out = True
    res.wall = time.time() - t0
    res.output = out
    res.rc = rc
    rm_scratch(meta)
    for m in STATS_RE.finditer(out):
        res.generated, res.distinct = int(m.group(1)), int(m.group(2))
    m = DEPTH_RE.search(out)
    if m:
        res.depth = int(m.group(1))
    m = INV_RE.search(out) or ACTPROP_RE.search(out)
    if m:
        res.violated = m.group(1)
    elif TEMPORAL_RE.search(out):
        res.violated = "temporal"
    res.ok = (rc == 0 and res.violated is None)
    return res


def require_mc_ok(res, what):
    """A model-checking run that neither finished nor found a violation is a tool error."""
    if res.timed_out:
        raise ToolError("TLC timed out: %s" % what)
    if not res.ok and res.violated is None:
        log(res.output[-4000:])
        raise ToolError("TLC failed (%s): rc=%s" % (what, getattr(res, "rc", "?")))


def parse_tlc_trace(output):
    """Extract the counterexample states of a TLC error trace as a list of (action_label, text)."""
    states = []
    cur = None
    for line in output.splitlines():
        m = re.match(r"State (\d+): (.*)", line)
        if m:
            cur = [m.group(2), []]
            states.append(cur)
        elif cur is not None:
            if line.strip() == "" or line.startswith("Error:") or "states generated" in line:
                cur = None
            else:
                cur[1].append(line)
    return [(a, "\n".join(b)) for a, b in states]


REJ_RE = re.compile(r"TRACE_REJECTED[^0-9]*(\d+)")
ACC_RE = re.compile(r"TRACE_ACCEPTED[^0-9]*(\d+)")


class TvResult:
    def __init__(self):
        self.accepted = False
        self.events = 0
        self.rejected_at = None   # 1-based line number of first unmatched event
        self.wall = 0.0
        self.output = ""
        self.distinct = 0
        self.generated = 0


def validate_trace(module, cfg, trace_file, timeout=900, xmx="4g", env_extra=None, tag="tv",
                   dfs=True):
    """Trace validation: TRACE env var names the ndjson file; the trace spec's POSTCONDITION prints
    TRACE_ACCEPTED <n> or TRACE_REJECTED <first unmatched line>."""
    props = ["tlc2.tool.queue.IStateQueue=StateDeque"] if dfs else []
    env = {"TRACE": trace_file}
    if env_extra:
        env.update(env_extra)
    r = tlc(module, cfg, workers=1, timeout=timeout, xmx=xmx, env_extra=env, jvm_props=props,
            xss="1g", tag=tag)
    tv = TvResult()
    tv.wall = r.wall
    tv.output = r.output
    tv.distinct = r.distinct
    tv.generated = r.generated
    if r.timed_out:
        raise ToolError("trace validation timed out on %s" % trace_file)
    ma = ACC_RE.search(r.output)
    mr = REJ_RE.search(r.output)
    if ma and not mr and r.rc == 0:
        tv.accepted = True
        tv.events = int(ma.group(1))
    elif mr:
        tv.rejected_at = int(mr.group(1))
    else:
        log(r.output[-5000:])
        raise ToolError("trace validation produced no verdict for %s (rc=%s)" % (trace_file, r.rc))
    return tv


# ----------------------------------------------------------------------------- traces

def read_ndjson(path):
    out = []
    with open(path) as f:
        for line in f:
            line = line.strip()
            if line:
                out.append(json.loads(line))
    return out


def write_ndjson(path, events):
    with open(path, "w") as f:
        for e in events:
            f.write(json.dumps(e, separators=(",", ":")) + "\n")


def split_runs(events, reset="Reset"):
    """Split a concatenated trace into runs; each run starts with its Reset event."""
    runs = []
    for e in events:
        if e.get("ev") == reset or not runs:
            runs.append([])
        runs[-1].append(e)
    return runs


def validate_runs(module, cfg, trace_file, work_dir, classify=None, max_rejections=40, **kw):
    """Validate a multi-run trace. On rejection at line k: record (run, event, prefix), drop that run
    and re-validate the rest, so one rejected run does not hide the others.
    Returns (accepted_runs, rejections[list of dict], total_events_checked, tlc_wall)."""
    events = read_ndjson(trace_file)
    runs = split_runs(events)
    pending = list(range(len(runs)))
    rejections = []
    accepted = 0
    checked = 0
    wall = 0.0
    it = 0
    while pending:
        it += 1
        cur = os.path.join(work_dir, "tv_%s_%d.ndjson" % (os.path.basename(trace_file), it))
        flat = []
        index = []
        for ri in pending:
            for ei, e in enumerate(runs[ri]):
                flat.append(e)
                index.append((ri, ei))
        write_ndjson(cur, flat)
        tv = validate_trace(module, cfg, cur, **kw)
        wall += tv.wall
        if tv.accepted:
            accepted += len(pending)
            checked += len(flat)
            break
        k = tv.rejected_at
        if k is None or k < 1 or k > len(flat):
            raise ToolError("bad rejection index %s for %s" % (k, trace_file))
        ri, ei = index[k - 1]
        # everything before run ri was accepted
        done = [p for p in pending if p < ri]
        accepted += len(done)
        checked += sum(len(runs[p]) for p in done) + ei
        rejections.append({"run": ri, "event_index": ei, "event": runs[ri][ei],
                           "prefix": runs[ri][:ei + 1]})
        pending = [p for p in pending if p > ri]
        if len(rejections) >= max_rejections:
            break
    return accepted, rejections, checked, wall


SKIP_REJ_RE = re.compile(r'"RUN_REJECTED", (\d+)')
SKIP_END_RE = re.compile(r'"TRACE_END", (\d+)')


def validate_runs_skip(module, cfg, trace_file, timeout=1800, xmx="6g", tag="tvs"):
    """One TLC pass over a multi-run trace with a skip-mode trace specification (deterministic trace specs only):
    every run whose next event no action accepts is reported and abandoned, validation resumes at the next Reset.
    Returns (accepted_runs, rejections, events_checked, wall) like validate_runs."""
    events = read_ndjson(trace_file)
    runs = split_runs(events)
    starts = []
    n = 0
    for r in runs:
        starts.append(n)
        n += len(r)
    r = tlc(module, cfg, workers=1, timeout=timeout, xmx=xmx, env_extra={"TRACE": trace_file},
            jvm_props=["tlc2.tool.queue.IStateQueue=StateDeque"], xss="1g", tag=tag)
    if r.timed_out:
        raise ToolError("trace validation timed out on %s" % trace_file)
    m = SKIP_END_RE.search(r.output)
    if r.rc != 0 or not m or int(m.group(1)) != len(events):
        log(r.output[-5000:])
        raise ToolError("skip-mode trace validation did not reach the end of %s (rc=%s)" % (trace_file, r.rc))
    import bisect
    rejections = []
    for m in SKIP_REJ_RE.finditer(r.output):
        line = int(m.group(1))          # 1-based
        ri = bisect.bisect_right(starts, line - 1) - 1
        ei = line - 1 - starts[ri]
        rejections.append({"run": ri, "event_index": ei, "event": runs[ri][ei], "prefix": runs[ri][:ei + 1]})
    bad = {x["run"] for x in rejections}
    checked = sum(len(runs[i]) for i in range(len(runs)) if i not in bad) + sum(x["event_index"] for x in rejections)
    return len(runs) - len(bad), rejections, checked, r.wall


# ----------------------------------------------------------------------------- findings, verdicts

def load_findings():
    p = os.path.join(VERIF, "known_findings.json")
    if not os.path.exists(p):
        return {"findings": [], "fixed": []}
    with open(p) as f:
        return json.load(f)


class Verdict:
    """Collects violations for one property; matches them against known_findings.json by signature."""

    def __init__(self, prop):
        self.prop = prop
        self.known = [f for f in load_findings().get("findings", []) if f["property"] == prop]
        self.violations = []      # (signature, what, replay_path)
        self.known_seen = {}      # signature -> count
        self.more = {}            # further occurrences of already reported violations

    def report(self, signature, what, replay_obj):
        for f in self.known:
            if f["signature"] == signature:
                if signature not in self.known_seen:
                    log("KNOWN-FINDING: property=%s %s [%s]" % (self.prop, f["what"], signature))
                self.known_seen[signature] = self.known_seen.get(signature, 0) + 1
                return False
        d = os.path.join(REPLAY, self.prop)
        os.makedirs(d, exist_ok=True)
        path = os.path.join(d, "violation_%d_%d.json" % (seed(), len(self.violations)))
        with open(path, "w") as f:
            json.dump({"property": self.prop, "signature": signature, "what": what,
                       "replay": replay_obj}, f, indent=1, default=str)
        self.violations.append((signature, what, path))
        log("VIOLATION property=%s replay=%s" % (self.prop, path))
        log("  signature=%s  %s" % (signature, what))
        return True

    def count(self, signature):
        """a further occurrence of a signature already reported through report()"""
        if signature in self.known_seen:
            self.known_seen[signature] += 1
        else:
            self.more[signature] = self.more.get(signature, 0) + 1

    def exit_code(self):
        return 1 if self.violations else 0


def write_evidence(prop, tier, level, coverage, assumptions, wall, violations, extra=None):
    os.makedirs(EVIDENCE, exist_ok=True)
    ev = {"property_id": prop, "tier": tier, "seed": seed(), "level": level, "coverage": coverage,
          "assumptions": assumptions, "wall_s": round(wall, 2), "violations": violations}
    if extra:
        ev.update(extra)
    with open(os.path.join(EVIDENCE, prop + ".json"), "w") as f:
        json.dump(ev, f, indent=1, default=str)
    return ev


def short(obj, n=600):
    s = json.dumps(obj, default=str)
    return s if len(s) <= n else s[:n] + "..."
