use agdb::{AgdbSerialize, DbSerialize};
use rand::{Rng, SeedableRng, rngs::StdRng};
use serde_json::{json, Value};

#[derive(Debug, Clone, PartialEq, DbSerialize)] struct Named { a: u64, b: String, c: Vec<String> }
#[derive(Debug, Clone, PartialEq, DbSerialize)] struct Tup(i64, Vec<u8>);
#[derive(Debug, Clone, PartialEq, DbSerialize)] enum En { Unit, Tuple(u64, String), Struct { x: i64, y: Vec<i64> }, Nested(Named) }

// value tree: ["leaf", nbytes] | ["len", n, [children...]] (length-prefixed) | ["seq", [children...]] | ["tag", idx, [children...]]
fn t_u64() -> Value { json!(["leaf", 8]) }
fn t_str(s: &str) -> Value { json!(["len", s.len(), [["leaf", s.len()]]]) }
fn t_bytes(b: &[u8]) -> Value { json!(["len", b.len(), [["leaf", b.len()]]]) }
fn t_vec(items: Vec<Value>) -> Value { json!(["len", items.len(), items]) }
fn t_named(n: &Named) -> Value { json!(["seq", [t_u64(), t_str(&n.b), t_vec(n.c.iter().map(|s| t_str(s)).collect())]]) }
fn rs(rng: &mut StdRng) -> String { let l = rng.gen_range(0..20); (0..l).map(|_| ['a', 'é', 'z', '0', '字'][rng.gen_range(0..5)]).collect() }
fn emit<T: AgdbSerialize + PartialEq + std::fmt::Debug>(name: &str, v: &T, tree: Value) {
    let bytes = v.serialize(); let size = v.serialized_size();
    let back = T::deserialize(&bytes);
    println!("{}", json!({"ev":"Codec","ty":name,"tree":tree,"bytes":bytes,"size":size,"roundtrip": back.as_ref().map(|b| b == v).unwrap_or(false)}));
}
fn main() {
    let seed: u64 = std::env::args().nth(1).unwrap().parse().unwrap(); let n: usize = std::env::args().nth(2).unwrap().parse().unwrap();
    let mut rng = StdRng::seed_from_u64(seed);
    for _ in 0..n {
        match rng.gen_range(0..9) {
            0 => { let v: u64 = rng.r#gen(); emit("u64", &v, t_u64()); }
            1 => { let v: i64 = rng.r#gen(); emit("i64", &v, t_u64()); }
            2 => { let v = rs(&mut rng); emit("String", &v, t_str(&v)); }
            3 => { let l = rng.gen_range(0..20); let v: Vec<u8> = (0..l).map(|_| rng.r#gen()).collect(); emit("Vec<u8>", &v, t_bytes(&v)); }
            4 => { let l = rng.gen_range(0..4); let v: Vec<String> = (0..l).map(|_| rs(&mut rng)).collect(); emit("Vec<String>", &v, t_vec(v.iter().map(|s| t_str(s)).collect())); }
            5 => { let l = rng.gen_range(0..4); let v: Vec<i64> = (0..l).map(|_| rng.r#gen()).collect(); emit("Vec<i64>", &v, t_vec(v.iter().map(|_| t_u64()).collect())); }
            6 => { let l = rng.gen_range(0..3); let v = Named { a: rng.r#gen(), b: rs(&mut rng), c: (0..l).map(|_| rs(&mut rng)).collect() }; emit("Named", &v, t_named(&v)); }
            7 => { let l = rng.gen_range(0..6); let v = Tup(rng.r#gen(), (0..l).map(|_| rng.r#gen()).collect()); emit("Tup", &v, json!(["seq", [t_u64(), t_bytes(&v.1)]])); }
            _ => { let v = match rng.gen_range(0..4) { 0 => En::Unit, 1 => En::Tuple(rng.r#gen(), rs(&mut rng)), 2 => { let l = rng.gen_range(0..3); En::Struct { x: rng.r#gen(), y: (0..l).map(|_| rng.r#gen()).collect() } }, _ => En::Nested(Named { a: 1, b: rs(&mut rng), c: vec![rs(&mut rng)] }) };
                   let tree = match &v { En::Unit => json!(["tag", 0, []]), En::Tuple(_, s) => json!(["tag", 1, [t_u64(), t_str(s)]]), En::Struct { y, .. } => json!(["tag", 2, [t_u64(), t_vec(y.iter().map(|_| t_u64()).collect())]]), En::Nested(nm) => json!(["tag", 3, [t_named(nm)]]) };
                   emit("En", &v, tree); }
        }
    }
}
