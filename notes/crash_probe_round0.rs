use agdb::*;
use std::panic::{catch_unwind, AssertUnwindSafe};
use std::cell::{Cell, RefCell};
use std::rc::Rc;

struct Shared { n: Cell<u32>, q: Cell<u32>, dir: String, snaps: RefCell<Vec<(u32, String, String)>> }
struct Spy { inner: FileStorage, sh: Rc<Shared> }
impl Spy {
    fn snap(&self, what: &str) {
        let k = self.sh.n.get(); self.sh.n.set(k + 1);
        let name = self.inner.name().to_string();
        let wal = format!("{}/.db", self.sh.dir);
        let d = format!("{}/s{:05}", self.sh.dir, k);
        std::fs::create_dir_all(&d).unwrap();
        std::fs::copy(&name, format!("{d}/db")).unwrap();
        if std::path::Path::new(&wal).exists() { std::fs::copy(&wal, format!("{d}/.db")).unwrap(); }
        self.sh.snaps.borrow_mut().push((self.sh.q.get(), what.to_string(), d));
    }
}
impl StorageData for Spy {
    fn backup(&self, n: &str) -> Result<(), DbError> { self.inner.backup(n) }
    fn copy(&self, _n: &str) -> Result<Self, DbError> { unimplemented!() }
    fn flush(&mut self) -> Result<(), DbError> { self.snap("flush"); self.inner.flush() }
    fn len(&self) -> u64 { self.inner.len() }
    fn name(&self) -> &str { self.inner.name() }
    fn new(_n: &str) -> Result<Self, DbError> { unimplemented!() }
    fn read(&'_ self, p: u64, l: u64) -> Result<StorageSlice<'_>, DbError> { self.inner.read(p, l) }
    fn rename(&mut self, n: &str) -> Result<(), DbError> { self.inner.rename(n) }
    fn resize(&mut self, l: u64) -> Result<(), DbError> { self.snap("resize"); self.inner.resize(l) }
    fn write(&mut self, p: u64, b: &[u8]) -> Result<(), DbError> { self.snap("write"); self.inner.write(p, b) }
}
fn dump<S: StorageData>(db: &DbImpl<S>) -> Result<String, DbError> {
    let ids = db.exec(QueryBuilder::search().elements().query())?.ids();
    let r = db.exec(QueryBuilder::select().ids(ids).query())?;
    let a = db.exec(QueryBuilder::select().aliases().query())?;
    let ix = db.exec(QueryBuilder::select().indexes().query())?;
    let nc = db.exec(QueryBuilder::select().node_count().query())?.result;
    let mut els: Vec<String> = r.elements.iter().map(|e| { let mut v: Vec<String> = e.values.iter().map(|kv| format!("{}={}", kv.key, kv.value)).collect(); v.sort(); format!("{}:{}>{}:{:?}", e.id.0, e.from.0, e.to.0, v) }).collect(); els.sort();
    let mut al: Vec<String> = a.elements.iter().map(|e| format!("{}={}", e.values[0].value, e.id.0)).collect(); al.sort();
    Ok(format!("{els:?}|{al:?}|{:?}|{nc}", ix.elements[0].values))
}
fn main() {
    let args: Vec<String> = std::env::args().collect();
    if args.len() > 2 && args[1] == "open" {
        let r = catch_unwind(AssertUnwindSafe(|| DbFile::new(&args[2]).map(|d| { let x = dump(&d); std::mem::forget(d); x })));
        match r { Ok(Ok(Ok(d))) => println!("OK {d}"), Ok(Ok(Err(e))) => println!("READERR {}", e.description), Ok(Err(e)) => println!("OPENERR {}", e.cause.map(|c| c.description).unwrap_or(e.description)), Err(_) => println!("PANIC") }
        return;
    }
    let dir = "/tmp/crashp/work"; let _ = std::fs::remove_dir_all(dir); std::fs::create_dir_all(dir).unwrap();
    let sh = Rc::new(Shared { n: 0.into(), q: 0.into(), dir: dir.to_string(), snaps: RefCell::new(vec![]) });
    let f = format!("{dir}/db");
    let mut db = DbImpl::<Spy>::with_data(Spy { inner: FileStorage::new(&f).unwrap(), sh: sh.clone() }).unwrap();
    sh.snaps.borrow_mut().clear();
    let mut states: Vec<String> = vec![dump(&db).unwrap()];
    let mut names: Vec<&str> = vec![];
    macro_rules! q { ($name:expr, $q:expr) => {{ sh.q.set(states.len() as u32); let _ = db.exec_mut($q); states.push(dump(&db).unwrap()); names.push($name); }} }
    q!("insert_nodes_alias_values", QueryBuilder::insert().nodes().aliases(["a", "b"]).values(vec![vec![("k", 1).into(), ("m", "some longer string value").into()], vec![("k", 2).into()]]).query());
    q!("insert_nodes_count", QueryBuilder::insert().nodes().count(3).query());
    q!("insert_edges", QueryBuilder::insert().edges().from([1, 1, 2]).to([2, 3, 3]).values_uniform([("w", 5).into()]).query());
    q!("insert_index", QueryBuilder::insert().index("k").query());
    q!("replace_value", QueryBuilder::insert().values_uniform([("k", 7).into()]).ids([1, 2]).query());
    q!("insert_values_new_key", QueryBuilder::insert().values_uniform([("z", vec![1_i64, 2, 3]).into()]).ids([3, -6]).query());
    q!("remove_value", QueryBuilder::remove().values("m").ids(1).query());
    q!("insert_alias_steal", QueryBuilder::insert().aliases("a").ids(2).query());
    q!("remove_edge", QueryBuilder::remove().ids(-7).query());
    q!("remove_node_with_edges", QueryBuilder::remove().ids(1).query());
    q!("insert_node_reuse", QueryBuilder::insert().nodes().aliases("c").values_uniform([("k", 9).into()]).query());
    q!("remove_index", QueryBuilder::remove().index("k").query());
    sh.q.set(states.len() as u32);
    let r: Result<(), DbError> = db.transaction_mut(|t| { t.exec_mut(QueryBuilder::insert().nodes().count(2).query())?; t.exec_mut(QueryBuilder::insert().edges().from(2).to(3).query())?; t.exec_mut(QueryBuilder::remove().ids(4).query())?; Ok(()) });
    r.unwrap(); states.push(dump(&db).unwrap()); names.push("transaction_3_queries");
    std::mem::forget(db);
    let exe = std::env::current_exe().unwrap();
    let mut tally: std::collections::BTreeMap<(String, String), u32> = Default::default();
    let snaps = sh.snaps.borrow();
    for (q, _what, d) in snaps.iter() {
        let out = std::process::Command::new(&exe).arg("open").arg(format!("{d}/db")).output().unwrap();
        let s = String::from_utf8_lossy(&out.stdout).trim().to_string();
        let class = if !out.status.success() { "ABORT".to_string() } else if let Some(rest) = s.strip_prefix("OK ") {
            if rest == states[*q as usize - 1] { "pre".into() } else if rest == states[*q as usize] { "post".into() } else { "PARTIAL".into() }
        } else { s.split(' ').next().unwrap().to_string() };
        *tally.entry((names[*q as usize - 1].to_string(), class)).or_default() += 1;
    }
    let mut tot: std::collections::BTreeMap<String, u32> = Default::default();
    for ((n, c), k) in &tally { println!("{n:28} {c:8} {k}"); *tot.entry(c.clone()).or_default() += k; }
    println!("TOTAL {tot:?} of {}", snaps.len());
}
