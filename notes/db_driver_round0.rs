use agdb::*;
use rand::{Rng, SeedableRng, rngs::StdRng, seq::SliceRandom};
use serde_json::{json, Value};

fn tok(v: &DbValue) -> String { match v { DbValue::I64(i) => format!("i:{i}"), DbValue::String(s) => format!("s:{s}"), o => format!("o:{o:?}") } }
fn pj(p: &[DbKeyValue]) -> Value { Value::Array(p.iter().map(|kv| json!([tok(&kv.key), tok(&kv.value)])).collect()) }
fn vj(v: &[Vec<DbKeyValue>]) -> Value { Value::Array(v.iter().map(|p| pj(p)).collect()) }
fn qid(q: &QueryId) -> Value { match q { QueryId::Id(i) => json!(["i", i.0]), QueryId::Alias(a) => json!(["a", a]) } }
fn qids(q: &[QueryId]) -> Value { Value::Array(q.iter().map(qid).collect()) }
fn ids_of(r: &QueryResult) -> Vec<i64> { r.elements.iter().map(|e| e.id.0).collect() }

fn observe(db: &DbMemory) -> Value {
    let ids = db.exec(QueryBuilder::search().elements().query()).unwrap().ids();
    let r = db.exec(QueryBuilder::select().ids(ids).query()).unwrap();
    let (mut nodes, mut edges, mut kvs) = (vec![], vec![], vec![]);
    for e in &r.elements { if e.id.0 > 0 { nodes.push(json!(e.id.0)); } else { edges.push(json!([e.id.0, e.from.0, e.to.0])); } kvs.push(json!([e.id.0, pj(&e.values)])); }
    let a = db.exec(QueryBuilder::select().aliases().query()).unwrap();
    let aliases: Vec<Value> = a.elements.iter().map(|e| json!([e.values[0].value.to_string(), e.id.0])).collect();
    let ix = db.exec(QueryBuilder::select().indexes().query()).unwrap();
    let indexes: Vec<Value> = ix.elements[0].values.iter().map(|kv| json!([tok(&kv.key), kv.value.to_u64().unwrap()])).collect();
    let nc = db.exec(QueryBuilder::select().node_count().query()).unwrap().result;
    json!({"ev":"Observe","nodes":nodes,"edges":edges,"kvs":kvs,"aliases":aliases,"indexes":indexes,"node_count":nc})
}
fn main() {
    let seed: u64 = std::env::args().nth(1).unwrap().parse().unwrap(); let n: usize = std::env::args().nth(2).unwrap().parse().unwrap();
    let mut rng = StdRng::seed_from_u64(seed);
    let keys = ["k", "m", "z"]; let names = ["a", "b", "c", "d"];
    let mut db = DbMemory::new("m").unwrap(); let mut ops_in_db = 0;
    for _ in 0..n {
        if ops_in_db >= 45 { db = DbMemory::new("m").unwrap(); ops_in_db = 0; println!("{}", json!({"ev":"Reset"})); }
        ops_in_db += 1;
        let all: Vec<i64> = db.exec(QueryBuilder::search().elements().query()).unwrap().ids().iter().map(|i| i.0).collect();
        let nodes: Vec<i64> = all.iter().cloned().filter(|i| *i > 0).collect();
        let existing_aliases: Vec<String> = db.exec(QueryBuilder::select().aliases().query()).unwrap().elements.iter().map(|e| e.values[0].value.to_string()).collect();
        let pairs = |rng: &mut StdRng| -> Vec<DbKeyValue> { let mut ks = keys.to_vec(); ks.shuffle(rng); let c = rng.gen_range(0..3); ks[..c].iter().map(|k| if rng.gen_bool(0.7) { (*k, rng.gen_range(0..3) as i64).into() } else { (*k, ["x", "y"][rng.gen_range(0..2)]).into() }).collect() };
        let any_id = |rng: &mut StdRng, pool: &Vec<i64>, bogus: f64| -> QueryId {
            if pool.is_empty() || rng.gen_bool(bogus) { QueryId::Id(DbId(77)) } else {
                let id = pool[rng.gen_range(0..pool.len())];
                if id > 0 && rng.gen_bool(0.3) { if let Ok(r) = db.exec(QueryBuilder::select().aliases().ids(id).query()) { return QueryId::Alias(r.elements[0].values[0].value.to_string()); } }
                QueryId::Id(DbId(id)) } };
        let ev = match rng.gen_range(0..14) {
            0 | 1 if all.len() < 9 => {   // insert nodes, new / existing alias
                let form = rng.gen_range(0..5);
                let mut al: Vec<String> = vec![]; if form >= 2 { let mut ns = names.to_vec(); ns.shuffle(&mut rng); let c = rng.gen_range(1..3); al = ns[..c].iter().map(|s| s.to_string()).collect(); }
                let (count, values): (u64, QueryValues) = match form { 0 => (rng.gen_range(1..3), QueryValues::Single(vec![])), 1 => (rng.gen_range(1..3), QueryValues::Single(pairs(&mut rng))),
                    2 => (0, QueryValues::Single(vec![])), 3 => (0, QueryValues::Single(pairs(&mut rng))), _ => { let c = al.len() + rng.gen_range(0..2); (0, QueryValues::Multi((0..c).map(|_| pairs(&mut rng)).collect())) } };
                let expanded: Vec<Vec<DbKeyValue>> = match &values { QueryValues::Single(v) => vec![v.clone(); std::cmp::max(count as usize, al.len())], QueryValues::Multi(v) => v.clone() };
                let q = InsertNodesQuery { count, values, aliases: al.clone(), ids: QueryIds::Ids(vec![]) };
                let r = db.exec_mut(&q);
                json!({"ev":"InsertNodes","aliases":al,"values":vj(&expanded),"ok":r.is_ok(),"res":r.map(|r| ids_of(&r)).unwrap_or_default()})
            }
            2 if !nodes.is_empty() => { // insert nodes by ids (update)
                let c = rng.gen_range(1..3); let ids: Vec<QueryId> = (0..c).map(|_| any_id(&mut rng, &nodes, 0.1)).collect();
                let multi = rng.gen_bool(0.5);
                let values = if multi { QueryValues::Multi((0..c).map(|_| pairs(&mut rng)).collect()) } else { QueryValues::Single(pairs(&mut rng)) };
                let expanded: Vec<Vec<DbKeyValue>> = match &values { QueryValues::Single(v) => vec![v.clone(); c], QueryValues::Multi(v) => v.clone() };
                let q = InsertNodesQuery { count: 0, values, aliases: vec![], ids: QueryIds::Ids(ids.clone()) };
                let r = db.exec_mut(&q);
                json!({"ev":"UpdateNodes","ids":qids(&ids),"aliases":[],"values":vj(&expanded),"ok":r.is_ok(),"res":r.map(|r| ids_of(&r)).unwrap_or_default()})
            }
            3 | 4 if !nodes.is_empty() => { // insert edges
                let cf = rng.gen_range(1..3); let ct = rng.gen_range(1..3);
                let from: Vec<QueryId> = (0..cf).map(|_| any_id(&mut rng, &nodes, 0.08)).collect(); let to: Vec<QueryId> = (0..ct).map(|_| any_id(&mut rng, &nodes, 0.08)).collect();
                let each = rng.gen_bool(0.3); let cnt = if !each && cf == ct { cf } else { cf * ct };
                let values = if rng.gen_bool(0.5) { QueryValues::Single(pairs(&mut rng)) } else { QueryValues::Multi((0..cnt).map(|_| pairs(&mut rng)).collect()) };
                let expanded: Vec<Vec<DbKeyValue>> = match &values { QueryValues::Single(v) => vec![v.clone(); cnt], QueryValues::Multi(v) => v.clone() };
                let q = InsertEdgesQuery { from: QueryIds::Ids(from.clone()), to: QueryIds::Ids(to.clone()), ids: QueryIds::Ids(vec![]), values, each };
                let r = db.exec_mut(&q);
                json!({"ev":"InsertEdges","from":qids(&from),"to":qids(&to),"each":each,"values":vj(&expanded),"ok":r.is_ok(),"res":r.map(|r| ids_of(&r)).unwrap_or_default()})
            }
            5 if !nodes.is_empty() => { // insert aliases (nodes only: alias-on-edge is D7)
                let id = any_id(&mut rng, &nodes, 0.1); let a = names[rng.gen_range(0..names.len())].to_string();
                let r = db.exec_mut(QueryBuilder::insert().aliases(a.clone()).ids(id.clone()).query());
                json!({"ev":"InsertAliases","ids":qids(&[id]),"aliases":[a],"ok":r.is_ok(),"result":r.map(|r| r.result).unwrap_or(0)})
            }
            6 | 7 if !all.is_empty() => { // insert values
                let c = rng.gen_range(1..3); let mut ids: Vec<QueryId> = vec![];
                for _ in 0..c { let x = rng.gen_range(0..10); ids.push(if x == 0 && all.len() < 9 { QueryId::Id(DbId(0)) } else if x == 1 && all.len() < 9 { let free: Vec<&&str> = names.iter().filter(|n| !existing_aliases.contains(&n.to_string()) && !ids.iter().any(|q| matches!(q, QueryId::Alias(a) if a == **n))).collect(); if free.is_empty() { any_id(&mut rng, &all, 0.0) } else { QueryId::Alias(free[0].to_string()) } } else { any_id(&mut rng, &all, 0.05) }); }
                let values = if rng.gen_bool(0.5) { QueryValues::Single(pairs(&mut rng)) } else { QueryValues::Multi((0..c).map(|_| pairs(&mut rng)).collect()) };
                let expanded: Vec<Vec<DbKeyValue>> = match &values { QueryValues::Single(v) => vec![v.clone(); c], QueryValues::Multi(v) => v.clone() };
                let q = InsertValuesQuery { ids: QueryIds::Ids(ids.clone()), values };
                let r = db.exec_mut(&q);
                json!({"ev":"InsertValues","ids":qids(&ids),"values":vj(&expanded),"ok":r.is_ok(),"res":r.map(|r| ids_of(&r)).unwrap_or_default()})
            }
            8 => { let k = keys[rng.gen_range(0..3)]; if rng.gen_bool(0.6) { let r = db.exec_mut(QueryBuilder::insert().index(k).query()); json!({"ev":"InsertIndex","key":format!("s:{k}"),"ok":r.is_ok(),"result":r.map(|r| r.result).unwrap_or(0)}) }
                   else { let r = db.exec_mut(QueryBuilder::remove().index(k).query()); json!({"ev":"RemoveIndex","key":format!("s:{k}"),"ok":r.is_ok(),"result":r.map(|r| r.result).unwrap_or(0)}) } }
            9 if !all.is_empty() => { let c = rng.gen_range(1..3); let ids: Vec<QueryId> = (0..c).map(|_| any_id(&mut rng, &all, 0.15)).collect();
                let r = db.exec_mut(RemoveQuery(QueryIds::Ids(ids.clone()))); json!({"ev":"Remove","ids":qids(&ids),"ok":r.is_ok(),"result":r.map(|r| r.result).unwrap_or(0)}) }
            10 => { let c = rng.gen_range(1..3); let al: Vec<String> = (0..c).map(|_| names[rng.gen_range(0..names.len())].to_string()).collect();
                let r = db.exec_mut(RemoveAliasesQuery(al.clone())); json!({"ev":"RemoveAliases","aliases":al,"ok":r.is_ok(),"result":r.map(|r| r.result).unwrap_or(0)}) }
            11 if !all.is_empty() => { let c = rng.gen_range(1..3); let ids: Vec<QueryId> = (0..c).map(|_| any_id(&mut rng, &all, 0.05)).collect(); let mut ks = keys.to_vec(); ks.shuffle(&mut rng); let kc = rng.gen_range(1..3); let ks: Vec<&str> = ks[..kc].to_vec();
                let r = db.exec_mut(RemoveValuesQuery(SelectValuesQuery { keys: ks.iter().map(|k| (*k).into()).collect(), ids: QueryIds::Ids(ids.clone()) }));
                json!({"ev":"RemoveValues","ids":qids(&ids),"keys":ks.iter().map(|k| format!("s:{k}")).collect::<Vec<_>>(),"ok":r.is_ok()}) }
            12 if !all.is_empty() => { let c = rng.gen_range(1..3); let ids: Vec<QueryId> = (0..c).map(|_| any_id(&mut rng, &all, 0.1)).collect(); let mut ks = keys.to_vec(); ks.shuffle(&mut rng); let kc = rng.gen_range(0..3); let ks: Vec<&str> = ks[..kc].to_vec();
                let r = db.exec(SelectValuesQuery { keys: ks.iter().map(|k| (*k).into()).collect(), ids: QueryIds::Ids(ids.clone()) });
                json!({"ev":"SelectValues","ids":qids(&ids),"keys":ks.iter().map(|k| format!("s:{k}")).collect::<Vec<_>>(),"ok":r.is_ok(),"res":r.map(|r| r.elements.iter().map(|e| json!([e.id.0, pj(&e.values)])).collect::<Vec<_>>()).unwrap_or_default()}) }
            13 => { let k = keys[rng.gen_range(0..3)]; let v = rng.gen_range(0..3) as i64; let r = db.exec(QueryBuilder::search().index(k).value(v).query());
                json!({"ev":"SearchIndex","key":format!("s:{k}"),"value":format!("i:{v}"),"ok":r.is_ok(),"res":r.map(|r| ids_of(&r)).unwrap_or_default()}) }
            _ => continue,
        };
        println!("{ev}"); println!("{}", observe(&db));
    }
}
