use agdb::*;
use std::panic::{catch_unwind, AssertUnwindSafe};
use std::cell::Cell;
use std::rc::Rc;
struct Ctl { calls: Cell<i64>, fail_at: Cell<i64> }
struct Faulty { inner: FileStorage, c: Rc<Ctl> }
impl Faulty { fn tick(&self) -> Result<(), DbError> { let k = self.c.calls.get(); self.c.calls.set(k + 1); if k == self.c.fail_at.get() { Err(DbError::storage(DbErrorType::NotAllowed, "injected: disk full")) } else { Ok(()) } } }
impl StorageData for Faulty {
    fn backup(&self, n: &str) -> Result<(), DbError> { self.inner.backup(n) }
    fn copy(&self, _n: &str) -> Result<Self, DbError> { unimplemented!() }
    fn flush(&mut self) -> Result<(), DbError> { self.inner.flush() }
    fn len(&self) -> u64 { self.inner.len() }
    fn name(&self) -> &str { self.inner.name() }
    fn new(_n: &str) -> Result<Self, DbError> { unimplemented!() }
    fn read(&'_ self, p: u64, l: u64) -> Result<StorageSlice<'_>, DbError> { self.inner.read(p, l) }
    fn rename(&mut self, n: &str) -> Result<(), DbError> { self.inner.rename(n) }
    fn resize(&mut self, l: u64) -> Result<(), DbError> { self.tick()?; self.inner.resize(l) }
    fn write(&mut self, p: u64, b: &[u8]) -> Result<(), DbError> { self.tick()?; self.inner.write(p, b) }
}
fn dump<S: StorageData>(db: &DbImpl<S>) -> Result<String, DbError> {
    let ids = db.exec(QueryBuilder::search().elements().query())?.ids();
    let r = db.exec(QueryBuilder::select().ids(ids).query())?;
    let a = db.exec(QueryBuilder::select().aliases().query())?;
    let mut els: Vec<String> = r.elements.iter().map(|e| { let mut v: Vec<String> = e.values.iter().map(|kv| format!("{}={}", kv.key, kv.value)).collect(); v.sort(); format!("{}:{}>{}:{:?}", e.id.0, e.from.0, e.to.0, v) }).collect(); els.sort();
    let mut al: Vec<String> = a.elements.iter().map(|e| format!("{}={}", e.values[0].value, e.id.0)).collect(); al.sort();
    Ok(format!("{els:?}|{al:?}"))
}
fn main() {
    let dir = "/tmp/faultp/work"; let _ = std::fs::remove_dir_all(dir); std::fs::create_dir_all(dir).unwrap();
    let (mut ok, mut lost, mut unopen, mut noerr, mut dirty, mut unusable) = (0, 0, 0, 0, 0, 0);
    let mut k = 0i64;
    loop {
        let f = format!("{dir}/db{k}");
        let c = Rc::new(Ctl { calls: 0.into(), fail_at: (-1).into() });
        let mut db = DbImpl::<Faulty>::with_data(Faulty { inner: FileStorage::new(&f).unwrap(), c: c.clone() }).unwrap();
        db.exec_mut(QueryBuilder::insert().nodes().aliases(["a", "b"]).values_uniform([("k", 1).into()]).query()).unwrap();
        db.exec_mut(QueryBuilder::insert().edges().from("a").to("b").query()).unwrap();
        let before = dump(&db).unwrap();
        c.calls.set(0); c.fail_at.set(k);
        let r = db.exec_mut(QueryBuilder::insert().nodes().count(2).values_uniform([("k", 2).into(), ("text", "a value that is stored out of line").into()]).query());
        let total_calls = c.calls.get(); c.fail_at.set(-1);
        if r.is_ok() { if k >= total_calls { break; } noerr += 1; }
        let after_fail = dump(&db);
        if after_fail.as_ref().map(|d| d != &before).unwrap_or(true) { dirty += 1; }
        let later = catch_unwind(AssertUnwindSafe(|| db.exec_mut(QueryBuilder::insert().nodes().aliases("after").values_uniform([("k", 3).into()]).query()).is_ok()));
        if !matches!(later, Ok(true)) { unusable += 1; }
        drop(db);
        let re = catch_unwind(AssertUnwindSafe(|| DbFile::new(&f).map(|d| { let has = d.exec(QueryBuilder::select().ids("after").query()).is_ok(); std::mem::forget(d); has })));
        match re { Ok(Ok(true)) => ok += 1, Ok(Ok(false)) => lost += 1, _ => unopen += 1 }
        k += 1;
    }
    println!("fault points={k}: reopened_with_later_work={ok} later_work_lost={lost} unopenable={unopen} | failing query left effects in process={dirty} db unusable after fault={unusable} fault swallowed={noerr}");
}
