------------------------------ MODULE AgdbRaft ------------------------------
(***************************************************************************)
(* The cluster protocol of agdb_server/src/raft.rs under an adversarial    *)
(* network and free timers (C27, C28, C29). Node behaviour is RaftCore;    *)
(* this module supplies the message pool, the scheduler and the budgets.   *)
(*                                                                         *)
(* Network: a message is removed when it is delivered; loss is decided at  *)
(* send time (any subset of what a step sends is put in flight - for safety *)
(* equivalent to dropping later, with far fewer interleavings); duplication *)
(* is a separate, budgeted action. Timers are free: every process() branch  *)
(* whose STATE guard holds may fire (MaxTmo election/term timeouts, MaxHb   *)
(* unsolicited heartbeats), a pre-vote may see the follower's term timer    *)
(* expired or not.                                                          *)
(*                                                                         *)
(* Defects of raft.rs this model reproduces (DESIGN.md section 6):          *)
(*  D12  a vote does not raise the voter's term and Voted is forgotten on a  *)
(*       term timeout: two votes in one term (FixVote = TRUE repairs it)    *)
(*  D13  commit() counts a peer by the index the REQUEST carried and commits *)
(*       entries of older terms                                             *)
(*  D13b no previous-entry check in validate_log_append                     *)
(*  D13c Cluster::append can run on a node that is no longer leader          *)
(*       (AppendAnywhere = TRUE)                                            *)
(***************************************************************************)
EXTENDS RaftCore, TLC

CONSTANTS MaxTerm, MaxLog, Values, AppendAnywhere, MaxTmo, MaxHb, MaxDup, MaxFlight, MaxRestart,
          InitMode    \* "cold" | "elected": start from the cold cluster or from every established-leader state

VARIABLES node,     \* [Node -> node state]
          msgs,     \* in-flight: [k |-> "req", r |-> request] | [k |-> "resp", r |-> request, p |-> response]
          bud,      \* budgets used: [tmo, hb, dup, rst]
          hist,     \* RaftCore!InitHist .. (history for the properties)
          act       \* the last scheduler action, for exporting counterexamples as replayable schedules (hidden by VIEW)

vars == <<node, msgs, bud, hist, act>>
View == <<node, msgs, bud, [hist EXCEPT !.taint = {}, !.lcx = FALSE]>>   \* taint / lcx only label executions of the real code (RaftTrace)

ReqMsg(r) == [k |-> "req", r |-> r]
RespMsg(r, p) == [k |-> "resp", r |-> r, p |-> p]

ColdInit ==
  /\ node = [n \in Node |-> InitNode(n)]
  /\ msgs = {}
  /\ bud = [tmo |-> 0, hb |-> 0, dup |-> 0, rst |-> 0]
  /\ hist = InitHist
  /\ act = [a |-> "init"]

\* an established leader L of term 1: the voters W (a bare majority with L: the candidate stops counting once it
\* is Leader) and the followers F \supseteq W that have answered its first heartbeat
\* (reachable from ColdInit - pre-vote, vote, heartbeat; lib/raftlib.py elected_prefix drives the real code there)
ElectedNode(n, L, F, W) ==
  IF n = L THEN [InitNode(n) EXCEPT !.st = "Leader", !.term = 1, !.voted = {L} \cup W, !.et = HeartbeatTO]
  ELSE IF n \in F THEN [InitNode(n) EXCEPT !.st = "Follower", !.sa = L, !.term = 1]
  ELSE InitNode(n)
ElectedInit ==
  \E L \in Node : \E F \in SUBSET Peers(L) : \E W \in SUBSET F :
    /\ Cardinality(W) = Quorum
    /\ node = [n \in Node |-> ElectedNode(n, L, F, W)]
    /\ msgs = {}
    /\ bud = [tmo |-> 0, hb |-> 0, dup |-> 0, rst |-> 0]
    /\ hist = [InitHist EXCEPT !.leaders = {<<L, 1>>}]
    /\ act = [a |-> "init_elected", leader |-> L, followers |-> F, voters |-> W]

Init == IF InitMode = "cold" THEN ColdInit ELSE ElectedInit

\* a step of node n: new state ns, messages `out` offered to the network (any subset gets in flight)
Step(n, ns, remove, out, a) ==
  /\ node' = [node EXCEPT ![n] = ns]
  /\ \E S \in SUBSET out : /\ msgs' = (msgs \ remove) \cup S
                           /\ act' = [a EXCEPT !.lost = out \ S]
  /\ hist' = HistNext(hist, node, [node EXCEPT ![n] = ns])
A(name, n) == [a |-> name, node |-> n, lost |-> {}, val |-> 0, expired |-> FALSE, m |-> [k |-> "none"]]
AM(name, n, m) == [A(name, n) EXCEPT !.m = m]

TermOk(ns) == ns.term <= MaxTerm

-----------------------------------------------------------------------------
ProcElectionTimeout(n) ==
  /\ node[n].st = "Election" /\ node[n].term + 1 <= MaxTerm
  /\ bud.tmo < MaxTmo /\ bud' = [bud EXCEPT !.tmo = @ + 1]
  /\ LET o == DoPreElection(node[n], 0) IN Step(n, [o.ns EXCEPT !.et = node[n].et], {}, {ReqMsg(r) : r \in o.out}, A("election_timeout", n))

ProcTermTimeout(n) ==
  /\ node[n].st \in {"Candidate", "Follower", "Voted"}
  /\ bud.tmo < MaxTmo /\ bud' = [bud EXCEPT !.tmo = @ + 1]
  /\ Step(n, [DoTermTimeout(node[n], 0) EXCEPT !.et = node[n].et], {}, {}, A("term_timeout", n))

ProcHeartbeat(n) ==
  /\ node[n].st = "Leader"
  /\ bud.hb < MaxHb /\ bud' = [bud EXCEPT !.hb = @ + 1]
  /\ LET o == DoHeartbeat(node[n], Peers(n), 0) IN Step(n, o.ns, {}, {ReqMsg(r) : r \in o.out}, A("heartbeat", n))

\* free timers: `et` and `timer` never change in this module (now = 0 everywhere)
Freeze(old, ns) == [ns EXCEPT !.et = old.et, !.timer = old.timer]

DeliverRequest(m) ==
  /\ m.k = "req"
  /\ UNCHANGED bud
  /\ LET n == m.r.to IN
     \E now \in (IF m.r.ty = "PreVote" /\ node[n].st = "Follower" THEN {0, TermTO + 1} ELSE {0}) :
        LET a == OnRequest(node[n], m.r, now) IN
        Step(n, Freeze(node[n], a.ns), {m}, {RespMsg(m.r, a.rsp)}, [AM("req", n, m) EXCEPT !.expired = (now # 0)])

DeliverResponse(m) ==
  /\ m.k = "resp"
  /\ UNCHANGED bud
  /\ LET n == m.r.from
         o == OnResponse(node[n], m.r, m.p, 0) IN
     /\ TermOk(o.ns)
     /\ Step(n, Freeze(node[n], o.ns), {m}, {ReqMsg(r) : r \in o.out}, AM("resp", n, m))

Duplicate(m) ==    \* the network delivers m twice: deliver now, keep the message
  /\ bud.dup < MaxDup /\ bud' = [bud EXCEPT !.dup = @ + 1]
  /\ IF m.k = "req"
     THEN LET n == m.r.to
              a == OnRequest(node[n], m.r, 0) IN Step(n, Freeze(node[n], a.ns), {}, {RespMsg(m.r, a.rsp)}, AM("dup_req", n, m))
     ELSE LET n == m.r.from
              o == OnResponse(node[n], m.r, m.p, 0) IN
          TermOk(o.ns) /\ Step(n, Freeze(node[n], o.ns), {}, {ReqMsg(r) : r \in o.out}, AM("dup_resp", n, m))

ClientAppendAt(n, v) ==
  /\ node[n].st = "Leader" \/ AppendAnywhere
  /\ Local(node[n]).li < MaxLog
  /\ UNCHANGED bud
  /\ LET o == ClientAppend(node[n], v) IN Step(n, o.ns, {}, {ReqMsg(r) : r \in o.out}, [A("append", n) EXCEPT !.val = v])

RestartNode(n) ==
  /\ bud.rst < MaxRestart /\ bud' = [bud EXCEPT !.rst = @ + 1]
  /\ Step(n, [Restart(node[n], 0) EXCEPT !.et = node[n].et], {}, {}, A("restart", n))

Next ==
  \/ \E n \in Node : ProcElectionTimeout(n)
  \/ \E n \in Node : ProcTermTimeout(n)
  \/ \E n \in Node : ProcHeartbeat(n)
  \/ \E m \in msgs : DeliverRequest(m)
  \/ \E m \in msgs : DeliverResponse(m)
  \/ \E m \in msgs : Duplicate(m)
  \/ \E n \in Node, v \in Values : ClientAppendAt(n, v)
  \/ \E n \in Node : RestartNode(n)

Spec == Init /\ [][Next]_vars

Constraint == Cardinality(msgs) <= MaxFlight

-----------------------------------------------------------------------------
ElectionSafety == ElectionSafetyP(hist)
CommitAgreement == CommitAgreementP(node)
CommitStable == CommitStableP(hist, node)
CommitMonotone == CommitMonotoneP(hist, node)
LeaderCompleteness == LeaderCompletenessP(hist)
\* the same properties, reported only for behaviours that no listed defect (RaftCore!Triggers) explains
NoTrig == hist.trig = {}
CommitAgreementNew == NoTrig => CommitAgreement
CommitStableNew == NoTrig => CommitStable
CommitMonotoneNew == NoTrig => CommitMonotone
LeaderCompletenessNew == NoTrig => LeaderCompleteness
=============================================================================
