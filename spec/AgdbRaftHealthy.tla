--------------------------- MODULE AgdbRaftHealthy ---------------------------
(***************************************************************************)
(* C30: the fault-free, timely schedule. Node behaviour is RaftCore with   *)
(* its real timer arithmetic (virtual milliseconds); this module supplies  *)
(* a global clock and a reliable network:                                  *)
(*   - no loss, no duplication; every message is eventually delivered and  *)
(*     delivery takes no time (latency << timeouts): the clock only        *)
(*     advances (Tick) when nothing is in flight and no process() branch   *)
(*     is due on any node - the server calls process() every 10 ms;        *)
(*   - all delivery orders and all orders of due process() calls are       *)
(*     explored;                                                           *)
(*   - a client appends MaxLog entries, each at the node that is Leader    *)
(*     at that moment (requests are forwarded to the leader).              *)
(* "Eventually" becomes a state invariant over the finite model:           *)
(*   at every quiet state at or after Deadline the cluster has exactly one *)
(*   leader, all logs are equal, and every entry appended at least Settle  *)
(*   ms earlier is stored and committed on every node.                     *)
(***************************************************************************)
EXTENDS RaftCore, TLC

CONSTANTS TickMs, Deadline, Horizon, Settle, MaxLog, AppendUntil

VARIABLES node, msgs, now, appended   \* appended: Seq of [val, at]

vars == <<node, msgs, now, appended>>

ReqMsg(r) == [k |-> "req", r |-> r]
RespMsg(r, p) == [k |-> "resp", r |-> r, p |-> p]

Init == /\ node = [n \in Node |-> InitNode(n)] /\ msgs = {} /\ now = 0 /\ appended = <<>>

Due(n) == ProcBranch(node[n], now) # "None"
Quiet == msgs = {} /\ \A n \in Node : ~Due(n)

Process(n) ==
  /\ Due(n)
  /\ LET b == ProcBranch(node[n], now)
         o == CASE b = "Heartbeat" -> DoHeartbeat(node[n], HbTargets(node[n], now), now)
                [] b = "PreElection" -> DoPreElection(node[n], now)
                [] OTHER -> Out(DoTermTimeout(node[n], now), {})
     IN /\ node' = [node EXCEPT ![n] = o.ns]
        /\ msgs' = msgs \cup {ReqMsg(r) : r \in o.out}
  /\ UNCHANGED <<now, appended>>

DeliverRequest(m) ==
  /\ m.k = "req"
  /\ LET n == m.r.to
         a == OnRequest(node[n], m.r, now) IN
     /\ node' = [node EXCEPT ![n] = a.ns]
     /\ msgs' = (msgs \ {m}) \cup {RespMsg(m.r, a.rsp)}
  /\ UNCHANGED <<now, appended>>

DeliverResponse(m) ==
  /\ m.k = "resp"
  /\ LET n == m.r.from
         o == OnResponse(node[n], m.r, m.p, now) IN
     /\ node' = [node EXCEPT ![n] = o.ns]
     /\ msgs' = (msgs \ {m}) \cup {ReqMsg(r) : r \in o.out}
  /\ UNCHANGED <<now, appended>>

ClientAppendAt(n) ==
  /\ node[n].st = "Leader" /\ Len(appended) < MaxLog /\ now <= AppendUntil
  /\ LET v == Len(appended) + 1
         o == ClientAppend(node[n], v) IN
     /\ node' = [node EXCEPT ![n] = o.ns]
     /\ msgs' = msgs \cup {ReqMsg(r) : r \in o.out}
     /\ appended' = Append(appended, [val |-> v, at |-> now])
  /\ UNCHANGED now

Tick == /\ Quiet /\ now + TickMs <= Horizon /\ now' = now + TickMs /\ UNCHANGED <<node, msgs, appended>>

Next == \/ \E n \in Node : Process(n)
        \/ \E m \in msgs : DeliverRequest(m)
        \/ \E m \in msgs : DeliverResponse(m)
        \/ \E n \in Node : ClientAppendAt(n)
        \/ Tick

Spec == Init /\ [][Next]_vars

\* A post-partition start: message loss left node 1 one term ahead of the others (it was a candidate once). With two nodes
\* and the code before the repair of D24 (CandidateYields = FALSE) no leader is ever elected from here.
InitOffset == /\ node = [n \in Node |-> IF n = 1 THEN [InitNode(n) EXCEPT !.term = 1] ELSE InitNode(n)]
              /\ msgs = {} /\ now = 0 /\ appended = <<>>
SpecOffset == InitOffset /\ [][Next]_vars
NoYield == FALSE

-----------------------------------------------------------------------------
Leaders == {n \in Node : node[n].st = "Leader"}
Converged ==
  /\ Cardinality(Leaders) = 1
  /\ \A n \in Node : node[n].st \in {"Leader", "Follower"} /\ node[n].term = node[CHOOSE x \in Leaders : TRUE].term
  /\ \A a, b \in Node : node[a].log = node[b].log
  /\ \A i \in DOMAIN appended :
       appended[i].at + Settle <= now =>
         \A n \in Node : \E j \in DOMAIN node[n].log : node[n].log[j].val = appended[i].val /\ node[n].log[j].com

HealthyProgress == (Quiet /\ now >= Deadline) => Converged
\* the properties of C27 - C29 hold in the healthy schedule as well
OneLeaderAtATime == \A a, b \in Leaders : node[a].term = node[b].term => a = b
CommitAgreement == CommitAgreementP(node)
\* vacuity guards: states after the deadline exist, entries do get appended
ReachesDeadline == now < Deadline
=============================================================================
