----------------------------- MODULE ApplyOrder -----------------------------
(***************************************************************************)
(* C31: execution of committed cluster log entries on one node             *)
(* (agdb_server/src/cluster.rs ClusterStorage::commit -> execute_log).     *)
(*                                                                         *)
(* Mechanism model: Commit(k) hands every newly committed entry to the     *)
(* executor; Executor = "task_per_entry" (one independent tokio task per   *)
(* entry, scheduled in any order and concurrently - the code as pinned) or *)
(* "queue" (one worker that takes the entries in commit order).            *)
(* Property InOrderOnce: executions start in increasing index order, each  *)
(* entry once, and an execution starts only after the previous one ended   *)
(* (otherwise the order of the effects is decided by lock acquisition, not *)
(* by the log).                                                            *)
(*                                                                         *)
(* The same module validates the event file the hook H5 writes in a real   *)
(* server (commit i / start i / end i): TraceSpec.                          *)
(***************************************************************************)
EXTENDS Naturals, Sequences, FiniteSets, TLC

CONSTANTS MaxLog, Executor

VARIABLES appended, committed, pending, running, started, ended
vars == <<appended, committed, pending, running, started, ended>>
\* pending  committed entries handed to the executor and not yet started
\* running  entries whose execution has started and not ended
\* started  indexes in the order their execution started;  ended: set

Init == appended = 0 /\ committed = 0 /\ pending = {} /\ running = {} /\ started = <<>> /\ ended = {}

ClientAppend == appended < MaxLog /\ appended' = appended + 1 /\ UNCHANGED <<committed, pending, running, started, ended>>
Commit(k) == /\ k > committed /\ k <= appended
             /\ committed' = k /\ pending' = pending \cup ((committed + 1)..k)
             /\ UNCHANGED <<appended, running, started, ended>>
Start(i) == /\ i \in pending
            /\ (Executor = "queue" => running = {} /\ \A j \in pending : i <= j)
            /\ pending' = pending \ {i} /\ running' = running \cup {i} /\ started' = Append(started, i)
            /\ UNCHANGED <<appended, committed, ended>>
End(i) == /\ i \in running /\ running' = running \ {i} /\ ended' = ended \cup {i}
          /\ UNCHANGED <<appended, committed, pending, started>>
Next == ClientAppend \/ (\E k \in 1..MaxLog : Commit(k)) \/ (\E i \in 1..MaxLog : Start(i) \/ End(i))
Spec == Init /\ [][Next]_vars

InOrderOnce == /\ \A i \in DOMAIN started : started[i] = i
               /\ Cardinality(running) <= 1

=============================================================================
