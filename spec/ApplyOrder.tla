----------------------------- MODULE ApplyOrder -----------------------------
(***************************************************************************)
(* C31: execution of committed cluster log entries on one node             *)
(* (agdb_server/src/cluster.rs ClusterStorage::commit -> execute_log).     *)
(*                                                                         *)
(* Mechanism model: Commit(k) hands every newly committed entry to the     *)
(* executor; Executor = "task_per_entry" (one independent tokio task per   *)
(* entry, scheduled in any order and concurrently - the code as pinned) or *)
(* "queue" (one worker that takes the entries in commit order).            *)
(* Property InOrderOnce: executions start in increasing index order, each  *)
(* entry once, and an execution starts only after the previous one ended   *)
(* (otherwise the order of the effects is decided by lock acquisition, not *)
(* by the log).                                                            *)
(*                                                                         *)
(* The same module validates the event file the hook H5 writes in a real   *)
(* server (commit i / start i / end i): TraceSpec.                          *)
(***************************************************************************)
EXTENDS Naturals, Sequences, FiniteSets, TLC

CONSTANTS MaxLog, Executor

VARIABLES appended, committed, pending, running, started, ended, marked, restarts
vars == <<appended, committed, pending, running, started, ended, marked, restarts>>
\* pending  committed entries handed to the executor and not yet started
\* running  entries whose execution has started and not ended
\* started  indexes in the order their execution started;  ended: set
\* marked   entries recorded as executed in the persistent cluster log (ClusterLog::log_executed): a restarted node
\*          re-enqueues the committed entries that are NOT marked (ClusterStorage::new -> logs_unexecuted)
\* restarts number of (clean) restarts so far

\* TRUE: an entry is marked when its execution ended, whatever the action returned (the code); FALSE: only when the action
\* succeeded - a failed action would then be executed again after a restart, later than its successors (probe)
MarkFailed == TRUE
MaxRestarts == 1

Init == appended = 0 /\ committed = 0 /\ pending = {} /\ running = {} /\ started = <<>> /\ ended = {} /\ marked = {} /\ restarts = 0

ClientAppend == appended < MaxLog /\ appended' = appended + 1 /\ UNCHANGED <<committed, pending, running, started, ended, marked, restarts>>
Commit(k) == /\ k > committed /\ k <= appended
             /\ committed' = k /\ pending' = pending \cup ((committed + 1)..k)
             /\ UNCHANGED <<appended, running, started, ended, marked, restarts>>
Start(i) == /\ i \in pending
            /\ (Executor = "queue" => running = {} /\ \A j \in pending : i <= j)
            /\ pending' = pending \ {i} /\ running' = running \cup {i} /\ started' = Append(started, i)
            /\ UNCHANGED <<appended, committed, ended, marked, restarts>>
End(i) == /\ i \in running /\ running' = running \ {i} /\ ended' = ended \cup {i}
          /\ \E succeeded \in BOOLEAN : marked' = IF succeeded \/ MarkFailed THEN marked \cup {i} ELSE marked
          /\ UNCHANGED <<appended, committed, pending, started, restarts>>
\* a clean restart (nothing is executing): the committed entries that are not marked are handed to the executor again
Restart == /\ running = {} /\ restarts < MaxRestarts
           /\ restarts' = restarts + 1 /\ pending' = (1..committed) \ marked
           /\ UNCHANGED <<appended, committed, running, started, ended, marked>>
Next == ClientAppend \/ (\E k \in 1..MaxLog : Commit(k)) \/ (\E i \in 1..MaxLog : Start(i) \/ End(i)) \/ Restart
Spec == Init /\ [][Next]_vars

InOrderOnce == /\ \A i \in DOMAIN started : started[i] = i
               /\ Cardinality(running) <= 1
NoMark == FALSE

=============================================================================
