SPECIFICATION TraceSpec
CONSTANTS MaxLog = 4
 Executor = "queue"
CHECK_DEADLOCK FALSE
