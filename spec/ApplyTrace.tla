----------------------------- MODULE ApplyTrace -----------------------------
(* Trace validation of the event file the hook H5 writes in a real server (commit i / start i / end i),   *)
(* converted to ndjson by lib/applycheck.py, against the property level of ApplyOrder (C31).               *)
EXTENDS ApplyOrder, Json, IOUtils

\* trace validation of the hook's event file (converted to ndjson by the driver)
Rec == ndJsonDeserialize(IOEnv.TRACE)
VARIABLE l
tvars == <<vars, l>>
E == Rec[l]
IsEvent(n) == l <= Len(Rec) /\ Rec[l].ev = n /\ l' = l + 1

TInit == Init /\ l = 1
TReset == IsEvent("Reset") /\ appended' = 0 /\ committed' = 0 /\ pending' = {} /\ running' = {} /\ started' = <<>> /\ ended' = {}
          /\ marked' = {} /\ restarts' = 0
\* entries are committed in log order, each once
TCommit == /\ IsEvent("commit") /\ E.index = committed + 1
           /\ committed' = E.index /\ appended' = E.index /\ pending' = pending \cup {E.index}
           /\ UNCHANGED <<running, started, ended, marked, restarts>>
\* C31: an execution starts for the OLDEST pending entry, and only when no other execution is running
TStart == /\ IsEvent("start") /\ E.index \in pending
          /\ \A j \in pending : E.index <= j
          /\ running = {}
          /\ pending' = pending \ {E.index} /\ running' = {E.index} /\ started' = Append(started, E.index)
          /\ UNCHANGED <<appended, committed, ended, marked, restarts>>
TEndEv == /\ IsEvent("end") /\ E.index \in running
          /\ running' = running \ {E.index} /\ ended' = ended \cup {E.index} /\ marked' = marked \cup {E.index}
          /\ UNCHANGED <<appended, committed, pending, started, restarts>>
\* the driver stopped the server after every request was answered and started it again on the same data: nothing was
\* running; the entries not marked as executed are pending again (none, when every execution that ended was marked) -
\* a start event for an entry that already ended is then rejected by TStart (executed twice)
TRestart == /\ IsEvent("restart") /\ running = {}
            /\ restarts' = restarts + 1 /\ pending' = pending \cup ((1..committed) \ marked)
            /\ UNCHANGED <<appended, committed, running, started, ended, marked>>
\* the driver's final observation: every committed entry was executed, none is left running
TDone == /\ IsEvent("done") /\ pending = {} /\ running = {} /\ Cardinality(ended) = committed /\ E.requests_ok <= committed
         /\ UNCHANGED vars
TNext == TReset \/ TCommit \/ TStart \/ TEndEv \/ TDone \/ TRestart
RECURSIVE NextReset(_)
NextReset(i) == IF i > Len(Rec) \/ Rec[i].ev = "Reset" THEN i ELSE NextReset(i + 1)
TSkip == /\ l <= Len(Rec) /\ ~ENABLED TNext
         /\ PrintT(<<"RUN_REJECTED", l>>)
         /\ l' = NextReset(l + 1)
         /\ appended' = 0 /\ committed' = 0 /\ pending' = {} /\ running' = {} /\ started' = <<>> /\ ended' = {}
         /\ marked' = {} /\ restarts' = 0
TEnd == l = Len(Rec) + 1 /\ PrintT(<<"TRACE_END", Len(Rec)>>) /\ l' = l + 1 /\ UNCHANGED vars
TraceSpec == TInit /\ [][TNext \/ TSkip \/ TEnd]_tvars
=============================================================================
