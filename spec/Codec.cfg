SPECIFICATION TraceSpec
CHECK_DEADLOCK FALSE
