---------------------------------- MODULE Codec ----------------------------------
(***************************************************************************)
(* C20 (limited): framing and size rules of agdb's binary serialization.   *)
(* A value's layout is a tree                                              *)
(*   <<"leaf", n>>            n bytes whose content TLC does not interpret *)
(*   <<"len", k, children>>   8-byte little-endian count k, then children  *)
(*   <<"seq", children>>      fields in declaration order                  *)
(*   <<"tag", i, children>>   1-byte variant index i, then the fields      *)
(* written down by the driver from the FORMAT RULES for each generated     *)
(* value (not from the code's output). For every recorded event            *)
(*   (tree, bytes, reported size, round trip)                              *)
(* the specification recomputes Size(tree) and the offset and value of     *)
(* every length prefix and variant tag and requires                        *)
(*   Len(bytes) = reported size = Size(tree),  Framed(bytes, tree),        *)
(*   and that the decoded value equalled the original.                     *)
(* What it does not decide: the content of the leaves (little-endian       *)
(* scalars, float bits, UTF-8) - those are compared by the round trip only. *)
(* There is no state machine here: the module is an independent oracle for *)
(* the recorded events (trace validation in skip mode).                    *)
(***************************************************************************)
EXTENDS Integers, Sequences, TLC, Json, IOUtils
Rec == ndJsonDeserialize(IOEnv.TRACE)
VARIABLE l
RECURSIVE Size(_)
RECURSIVE SizeAll(_, _)
SizeAll(cs, i) == IF i > Len(cs) THEN 0 ELSE Size(cs[i]) + SizeAll(cs, i + 1)
Size(t) == CASE t[1] = "leaf" -> t[2]
             [] t[1] = "len" -> 8 + SizeAll(t[3], 1)
             [] t[1] = "seq" -> SizeAll(t[2], 1)
             [] t[1] = "tag" -> 1 + SizeAll(t[3], 1)
\* little-endian u64 at 0-based offset o equals k (k < 2^31 here)
LE(bytes, o, k) == /\ bytes[o + 1] = k % 256 /\ bytes[o + 2] = (k \div 256) % 256 /\ bytes[o + 3] = (k \div 65536) % 256
                   /\ bytes[o + 4] = (k \div 16777216) % 256 /\ \A j \in 5..8 : bytes[o + j] = 0
RECURSIVE Framed(_, _, _)
RECURSIVE FramedAll(_, _, _, _)
FramedAll(bytes, cs, i, o) == IF i > Len(cs) THEN TRUE ELSE Framed(bytes, cs[i], o) /\ FramedAll(bytes, cs, i + 1, o + Size(cs[i]))
Framed(bytes, t, o) == CASE t[1] = "leaf" -> o + t[2] <= Len(bytes)
                         [] t[1] = "len" -> o + 8 <= Len(bytes) /\ LE(bytes, o, t[2]) /\ FramedAll(bytes, t[3], 1, o + 8)
                         [] t[1] = "seq" -> FramedAll(bytes, t[2], 1, o)
                         [] t[1] = "tag" -> o + 1 <= Len(bytes) /\ bytes[o + 1] = t[2] /\ FramedAll(bytes, t[3], 1, o + 1)
Ok(e) == /\ e.roundtrip /\ e.size = Len(e.bytes) /\ e.size = Size(e.tree) /\ Framed(e.bytes, e.tree, 0)

Init == l = 1
TReset == l <= Len(Rec) /\ Rec[l].ev = "Reset" /\ l' = l + 1
TCodec == l <= Len(Rec) /\ Rec[l].ev = "Codec" /\ Ok(Rec[l]) /\ l' = l + 1
\* every value is independent: a rejected event is reported and skipped (not the rest of its run)
TSkip == l <= Len(Rec) /\ ~ENABLED (TReset \/ TCodec) /\ PrintT(<<"RUN_REJECTED", l>>) /\ l' = l + 1
TEnd == l = Len(Rec) + 1 /\ PrintT(<<"TRACE_END", Len(Rec)>>) /\ l' = l + 1
TraceSpec == Init /\ [][TReset \/ TCodec \/ TSkip \/ TEnd]_l
==============================================================================
