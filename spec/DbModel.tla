------------------------------- MODULE DbModel -------------------------------
(***************************************************************************)
(* The abstract agdb database: a directed multigraph whose elements (nodes *)
(* with positive ids, edges with negative ids) carry an ordered key-value  *)
(* map, node aliases (a partial injection name -> node) and a set of       *)
(* indexed keys.  Index contents, node/edge counts are DERIVED operators,  *)
(* so "the index reflects the data" is a statement about what the          *)
(* implementation answers, never something the model stores.               *)
(*                                                                         *)
(* The module is written in functional style: a database state is a record *)
(* and every mutating query is an operator  Q(s, e)  from a state and the  *)
(* query's arguments/results (bound from the recorded event e) to          *)
(*   [ok |-> TRUE, s |-> post state]   or   Fail  (= [ok |-> FALSE]).       *)
(* That makes sequential composition (transactions, server batches) plain  *)
(* function composition and lets the trace specification demand            *)
(*   query succeeded  <=>  the documented preconditions hold.              *)
(*                                                                         *)
(* Ids of new elements are NOT chosen by the model: any unused id of the   *)
(* right sign is accepted (the property's statement); the exhaustive       *)
(* configuration narrows this to the smallest unused magnitude only to     *)
(* keep the state space finite.                                            *)
(*                                                                         *)
(* Query ids are <<"i", n>> or <<"a", name>>; values are records           *)
(* [t |-> type tag, n |-> number, s |-> string] compared for equality.     *)
(***************************************************************************)
EXTENDS Integers, Sequences, FiniteSets, TLC

Range(f) == {f[i] : i \in DOMAIN f}
Restrict(f, S) == [x \in S |-> f[x]]
Without(q, x) == SelectSeq(q, LAMBDA y : y # x)
Distinct(q) == \A i, j \in DOMAIN q : i # j => q[i] # q[j]
Abs(x) == IF x < 0 THEN 0 - x ELSE x

EmptyDb == [nodes |-> {}, edges |-> <<>>, out |-> <<>>, inn |-> <<>>, kvs |-> <<>>,
            alias |-> <<>>, indexed |-> {}]
Fail == [ok |-> FALSE]
Ok(s) == [ok |-> TRUE, s |-> s]

Live(s) == s.nodes \cup DOMAIN s.edges

\* ---- query ids -----------------------------------------------------------------
Resolvable(s, q) == IF q[1] = "i" THEN q[2] \in Live(s) ELSE q[2] \in DOMAIN s.alias
Resolve(s, q) == IF q[1] = "i" THEN q[2] ELSE s.alias[q[2]]
AllResolvable(s, qs) == \A i \in DOMAIN qs : Resolvable(s, qs[i])
ResolveAll(s, qs) == [i \in DOMAIN qs |-> Resolve(s, qs[i])]

\* ---- ordered key-value map (C09) --------------------------------------------------
HasKey(m, k) == \E i \in DOMAIN m : m[i][1] = k
ValueOf(m, k) == m[CHOOSE i \in DOMAIN m : m[i][1] = k][2]
Upsert1(m, p) == IF HasKey(m, p[1]) THEN [i \in DOMAIN m |-> IF m[i][1] = p[1] THEN p ELSE m[i]]
                 ELSE Append(m, p)
RECURSIVE Upsert(_, _)
Upsert(m, ps) == IF ps = <<>> THEN m ELSE Upsert(Upsert1(m, Head(ps)), Tail(ps))
DropKeys(m, ks) == SelectSeq(m, LAMBDA p : p[1] \notin ks)
KeysOf(m) == [i \in DOMAIN m |-> m[i][1]]
KeysDistinct(m) == \A i, j \in DOMAIN m : i # j => m[i][1] # m[j][1]

\* ---- primitive graph mutations ------------------------------------------------------
AddNode(s, id) == [s EXCEPT !.nodes = @ \cup {id},
                            !.out = [x \in DOMAIN @ \cup {id} |-> IF x = id THEN <<>> ELSE @[x]],
                            !.inn = [x \in DOMAIN @ \cup {id} |-> IF x = id THEN <<>> ELSE @[x]],
                            !.kvs = [x \in DOMAIN @ \cup {id} |-> IF x = id THEN <<>> ELSE @[x]]]

\* a new edge becomes the FIRST of its origin's outgoing and of its target's incoming edges
AddEdge(s, id, f, t) ==
  [s EXCEPT !.edges = [x \in DOMAIN @ \cup {id} |-> IF x = id THEN <<f, t>> ELSE @[x]],
            !.out = [@ EXCEPT ![f] = <<id>> \o @],
            !.inn = [@ EXCEPT ![t] = <<id>> \o @],
            !.kvs = [x \in DOMAIN @ \cup {id} |-> IF x = id THEN <<>> ELSE @[x]]]

DelEdge(s, id) ==
  LET f == s.edges[id][1]
      t == s.edges[id][2] IN
  [s EXCEPT !.edges = Restrict(@, DOMAIN @ \ {id}),
            !.out = [@ EXCEPT ![f] = Without(@, id)],
            !.inn = [@ EXCEPT ![t] = Without(@, id)],
            !.kvs = Restrict(@, DOMAIN @ \ {id})]

RECURSIVE DelEdges(_, _)
DelEdges(s, ids) == IF ids = {} THEN s
                    ELSE LET x == CHOOSE y \in ids : TRUE IN DelEdges(DelEdge(s, x), ids \ {x})

\* removing a node removes its alias, all incident edges with their properties, and its properties
DelNode(s, n) ==
  LET s1 == DelEdges(s, Range(s.out[n]) \cup Range(s.inn[n])) IN
  [s1 EXCEPT !.nodes = @ \ {n},
             !.out = Restrict(@, DOMAIN @ \ {n}),
             !.inn = Restrict(@, DOMAIN @ \ {n}),
             !.kvs = Restrict(@, DOMAIN @ \ {n}),
             !.alias = Restrict(@, {a \in DOMAIN @ : @[a] # n})]

DelElem(s, x) == IF x \in s.nodes THEN DelNode(s, x) ELSE IF x \in DOMAIN s.edges THEN DelEdge(s, x) ELSE s

PutVals(s, id, ps) == [s EXCEPT !.kvs = [@ EXCEPT ![id] = Upsert(@, ps)]]

\* alias a now names node i: i's previous alias disappears, a is taken from any other holder (C10)
SetAlias(s, a, i) ==
  LET keep == {b \in DOMAIN s.alias : b # a /\ s.alias[b] # i} IN
  [s EXCEPT !.alias = [b \in keep \cup {a} |-> IF b = a THEN i ELSE s.alias[b]]]

FreshNode(s, id) == id > 0 /\ id \notin Live(s)
FreshEdge(s, id) == id < 0 /\ id \notin Live(s)

(***************************************************************************)
(* Mutating queries.  e carries arguments (ids, aliases, values expanded   *)
(* to one pair list per target, keys, ...) and, for successful queries,    *)
(* the ids the implementation returned (e.res).                            *)
(***************************************************************************)

\* insert nodes (no ids): per value list: an existing alias selects that node (insert-or-update),
\* otherwise a new node is created (with that alias)
RECURSIVE InsNodes(_, _, _, _, _)
InsNodes(s, aliases, values, res, i) ==
  IF i > Len(values) THEN Ok(s)
  ELSE LET a == IF i <= Len(aliases) THEN aliases[i] ELSE "" IN
       IF i <= Len(aliases) /\ a \in DOMAIN s.alias
       THEN IF res[i] # s.alias[a] THEN Fail
            ELSE InsNodes(PutVals(s, s.alias[a], values[i]), aliases, values, res, i + 1)
       ELSE IF ~FreshNode(s, res[i]) \/ (i <= Len(aliases) /\ a = "") THEN Fail
       ELSE LET s1 == PutVals(AddNode(s, res[i]), res[i], values[i])
                s2 == IF i <= Len(aliases) THEN SetAlias(s1, a, res[i]) ELSE s1
            IN InsNodes(s2, aliases, values, res, i + 1)

InsertNodesPre(s, e) == /\ Len(e.aliases) <= Len(e.values)
                        /\ \A i \in DOMAIN e.aliases : e.aliases[i] # ""
InsertNodes(s, e) == IF InsertNodesPre(s, e) /\ Len(e.res) = Len(e.values)
                     THEN InsNodes(s, e.aliases, e.values, e.res, 1) ELSE Fail

\* insert nodes .ids(..): insert-or-update of existing NODES; alias i becomes node i's alias
RECURSIVE UpdNodes(_, _, _, _, _)
UpdNodes(s, ids, aliases, values, i) ==
  IF i > Len(ids) THEN Ok(s)
  ELSE LET s1 == PutVals(s, ids[i], values[i])
           s2 == IF i <= Len(aliases) THEN SetAlias(s1, aliases[i], ids[i]) ELSE s1
       IN UpdNodes(s2, ids, aliases, values, i + 1)

UpdateNodesPre(s, e) ==
  /\ AllResolvable(s, e.ids)
  /\ \A x \in Range(ResolveAll(s, e.ids)) : x \in s.nodes
  /\ Len(e.values) = Len(e.ids) /\ Len(e.aliases) <= Len(e.values)
  /\ \A i \in DOMAIN e.aliases : e.aliases[i] # ""
UpdateNodes(s, e) == IF UpdateNodesPre(s, e) /\ e.res = ResolveAll(s, e.ids)
                     THEN UpdNodes(s, ResolveAll(s, e.ids), e.aliases, e.values, 1) ELSE Fail

\* insert edges: pairwise when the lists have equal length and `each` is not given, else from x to
Pairs(f, t, each) ==
  IF ~each /\ Len(f) = Len(t) THEN [i \in DOMAIN f |-> <<f[i], t[i]>>]
  ELSE [k \in 1..(Len(f) * Len(t)) |-> <<f[((k - 1) \div Len(t)) + 1], t[((k - 1) % Len(t)) + 1]>>]

RECURSIVE InsEdges(_, _, _, _, _)
InsEdges(s, ps, values, res, i) ==
  IF i > Len(ps) THEN Ok(s)
  ELSE IF ~FreshEdge(s, res[i]) THEN Fail
  ELSE InsEdges(PutVals(AddEdge(s, res[i], ps[i][1], ps[i][2]), res[i], values[i]), ps, values, res, i + 1)

InsertEdgesPre(s, e) ==
  /\ AllResolvable(s, e.from) /\ AllResolvable(s, e.to)
  /\ \A x \in Range(ResolveAll(s, e.from)) \cup Range(ResolveAll(s, e.to)) : x \in s.nodes
  /\ Len(e.values) = Len(Pairs(e.from, e.to, e.each))
InsertEdges(s, e) ==
  IF InsertEdgesPre(s, e) /\ Len(e.res) = Len(e.values)
  THEN InsEdges(s, Pairs(ResolveAll(s, e.from), ResolveAll(s, e.to), e.each), e.values, e.res, 1)
  ELSE Fail

\* insert edges .ids(..): insert-or-update of existing EDGES
RECURSIVE UpdElems(_, _, _, _)
UpdElems(s, ids, values, i) == IF i > Len(ids) THEN Ok(s)
                               ELSE UpdElems(PutVals(s, ids[i], values[i]), ids, values, i + 1)
UpdateEdgesPre(s, e) == /\ AllResolvable(s, e.ids)
                        /\ \A x \in Range(ResolveAll(s, e.ids)) : x \in DOMAIN s.edges
                        /\ Len(e.values) = Len(e.ids)
UpdateEdges(s, e) == IF UpdateEdgesPre(s, e) /\ e.res = ResolveAll(s, e.ids)
                     THEN UpdElems(s, ResolveAll(s, e.ids), e.values, 1) ELSE Fail

\* insert aliases: alias i -> id i; nodes only, non-empty aliases only (C10)
RECURSIVE SetAliases(_, _, _, _)
SetAliases(s, as, qs, i) ==
  IF i > Len(as) THEN Ok(s)
  ELSE IF ~Resolvable(s, qs[i]) THEN Fail
  ELSE IF Resolve(s, qs[i]) \notin s.nodes THEN Fail
  ELSE SetAliases(SetAlias(s, as[i], Resolve(s, qs[i])), as, qs, i + 1)
InsertAliases(s, e) ==
  IF Len(e.ids) = Len(e.aliases) /\ \A i \in DOMAIN e.aliases : e.aliases[i] # ""
  THEN SetAliases(s, e.aliases, e.ids, 1) ELSE Fail

\* insert values: existing element => insert-or-update; id 0 or an unknown alias => a new node
RECURSIVE InsVals(_, _, _, _, _, _)
InsVals(s, qs, values, newIds, i, n) ==
  IF i > Len(qs) THEN (IF n = Len(newIds) + 1 THEN Ok(s) ELSE Fail)
  ELSE LET q == qs[i] IN
       IF Resolvable(s, q) THEN InsVals(PutVals(s, Resolve(s, q), values[i]), qs, values, newIds, i + 1, n)
       ELSE IF q[1] = "i" /\ q[2] # 0 THEN Fail
       ELSE IF q[1] = "a" /\ q[2] = "" THEN Fail
       ELSE IF n > Len(newIds) THEN Fail
       ELSE IF ~FreshNode(s, newIds[n]) THEN Fail
       ELSE LET s1 == PutVals(AddNode(s, newIds[n]), newIds[n], values[i])
                s2 == IF q[1] = "a" THEN SetAlias(s1, q[2], newIds[n]) ELSE s1
            IN InsVals(s2, qs, values, newIds, i + 1, n + 1)
InsertValues(s, e) == IF Len(e.ids) = Len(e.values) THEN InsVals(s, e.ids, e.values, e.res, 1, 1) ELSE Fail

\* ---- indexes (C11): content is derived -------------------------------------------------
IndexIds(s, k, v) == {x \in Live(s) : HasKey(s.kvs[x], k) /\ ValueOf(s.kvs[x], k) = v}
IndexCount(s, k) == Cardinality({x \in Live(s) : HasKey(s.kvs[x], k)})
InsertIndex(s, e) == IF e.key \notin s.indexed THEN Ok([s EXCEPT !.indexed = @ \cup {e.key}]) ELSE Fail
RemoveIndex(s, e) == Ok([s EXCEPT !.indexed = @ \ {e.key}])

\* ---- removals ------------------------------------------------------------------------------
\* remove ids: missing ids are not an error; ids are processed in order (an edge may already be
\* gone because an earlier id was one of its endpoints)
RECURSIVE RemoveSeq(_, _, _)
RemoveSeq(s, qs, i) == IF i > Len(qs) THEN s
                       ELSE IF Resolvable(s, qs[i]) THEN RemoveSeq(DelElem(s, Resolve(s, qs[i])), qs, i + 1)
                       ELSE RemoveSeq(s, qs, i + 1)
RECURSIVE RemoveCount(_, _, _)
RemoveCount(s, qs, i) == IF i > Len(qs) THEN 0
                         ELSE IF Resolvable(s, qs[i])
                              THEN 1 + RemoveCount(DelElem(s, Resolve(s, qs[i])), qs, i + 1)
                              ELSE RemoveCount(s, qs, i + 1)
Remove(s, e) == Ok(RemoveSeq(s, e.ids, 1))

RemoveAliases(s, e) == Ok([s EXCEPT !.alias = Restrict(@, DOMAIN @ \ Range(e.aliases))])

RECURSIVE RemVals(_, _, _, _)
RemVals(s, qs, ks, i) ==
  IF i > Len(qs) THEN Ok(s)
  ELSE IF ~Resolvable(s, qs[i]) THEN Fail
  ELSE RemVals([s EXCEPT !.kvs = [@ EXCEPT ![Resolve(s, qs[i])] = DropKeys(@, ks)]], qs, ks, i + 1)
RemoveValues(s, e) == RemVals(s, e.ids, Range(e.keys), 1)

\* ---- dispatch -------------------------------------------------------------------------------
Apply(s, e) ==
  CASE e.ev = "InsertNodes" -> InsertNodes(s, e)
    [] e.ev = "UpdateNodes" -> UpdateNodes(s, e)
    [] e.ev = "InsertEdges" -> InsertEdges(s, e)
    [] e.ev = "UpdateEdges" -> UpdateEdges(s, e)
    [] e.ev = "InsertAliases" -> InsertAliases(s, e)
    [] e.ev = "InsertValues" -> InsertValues(s, e)
    [] e.ev = "InsertIndex" -> InsertIndex(s, e)
    [] e.ev = "RemoveIndex" -> RemoveIndex(s, e)
    [] e.ev = "Remove" -> Remove(s, e)
    [] e.ev = "RemoveAliases" -> RemoveAliases(s, e)
    [] e.ev = "RemoveValues" -> RemoveValues(s, e)

\* sequential composition: a transaction / a batch is applied query by query; the first
\* failing query fails the whole
RECURSIVE ApplySeq(_, _, _)
ApplySeq(s, es, i) == IF i > Len(es) THEN Ok(s)
                      ELSE LET r == Apply(s, es[i]) IN
                           IF r.ok THEN ApplySeq(r.s, es, i + 1) ELSE Fail

(***************************************************************************)
(* Read queries                                                            *)
(***************************************************************************)
SelectByKeys(m, keys) ==
  LET RECURSIVE F(_)
      F(i) == IF i > Len(keys) THEN <<>>
              ELSE (IF HasKey(m, keys[i]) THEN <<<<keys[i], ValueOf(m, keys[i])>>>> ELSE <<>>) \o F(i + 1)
  IN IF keys = <<>> THEN m ELSE F(1)

\* select values for explicitly named elements: every requested key must exist
SelectValuesOk(s, e) ==
  /\ AllResolvable(s, e.ids)
  /\ \A x \in Range(ResolveAll(s, e.ids)) : \A k \in Range(e.keys) : HasKey(s.kvs[x], k)
SelectValuesRes(s, e) ==
  LET ids == ResolveAll(s, e.ids) IN [i \in DOMAIN ids |-> <<ids[i], SelectByKeys(s.kvs[ids[i]], e.keys)>>]

EdgeCountOut(s, n) == Len(s.out[n])
EdgeCountIn(s, n) == Len(s.inn[n])

\* elements in id-slot order: increasing magnitude (a node and an edge never share a magnitude
\* in the implementation; the model leaves that tie free)
InSlotOrder(s, q) == /\ Range(q) = Live(s) /\ Len(q) = Cardinality(Live(s))
                     /\ \A i, j \in DOMAIN q : i < j => Abs(q[i]) <= Abs(q[j])

(***************************************************************************)
(* Invariants of the model (C08, C09, C10)                                 *)
(***************************************************************************)
DbInv(s) ==
  /\ \A n \in s.nodes : n > 0
  /\ \A x \in DOMAIN s.edges : x < 0 /\ s.edges[x][1] \in s.nodes /\ s.edges[x][2] \in s.nodes
  /\ DOMAIN s.kvs = Live(s) /\ DOMAIN s.out = s.nodes /\ DOMAIN s.inn = s.nodes
  /\ \A n \in s.nodes : /\ Distinct(s.out[n]) /\ Distinct(s.inn[n])
                        /\ Range(s.out[n]) = {x \in DOMAIN s.edges : s.edges[x][1] = n}
                        /\ Range(s.inn[n]) = {x \in DOMAIN s.edges : s.edges[x][2] = n}
  /\ \A x \in Live(s) : KeysDistinct(s.kvs[x])
  /\ \A a \in DOMAIN s.alias : s.alias[a] \in s.nodes /\ a # ""
  /\ \A a, b \in DOMAIN s.alias : a # b => s.alias[a] # s.alias[b]

\* two states that differ at most in the order of properties and of a node's connections (C13)
SameSet(p, q) == Range(p) = Range(q) /\ Len(p) = Len(q)
SameUpToOrder(s, t) ==
  /\ s.nodes = t.nodes /\ s.edges = t.edges /\ s.alias = t.alias /\ s.indexed = t.indexed
  /\ DOMAIN s.kvs = DOMAIN t.kvs /\ \A x \in DOMAIN s.kvs : SameSet(s.kvs[x], t.kvs[x])
  /\ \A n \in s.nodes : SameSet(s.out[n], t.out[n]) /\ SameSet(s.inn[n], t.inn[n])
==============================================================================
