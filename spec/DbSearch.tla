------------------------------- MODULE DbSearch -------------------------------
(***************************************************************************)
(* Reference semantics of agdb searches as pure operators over a DbModel   *)
(* state: breadth-first / depth-first traversal over ELEMENTS (nodes and   *)
(* edges are both vertices of the traversal; a node's edges are examined   *)
(* from the most recently connected to the oldest; distance counts every   *)
(* element step), search conditions with the documented truth tables and   *)
(* modifiers, type-strict key-value comparisons, limit/offset slicing,     *)
(* stable ordering by keys, elements search in id-slot order, and the      *)
(* minimum-cost path search (C14 - C18).                                   *)
(*                                                                         *)
(* Values are records [t, n, s, c]: c is the comparable content (a         *)
(* sequence of integers: <<n>> for numbers, character codes for strings,   *)
(* the elements for integer vectors).                                      *)
(*                                                                         *)
(* Leniencies (where the documentation gives no answer nothing is          *)
(* demanded): the relative order of values of DIFFERENT types under        *)
(* order-by; ties between equal-cost paths; the order of a node and an     *)
(* edge of equal id magnitude in the elements search.                      *)
(***************************************************************************)
EXTENDS DbModel

Min2(a, b) == IF a < b THEN a ELSE b

\* ---- traversal ---------------------------------------------------------------------
Succ(s, x, dir) == IF x \in s.nodes THEN (IF dir = "fwd" THEN s.out[x] ELSE s.inn[x])
                   ELSE (IF dir = "fwd" THEN <<s.edges[x][2]>> ELSE <<s.edges[x][1]>>)

\* ---- search control: C(ontinue) / S(top) / F(inish) x selected? ---------------------
C(v) == [k |-> "C", v |-> v]
S(v) == [k |-> "S", v |-> v]
And(a, b) == [k |-> IF a.k = "F" \/ b.k = "F" THEN "F" ELSE IF a.k = "S" \/ b.k = "S" THEN "S" ELSE "C", v |-> a.v /\ b.v]
Or(a, b) == [k |-> IF a.k = "C" \/ b.k = "C" THEN "C" ELSE IF a.k = "F" /\ b.k = "F" THEN "F" ELSE "S", v |-> a.v \/ b.v]

\* count comparison c = <<op, n>>
Cmp(c, x) == CASE c[1] = "eq" -> x = c[2] [] c[1] = "ne" -> x # c[2] [] c[1] = "lt" -> x < c[2]
               [] c[1] = "le" -> x <= c[2] [] c[1] = "gt" -> x > c[2] [] c[1] = "ge" -> x >= c[2]

\* distance condition: also prunes the traversal where no deeper element can match
DistCtl(c, d) ==
  CASE c[1] = "eq" -> IF d < c[2] THEN C(FALSE) ELSE IF d = c[2] THEN S(TRUE) ELSE S(FALSE)
    [] c[1] = "gt" -> C(d > c[2])
    [] c[1] = "ge" -> C(d >= c[2])
    [] c[1] = "lt" -> IF d < c[2] THEN C(TRUE) ELSE S(FALSE)
    [] c[1] = "le" -> IF d <= c[2] THEN C(TRUE) ELSE S(FALSE)
    [] c[1] = "ne" -> C(d # c[2])

\* ---- typed value comparisons (C15: type-strict) ----------------------------------------
LexLess(a, b) == \/ \E i \in 1..Min2(Len(a), Len(b)) : a[i] < b[i] /\ \A j \in 1..(i - 1) : a[j] = b[j]
                 \/ (Len(a) < Len(b) /\ \A j \in 1..Len(a) : a[j] = b[j])
IsPrefixOf(p, q) == Len(p) <= Len(q) /\ \A i \in 1..Len(p) : p[i] = q[i]
IsSuffixOf(p, q) == Len(p) <= Len(q) /\ \A i \in 1..Len(p) : p[i] = q[Len(q) - Len(p) + i]
IsInfixOf(p, q) == \E k \in 0..(Len(q) - Len(p)) : \A i \in 1..Len(p) : p[i] = q[k + i]

CmpVal(op, have, want) ==
  CASE op = "eq" -> have = want
    [] op = "ne" -> have # want
    [] op = "lt" -> have.t = want.t /\ LexLess(have.c, want.c)
    [] op = "le" -> have.t = want.t /\ (have = want \/ LexLess(have.c, want.c))
    [] op = "gt" -> have.t = want.t /\ LexLess(want.c, have.c)
    [] op = "ge" -> have.t = want.t /\ (have = want \/ LexLess(want.c, have.c))
    [] op = "contains" ->
         \/ (have.t = "s" /\ want.t = "s" /\ IsInfixOf(want.c, have.c))
         \/ (have.t = "vi" /\ want.t = "i" /\ want.c[1] \in Range(have.c))
         \/ (have.t = "vi" /\ want.t = "vi" /\ Range(want.c) \subseteq Range(have.c))
    [] op = "starts" ->
         \/ (have.t = "s" /\ want.t = "s" /\ IsPrefixOf(want.c, have.c))
         \/ (have.t = "vi" /\ want.t = "i" /\ have.c # <<>> /\ have.c[1] = want.c[1])
         \/ (have.t = "vi" /\ want.t = "vi" /\ IsPrefixOf(want.c, have.c))
    [] op = "ends" ->
         \/ (have.t = "s" /\ want.t = "s" /\ IsSuffixOf(want.c, have.c))
         \/ (have.t = "vi" /\ want.t = "i" /\ have.c # <<>> /\ have.c[Len(have.c)] = want.c[1])
         \/ (have.t = "vi" /\ want.t = "vi" /\ IsSuffixOf(want.c, have.c))

\* ---- conditions: list of [l |-> "and"|"or", m |-> modifier, d |-> data] ------------------
RECURSIVE EvalList(_, _, _, _)
EvalData(s, d, x, dist) ==
  CASE d.t = "node" -> C(x \in s.nodes)
    [] d.t = "edge" -> C(x \in DOMAIN s.edges)
    [] d.t = "dist" -> DistCtl(d.c, dist)
    [] d.t = "ec" -> C(x \in s.nodes /\ Cmp(d.c, Len(s.out[x]) + Len(s.inn[x])))
    [] d.t = "ecf" -> C(x \in s.nodes /\ Cmp(d.c, Len(s.out[x])))
    [] d.t = "ect" -> C(x \in s.nodes /\ Cmp(d.c, Len(s.inn[x])))
    [] d.t = "ids" -> C(\E i \in DOMAIN d.v : Resolvable(s, d.v[i]) /\ Resolve(s, d.v[i]) = x)
    [] d.t = "keys" -> C(\A k \in Range(d.v) : HasKey(s.kvs[x], k))
    [] d.t = "kv" -> C(HasKey(s.kvs[x], d.k) /\ CmpVal(d.c, ValueOf(s.kvs[x], d.k), d.v))
    [] d.t = "where" -> EvalList(s, d.v, x, dist)

EvalStep(s, c, result, x, dist) ==
  LET raw == EvalData(s, c.d, x, dist)
      ctl == CASE c.m = "none" -> raw
               [] c.m = "not" -> [raw EXCEPT !.v = ~raw.v]
               [] c.m = "beyond" -> IF raw.v \/ dist = 0 THEN C(result.v) ELSE S(result.v)
               [] c.m = "notbeyond" -> IF raw.v THEN S(result.v) ELSE C(result.v)
  IN IF c.l = "and" THEN And(result, ctl) ELSE Or(result, ctl)

EvalList(s, cs, x, dist) ==
  LET RECURSIVE F(_, _)
      F(j, r) == IF j > Len(cs) THEN r ELSE F(j + 1, EvalStep(s, cs[j], r, x, dist))
  IN F(1, C(TRUE))

\* ---- breadth-first: queue of <<element, distance>> ------------------------------------------
RECURSIVE Bfs(_, _, _, _, _, _)
Bfs(s, cs, dir, queue, visited, res) ==
  IF queue = <<>> THEN res
  ELSE LET x == Head(queue)[1]
           d == Head(queue)[2] IN
       IF x \in visited THEN Bfs(s, cs, dir, Tail(queue), visited, res)
       ELSE LET ctl == EvalList(s, cs, x, d)
                sc == Succ(s, x, dir)
                nxt == IF ctl.k = "C" THEN [i \in DOMAIN sc |-> <<sc[i], d + 1>>] ELSE <<>>
            IN IF ctl.k = "F" THEN (IF ctl.v THEN Append(res, x) ELSE res)
               ELSE Bfs(s, cs, dir, Tail(queue) \o nxt, visited \cup {x}, IF ctl.v THEN Append(res, x) ELSE res)

\* ---- depth-first, preorder: each branch to its end before backtracking -----------------------
RECURSIVE DfsV(_, _, _, _, _, _)
RECURSIVE DfsL(_, _, _, _, _, _)
DfsV(s, cs, dir, x, d, st) ==
  IF x \in st.vis \/ st.fin THEN st
  ELSE LET ctl == EvalList(s, cs, x, d)
           st1 == [res |-> IF ctl.v THEN Append(st.res, x) ELSE st.res, vis |-> st.vis \cup {x}, fin |-> ctl.k = "F"]
       IN IF ctl.k = "C" THEN DfsL(s, cs, dir, Succ(s, x, dir), d + 1, st1) ELSE st1
DfsL(s, cs, dir, xs, d, st) == IF xs = <<>> \/ st.fin THEN st
                               ELSE DfsL(s, cs, dir, Tail(xs), d, DfsV(s, cs, dir, Head(xs), d, st))

Traverse(s, alg, dir, origin, cs) ==
  IF alg = "bfs" THEN Bfs(s, cs, dir, <<<<origin, 0>>>>, {}, <<>>)
  ELSE DfsV(s, cs, dir, origin, 0, [res |-> <<>>, vis |-> {}, fin |-> FALSE]).res

\* ---- elements search (C18): every live element once, in id-slot order, filtered ---------------
ElementsOk(s, cs, res) ==
  LET sel == {x \in Live(s) : EvalList(s, cs, x, 0).v} IN
  /\ Range(res) = sel /\ Len(res) = Cardinality(sel)
  /\ \A i, j \in DOMAIN res : i < j => Abs(res[i]) <= Abs(res[j])

\* ---- path search (C17) ----------------------------------------------------------------------------
\* cost of using element x on a path (never the origin): 0 = unusable (the conditions stop there)
CostOf(s, cs, x) == LET c == EvalList(s, cs, x, 1) IN IF c.k # "C" THEN 0 ELSE IF c.v THEN 1 ELSE 2
PassesOnPath(s, cs, x, isOrigin) == EvalList(s, cs, x, IF isOrigin THEN 0 ELSE 1).v

\* all usable node-simple alternating paths from node `cur` to node b: set of [elems, cost]
RECURSIVE PathsFrom(_, _, _, _, _, _, _)
PathsFrom(s, cs, cur, b, seen, elems, cost) ==
  IF cur = b THEN {[elems |-> elems, cost |-> cost]}
  ELSE UNION { LET t == s.edges[e][2] IN
               IF t \in seen \/ CostOf(s, cs, e) = 0 \/ CostOf(s, cs, t) = 0 THEN {}
               ELSE PathsFrom(s, cs, t, b, seen \cup {t}, elems \o <<e, t>>,
                              cost + CostOf(s, cs, e) + CostOf(s, cs, t))
             : e \in Range(s.out[cur]) }
AllPaths(s, cs, a, b) == IF a = b \/ a \notin s.nodes \/ b \notin s.nodes THEN {}
                         ELSE PathsFrom(s, cs, a, b, {a}, <<a>>, 0)
FilterPath(s, cs, p) == LET RECURSIVE F(_)
                            F(i) == IF i > Len(p) THEN <<>>
                                    ELSE (IF PassesOnPath(s, cs, p[i], i = 1) THEN <<p[i]>> ELSE <<>>) \o F(i + 1)
                        IN F(1)
\* the result is the passing elements of SOME minimum-cost usable path; empty iff there is none
PathOk(s, cs, a, b, res) ==
  LET ps == AllPaths(s, cs, a, b) IN
  IF ps = {} THEN res = <<>>
  ELSE LET m == CHOOSE c \in {p.cost : p \in ps} : \A p \in ps : c <= p.cost IN
       \E p \in ps : p.cost = m /\ res = FilterPath(s, cs, p.elems)

\* ---- limit / offset (C16): positions offset .. offset+limit-1, clipped ----------------------------
Slice(q, off, lim) == LET a == Min2(off, Len(q))
                          z == IF lim = 0 THEN Len(q) ELSE Min2(a + lim, Len(q))
                      IN SubSeq(q, a + 1, z)

\* ---- order by (C16): stable sort by the keys; missing key last; only same-type values ordered ------
\* order = sequence of <<key, desc>>.  Cmp3 in {-1 (x first), 1 (y first), 0 (tie), 2 (not comparable)}
KeyCmp(s, x, y, k, desc) ==
  LET hx == HasKey(s.kvs[x], k)
      hy == HasKey(s.kvs[y], k) IN
  IF ~hx /\ ~hy THEN 0 ELSE IF hx /\ ~hy THEN 0 - 1 ELSE IF ~hx /\ hy THEN 1
  ELSE LET vx == ValueOf(s.kvs[x], k)
           vy == ValueOf(s.kvs[y], k) IN
       IF vx = vy THEN 0
       ELSE IF vx.t # vy.t THEN 2
       ELSE IF LexLess(vx.c, vy.c) THEN (IF desc THEN 1 ELSE 0 - 1)
       ELSE IF LexLess(vy.c, vx.c) THEN (IF desc THEN 0 - 1 ELSE 1)
       ELSE 2
RECURSIVE OrderCmp(_, _, _, _, _)
OrderCmp(s, x, y, order, i) ==
  IF i > Len(order) THEN 0
  ELSE LET c == KeyCmp(s, x, y, order[i][1], order[i][2]) IN
       IF c = 0 THEN OrderCmp(s, x, y, order, i + 1) ELSE c
PosIn(q, x) == CHOOSE i \in DOMAIN q : q[i] = x
SortedStable(s, order, base, sorted) ==
  /\ Range(sorted) = Range(base) /\ Len(sorted) = Len(base)
  /\ \A i, j \in DOMAIN sorted : i < j =>
        LET c == OrderCmp(s, sorted[i], sorted[j], order, 1) IN
        /\ c # 1                                               \* never the wrong way round
        /\ (c = 0 => PosIn(base, sorted[i]) < PosIn(base, sorted[j]))   \* ties keep the search order
==============================================================================
