------------------------------- MODULE DbTrace -------------------------------
(***************************************************************************)
(* Trace validation of query histories recorded from the real database     *)
(* (driver harness/vdb) against DbModel.  One event per query:             *)
(*   mutating query events (names = DbModel!Apply cases) with ok/res,      *)
(*   Tx (a transaction_mut closure: sub-events, committed or not),         *)
(*   read events (Select*, SearchIndex, Elements), Observe (full canonical *)
(*   dump through the public API), Maintain (reopen/optimize/...: must     *)
(*   stutter), Reset.  Every event carries `others`: the <<ok, res>> of the *)
(*   same query on the other storage variants run in lock-step (C06).      *)
(* A Panic / Hang event has no action: the trace is rejected at that line. *)
(***************************************************************************)
EXTENDS DbSearch, Json, IOUtils

CONSTANT CrashMode   \* "atomic" (C03) | "readable" (C02): what a CrashProbe event must satisfy

Rec == ndJsonDeserialize(IOEnv.TRACE)

VARIABLES db, l,
          prev   \* the model state before the last mutating step (what a crash inside that step may recover, C03)
tvars == <<db, l, prev>>

E == Rec[l]
IsEvent(n) == l <= Len(Rec) /\ Rec[l].ev = n /\ l' = l + 1
Same == db' = db /\ prev' = prev

\* ---- decoding of dumps ---------------------------------------------------------------
FnOf(pairs) == [k \in {p[1] : p \in Range(pairs)} |-> (CHOOSE p \in Range(pairs) : p[1] = k)[2]]
EdgeFn(tr) == [k \in {p[1] : p \in Range(tr)} |-> LET p == CHOOSE q \in Range(tr) : q[1] = k IN <<p[2], p[3]>>]

DumpState(o) == [nodes |-> Range(o.nodes), edges |-> EdgeFn(o.edges), out |-> FnOf(o.out), inn |-> FnOf(o.inn),
                 kvs |-> FnOf(o.kvs), alias |-> FnOf(o.aliases), indexed |-> {p[1] : p \in Range(o.indexes)}]

\* ---- variants in lock-step (C06): every other variant answered exactly like the primary ---
OthersAgree(e) == \A i \in DOMAIN e.others : e.others[i].ok = e.ok /\ e.others[i].res = e.res

\* ---- should the query succeed?  (documented preconditions, independent of returned ids) ---
RECURSIVE AliasesPre(_, _, _, _)
AliasesPre(s, as, qs, i) == IF i > Len(as) THEN TRUE
                            ELSE /\ Resolvable(s, qs[i]) /\ Resolve(s, qs[i]) \in s.nodes
                                 /\ AliasesPre(SetAlias(s, as[i], Resolve(s, qs[i])), as, qs, i + 1)
ShouldSucceed(s, e) ==
  CASE e.ev = "InsertNodes" -> InsertNodesPre(s, e)
    [] e.ev = "UpdateNodes" -> UpdateNodesPre(s, e)
    [] e.ev = "InsertEdges" -> InsertEdgesPre(s, e)
    [] e.ev = "UpdateEdges" -> UpdateEdgesPre(s, e)
    [] e.ev = "InsertAliases" -> /\ Len(e.ids) = Len(e.aliases) /\ \A i \in DOMAIN e.aliases : e.aliases[i] # ""
                                 /\ AliasesPre(s, e.aliases, e.ids, 1)
    [] e.ev = "InsertValues" -> /\ Len(e.ids) = Len(e.values)
                                /\ \A i \in DOMAIN e.ids : \/ Resolvable(s, e.ids[i]) \/ e.ids[i] = <<"i", 0>>
                                                           \/ (e.ids[i][1] = "a" /\ e.ids[i][2] # "")
    [] e.ev = "InsertIndex" -> e.key \notin s.indexed
    [] e.ev = "RemoveIndex" -> TRUE
    [] e.ev = "Remove" -> TRUE
    [] e.ev = "RemoveAliases" -> TRUE
    [] e.ev = "RemoveValues" -> AllResolvable(s, e.ids)

\* the numeric result the documentation gives for a successful query (where it defines one)
ResultOk(s, e) ==
  CASE e.ev = "InsertIndex" -> e.result = IndexCount(s, e.key)
    [] e.ev = "RemoveIndex" -> e.result = (IF e.key \in s.indexed THEN IndexCount(s, e.key) ELSE 0)
    [] e.ev = "Remove" -> e.result = RemoveCount(s, e.ids, 1)
    [] e.ev = "RemoveAliases" -> e.result = Cardinality(Range(e.aliases) \cap DOMAIN s.alias)
    [] e.ev = "InsertAliases" -> e.result = Len(e.ids)
    [] OTHER -> TRUE

MutEvs == {"InsertNodes", "UpdateNodes", "InsertEdges", "UpdateEdges", "InsertAliases", "InsertValues",
           "InsertIndex", "RemoveIndex", "Remove", "RemoveAliases", "RemoveValues"}

\* a failed query / rolled back transaction leaves the state unchanged up to the order of
\* properties and connections (C13); the new order is taken from the Observe that follows
NextObs == IF l + 1 <= Len(Rec) /\ Rec[l + 1].ev = "Observe" THEN DumpState(Rec[l + 1]) ELSE db
Unchanged13 == /\ db' = (IF SameUpToOrder(db, NextObs) THEN NextObs ELSE db)

TInit == db = EmptyDb /\ prev = EmptyDb /\ l = 1
TReset == IsEvent("Reset") /\ db' = EmptyDb /\ prev' = EmptyDb

\* C32: the driver made one storage write / resize of this query fail (fault = TRUE): the query must
\* report an error and leave no effect, whatever its arguments
Faulted(e) == "fault" \in DOMAIN e /\ e.fault

TMut == /\ l <= Len(Rec) /\ E.ev \in MutEvs /\ l' = l + 1 /\ prev' = db
        /\ OthersAgree(E)
        /\ IF Faulted(E) THEN ~E.ok /\ Unchanged13
           ELSE IF E.ok
           THEN LET r == Apply(db, E) IN r.ok /\ ResultOk(db, E) /\ db' = r.s
           ELSE ~ShouldSucceed(db, E) /\ Unchanged13

\* transaction_mut closure: queries run in order, the closure returns Err at the first failing
\* query (e.stop = its index) or after e.stop queries on its own accord (e.abort); otherwise commits
RECURSIVE TxFold(_, _, _, _)
TxFold(s, qs, i, n) ==   \* applies queries i..n, all of which the implementation reported ok
  IF i > n THEN Ok(s)
  ELSE IF ~qs[i].ok THEN Fail
  ELSE LET r == Apply(s, qs[i]) IN IF r.ok /\ ResultOk(s, qs[i]) THEN TxFold(r.s, qs, i + 1, n) ELSE Fail

TTx == /\ IsEvent("Tx") /\ OthersAgree(E) /\ prev' = db
       /\ (Faulted(E) => ~E.ok)
       /\ IF E.ok
          THEN /\ \A i \in DOMAIN E.queries : E.queries[i].ok
               /\ LET r == TxFold(db, E.queries, 1, Len(E.queries)) IN r.ok /\ db' = r.s
          ELSE \* rolled back: every query before the stop point behaved like the model, the failing
               \* one (if any) had to fail, and nothing remains (C13)
               LET n == Len(E.queries)
                   good == IF n > 0 /\ ~E.queries[n].ok THEN n - 1 ELSE n
                   r == TxFold(db, E.queries, 1, good) IN
               /\ r.ok
               /\ (good < n /\ ~Faulted(E) => ~ShouldSucceed(r.s, E.queries[n]))
               /\ Unchanged13

\* ---- reads ------------------------------------------------------------------------------
TSelectValues == /\ IsEvent("SelectValues") /\ Same /\ OthersAgree(E)
                 /\ E.ok = SelectValuesOk(db, E)
                 /\ E.ok => E.res = SelectValuesRes(db, E)

TSelectKeys == /\ IsEvent("SelectKeys") /\ Same /\ OthersAgree(E)
               /\ E.ok = AllResolvable(db, E.ids)
               /\ E.ok => LET ids == ResolveAll(db, E.ids) IN
                          E.res = [i \in DOMAIN ids |-> <<ids[i], KeysOf(db.kvs[ids[i]])>>]

TSelectKeyCount == /\ IsEvent("SelectKeyCount") /\ Same /\ OthersAgree(E)
                   /\ E.ok = AllResolvable(db, E.ids)
                   /\ E.ok => LET ids == ResolveAll(db, E.ids) IN
                              E.res = [i \in DOMAIN ids |-> <<ids[i], Len(db.kvs[ids[i]])>>]

AliasOf(s, n) == CHOOSE a \in DOMAIN s.alias : s.alias[a] = n
HasAlias(s, n) == \E a \in DOMAIN s.alias : s.alias[a] = n
TSelectAliases == /\ IsEvent("SelectAliases") /\ Same /\ OthersAgree(E)
                  /\ E.ok = (AllResolvable(db, E.ids) /\ \A x \in Range(ResolveAll(db, E.ids)) : HasAlias(db, x))
                  /\ E.ok => LET ids == ResolveAll(db, E.ids) IN
                             E.res = [i \in DOMAIN ids |-> <<ids[i], AliasOf(db, ids[i])>>]

\* all aliases: exactly the mapping (any order)
TSelectAllAliases == /\ IsEvent("SelectAllAliases") /\ Same /\ OthersAgree(E) /\ E.ok
                     /\ Len(E.res) = Cardinality(DOMAIN db.alias)
                     /\ FnOf(E.res) = db.alias

TSelectEdgeCount == /\ IsEvent("SelectEdgeCount") /\ Same /\ OthersAgree(E)
                    /\ E.ok = AllResolvable(db, E.ids)
                    /\ E.ok => LET ids == ResolveAll(db, E.ids) IN
                               E.res = [i \in DOMAIN ids |->
                                         IF ids[i] \in db.nodes
                                         THEN <<ids[i], (IF E.dir = "from" THEN 0 ELSE EdgeCountIn(db, ids[i]))
                                                        + (IF E.dir = "to" THEN 0 ELSE EdgeCountOut(db, ids[i]))>>
                                         ELSE <<ids[i], 0>>]

TSelectNodeCount == /\ IsEvent("SelectNodeCount") /\ Same /\ OthersAgree(E) /\ E.ok
                    /\ E.res = Cardinality(db.nodes)

TSelectIndexes == /\ IsEvent("SelectIndexes") /\ Same /\ OthersAgree(E) /\ E.ok
                  /\ {p[1] : p \in Range(E.res)} = db.indexed /\ Len(E.res) = Cardinality(db.indexed)
                  /\ \A p \in Range(E.res) : p[2] = IndexCount(db, p[1])

\* index search: exactly the elements whose current value of key equals value (C11)
TSearchIndex == /\ IsEvent("SearchIndex") /\ Same /\ OthersAgree(E)
                /\ E.ok = (E.key \in db.indexed)
                /\ E.ok => Range(E.res) = IndexIds(db, E.key, E.value) /\ Distinct(E.res)

\* elements search without conditions: every live element once, in id-slot order (C18)
TElements == /\ IsEvent("Elements") /\ Same /\ OthersAgree(E) /\ E.ok
             /\ InSlotOrder(db, E.res)

\* select ids by alias / id: resolution agrees with the mapping (C10)
TSelectIds == /\ IsEvent("SelectIds") /\ Same /\ OthersAgree(E)
              /\ E.ok = AllResolvable(db, E.ids)
              /\ E.ok => LET ids == ResolveAll(db, E.ids) IN
                         E.res = [i \in DOMAIN ids |->
                                   IF ids[i] \in db.nodes
                                   THEN <<ids[i], (IF db.out[ids[i]] = <<>> THEN 0 ELSE Head(db.out[ids[i]])),
                                                  (IF db.inn[ids[i]] = <<>> THEN 0 ELSE Head(db.inn[ids[i]]))>>
                                   ELSE <<ids[i], db.edges[ids[i]][1], db.edges[ids[i]][2]>>]

\* ---- searches (C14 - C18): three layers, each decided separately -------------------------------
\*   base    = the search without limit/offset/order-by  (traversal + conditions / path / elements)
\*   ordered = base stably sorted by the order-by keys
\*   res     = ordered sliced by offset / limit
SearchResolvable(s, e) ==
  CASE e.alg = "elements" -> TRUE
    [] e.alg = "path" -> Resolvable(s, e.origin) /\ Resolvable(s, e.dest)
    [] OTHER -> Resolvable(s, e.origin)
BaseOk(s, e) ==
  CASE e.alg = "elements" -> ElementsOk(s, e.conds, e.base)
    [] e.alg = "path" -> PathOk(s, e.conds, Resolve(s, e.origin), Resolve(s, e.dest), e.base)
    [] OTHER -> e.base = Traverse(s, e.alg, e.dir, Resolve(s, e.origin), e.conds)
TSearch == /\ IsEvent("Search") /\ Same /\ OthersAgree(E)
           /\ E.ok = SearchResolvable(db, E)
           /\ E.ok => /\ BaseOk(db, E)
                      /\ SortedStable(db, E.order, E.base, E.ordered)
                      /\ E.res = Slice(E.ordered, E.offset, E.limit)

\* ---- full observation: the canonical dump through the public API equals the model state ---
TObserve == /\ IsEvent("Observe") /\ Same
            /\ db = DumpState(E)
            /\ \A p \in Range(E.indexes) : p[2] = IndexCount(db, p[1])
            /\ E.node_count = Cardinality(db.nodes)
            /\ InSlotOrder(db, E.elements)
            /\ \A i \in DOMAIN E.others : E.others[i] = E.digest

\* a crash image taken inside the last query / transaction was reopened by the real database:
\*   readable (C02): it opened, every read of the canonical dump succeeded and the dump is a well formed database;
\*   atomic   (C03): the dump IS the model state before (prev) or after (db) that query / transaction.
\* One event per distinct recovered dump of the step (the driver only groups equal dumps; TLC decides).
TCrashProbe == /\ IsEvent("CrashProbe") /\ Same
               /\ E.ok
               /\ LET d == DumpState(E.dump) IN
                  /\ DbInv(d)
                  /\ (CrashMode = "atomic" => d = prev \/ d = db)

\* maintenance operations change nothing (C05): the Observe that follows must equal the state
\* C05: the operation succeeded, the abstract state is unchanged (the Observe that follows is compared with it) and - where
\* the driver recorded it - everything a reader sees INCLUDING result order (dump lists, alias and index listings, index
\* search ids) is what it was before the operation
TMaintain == IsEvent("Maintain") /\ E.ok /\ db' = db /\ prev' = db
             /\ ("order_same" \in DOMAIN E => E.order_same)

\* a probe run starts from a state dumped from the real database (validated in its own run)
TLoad == IsEvent("Load") /\ db' = DumpState(E) /\ prev' = DumpState(E) /\ DbInv(DumpState(E))
TNote == IsEvent("Note") /\ Same

\* C22: an element stored from a user type (derive macro) was selected back AS THAT TYPE: the select succeeded and the
\* typed value equals the one written (equality decided by the driver with the type's PartialEq); the key-values the
\* element holds are validated by the InsertValues event (hand-written expected pairs) and the Observe around it
TTypedRead == IsEvent("TypedRead") /\ Same /\ E.ok /\ E.eq /\ E.id \in db.nodes

TNext == TReset \/ TLoad \/ TNote \/ TTypedRead \/ TMut \/ TTx \/ TSelectValues \/ TSelectKeys \/ TSelectKeyCount \/ TSelectAliases
         \/ TSelectAllAliases \/ TSelectEdgeCount \/ TSelectNodeCount \/ TSelectIndexes \/ TSearchIndex
         \/ TElements \/ TSelectIds \/ TObserve \/ TMaintain \/ TSearch \/ TCrashProbe

TraceSpec == TInit /\ [][TNext]_tvars

\* Skip mode (used when many runs of one file may be rejected, e.g. fault probes): a run whose next event no
\* action accepts is reported (RUN_REJECTED <line>) and abandoned; validation resumes at the next Reset.
\* Sound because DbTrace is deterministic (every action binds db' and l' to one value).
RECURSIVE NextReset(_)
NextReset(i) == IF i > Len(Rec) \/ Rec[i].ev = "Reset" THEN i ELSE NextReset(i + 1)
TSkip == /\ l <= Len(Rec) /\ ~ENABLED TNext
         /\ PrintT(<<"RUN_REJECTED", l>>)
         /\ l' = NextReset(l + 1) /\ db' = EmptyDb /\ prev' = EmptyDb
TEnd == l = Len(Rec) + 1 /\ PrintT(<<"TRACE_END", Len(Rec)>>) /\ l' = l + 1 /\ UNCHANGED <<db, prev>>
TraceSpecSkip == TInit /\ [][TNext \/ TSkip \/ TEnd]_tvars

DbInvariant == DbInv(db)

TraceAccepted ==
  LET d == TLCGet("stats").diameter IN
  IF d - 1 = Len(Rec) THEN PrintT(<<"TRACE_ACCEPTED", Len(Rec)>>)
  ELSE PrintT(<<"TRACE_REJECTED", d, Rec[d].ev>>) /\ FALSE
==============================================================================
