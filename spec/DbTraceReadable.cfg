SPECIFICATION TraceSpec
CONSTANT CrashMode = "readable"
POSTCONDITION TraceAccepted
CHECK_DEADLOCK FALSE
