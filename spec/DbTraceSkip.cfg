SPECIFICATION TraceSpecSkip
CONSTANT CrashMode = "atomic"
CHECK_DEADLOCK FALSE
