------------------------------- MODULE HashMap -------------------------------
(***************************************************************************)
(* agdb/src/collections/multi_map.rs: open addressing with linear probing  *)
(* and tombstones; a multimap (several values per key).  Slot-level model  *)
(* of insert, insert_or_replace, remove_key, remove_value, lookups and the *)
(* grow/shrink thresholds, with the minimum capacity as a constant (64 in  *)
(* the code; 4 in the exhaustive configuration).                           *)
(*                                                                         *)
(* A probe loop that visits Cap slots without reaching its stop condition  *)
(* never stops (nothing changes while probing): `hung` records that.       *)
(*                                                                         *)
(* Mechanism parameters (the .cfg names the values transcribing /repo):    *)
(*   ReuseTomb: insert_or_replace keeps the first tombstone it passed when *)
(*              it reaches an Empty slot (FALSE: the Empty slot wins)      *)
(*   WrapStop:  insert_or_replace stops after one full cycle               *)
(***************************************************************************)
EXTENDS Naturals, Sequences, FiniteSets, TLC

CONSTANTS Keys, Vals, MinCap, ReuseTomb, WrapStop, MaxCap

EMPTY == [st |-> 0, k |-> 0, v |-> 0]
DELETED == [st |-> 2, k |-> 0, v |-> 0]
Valid(k, v) == [st |-> 1, k |-> k, v |-> v]

VARIABLES slots, count, hung
vars == <<slots, count, hung>>

Cap == Len(slots)
MaxLenOf(c) == (c * 15) \div 16
MinLenOf(c) == (c * 7) \div 16
Hash(k) == k                       \* stable_hash of u64 is the identity
Home(k, c) == (Hash(k) % c) + 1
NextPos(p, c) == IF p = c THEN 1 ELSE p + 1
Max(a, b) == IF a > b THEN a ELSE b

Entries(s) == {i \in DOMAIN s : s[i].st = 1}
BagOf(s, k) == {i \in Entries(s) : s[i].k = k}

\* ---- rehash ---------------------------------------------------------------------------
\* The code rebuilds in place (rehash_values).  The model only needs a layout that the code
\* could have produced; ValidLayout is what every rehash must establish, and the exhaustive
\* model uses the canonical one (re-insertion in slot order).
RECURSIVE FirstFree(_, _, _)
FirstFree(t, p, n) == IF n = 0 THEN 0 ELSE IF t[p].st # 1 THEN p ELSE FirstFree(t, NextPos(p, Len(t)), n - 1)
RECURSIVE PutAll(_, _, _)
PutAll(t, es, i) == IF i > Len(es) THEN t
                    ELSE LET p == FirstFree(t, Home(es[i].k, Len(t)), Len(t)) IN PutAll([t EXCEPT ![p] = es[i]], es, i + 1)
ValidSeq(s) == SelectSeq(s, LAMBDA e : e.st = 1)
Rebuild(s, c) == PutAll([i \in 1..c |-> EMPTY], ValidSeq(s), 1)

\* every valid entry is reachable from its home slot without crossing an Empty slot
RECURSIVE ReachableFrom(_, _, _, _)
ReachableFrom(s, p, target, n) == IF p = target THEN TRUE
                                  ELSE IF n = 0 \/ s[p].st = 0 THEN FALSE
                                  ELSE ReachableFrom(s, NextPos(p, Len(s)), target, n - 1)
ValidLayout(s) == \A i \in Entries(s) : ReachableFrom(s, Home(s[i].k, Len(s)), i, Len(s))

\* rehash(capacity): max(capacity, MinCap); EQUAL capacity is a no-op in the code
WantCap(want) == Max(want, MinCap)
Rehash(s, want) == IF WantCap(want) = Len(s) THEN s ELSE Rebuild(s, WantCap(want))

\* ---- insert (free_index): first Empty or Deleted slot from home ---------------------------
RECURSIVE FreeIndex(_, _, _)
FreeIndex(s, p, n) == IF n = 0 THEN 0 ELSE IF s[p].st # 1 THEN p ELSE FreeIndex(s, NextPos(p, Len(s)), n - 1)

\* ---- insert_or_replace probing: [ok, pos, replace]; ok = FALSE: the loop never terminates ---
RECURSIVE Probe(_, _, _, _, _, _)
Probe(s, k, old, p, n, firstD) ==
  IF n = 0 THEN IF WrapStop THEN [ok |-> TRUE, pos |-> firstD, replace |-> FALSE]
                            ELSE [ok |-> FALSE, pos |-> 0, replace |-> FALSE]
  ELSE IF s[p].st = 0 THEN [ok |-> TRUE, pos |-> (IF firstD = 0 \/ ~ReuseTomb THEN p ELSE firstD), replace |-> FALSE]
  ELSE IF s[p].st = 1 /\ s[p].k = k /\ s[p].v = old THEN [ok |-> TRUE, pos |-> p, replace |-> TRUE]
  ELSE Probe(s, k, old, NextPos(p, Len(s)), n - 1, IF s[p].st = 2 /\ firstD = 0 THEN p ELSE firstD)

Init == slots = <<>> /\ count = 0 /\ hung = FALSE    \* a new map has capacity 0 until the first insertion

Grown(s, c) == IF c >= MaxLenOf(Len(s)) THEN Rehash(s, Len(s) * 2) ELSE s

InsertStep(s0, c0, k, v) ==   \* returns [slots, count, hung]
  LET s1 == Grown(s0, c0)
      p == FreeIndex(s1, Home(k, Len(s1)), Len(s1)) IN
  IF p = 0 THEN [slots |-> s1, count |-> c0, hung |-> TRUE]
  ELSE [slots |-> [s1 EXCEPT ![p] = Valid(k, v)], count |-> c0 + 1, hung |-> FALSE]

InsertOrReplaceStep(s0, c0, k, old, v) ==
  LET s1 == Grown(s0, c0)
      r == Probe(s1, k, old, Home(k, Len(s1)), Len(s1), 0) IN
  IF ~r.ok THEN [slots |-> s1, count |-> c0, hung |-> TRUE]
  ELSE IF r.pos = 0 THEN [slots |-> s1, count |-> c0, hung |-> FALSE]   \* (full table: cannot happen, len < cap)
  ELSE [slots |-> [s1 EXCEPT ![r.pos] = Valid(k, v)], count |-> IF r.replace THEN c0 ELSE c0 + 1, hung |-> FALSE]

Shrunk(s, c) == IF c <= MinLenOf(Len(s)) THEN Rehash(s, Len(s) \div 2) ELSE s

\* remove_key: every entry of the key reachable before the first Empty slot (one full cycle at most)
RECURSIVE KeyPositions(_, _, _, _)
KeyPositions(s, k, p, n) == IF n = 0 \/ s[p].st = 0 THEN {}
                            ELSE (IF s[p].st = 1 /\ s[p].k = k THEN {p} ELSE {}) \cup KeyPositions(s, k, NextPos(p, Len(s)), n - 1)
RemoveKeyStep(s0, c0, k) ==
  IF s0 = <<>> THEN [slots |-> s0, count |-> c0, hung |-> FALSE] ELSE
  LET ps == KeyPositions(s0, k, Home(k, Len(s0)), Len(s0))
      s1 == [i \in DOMAIN s0 |-> IF i \in ps THEN DELETED ELSE s0[i]]
      c1 == c0 - Cardinality(ps) IN
  IF ps = {} THEN [slots |-> s0, count |-> c0, hung |-> FALSE]
  ELSE [slots |-> Shrunk(s1, c1), count |-> c1, hung |-> FALSE]

\* remove_value: the first entry <<k, v>> reachable before the first Empty slot
RECURSIVE FirstKV(_, _, _, _, _)
FirstKV(s, k, v, p, n) == IF n = 0 \/ s[p].st = 0 THEN 0
                          ELSE IF s[p].st = 1 /\ s[p].k = k /\ s[p].v = v THEN p
                          ELSE FirstKV(s, k, v, NextPos(p, Len(s)), n - 1)
RemoveValueStep(s0, c0, k, v) ==
  IF s0 = <<>> THEN [slots |-> s0, count |-> c0, hung |-> FALSE] ELSE
  LET p == FirstKV(s0, k, v, Home(k, Len(s0)), Len(s0)) IN
  IF p = 0 THEN [slots |-> s0, count |-> c0, hung |-> FALSE]
  ELSE LET s1 == [s0 EXCEPT ![p] = DELETED] IN [slots |-> Shrunk(s1, c0 - 1), count |-> c0 - 1, hung |-> FALSE]

\* values(k): in probe order, until the first Empty slot or one full cycle
RECURSIVE ValuesOf(_, _, _, _)
ValuesOf(s, k, p, n) == IF n = 0 \/ s[p].st = 0 THEN <<>>
                        ELSE (IF s[p].st = 1 /\ s[p].k = k THEN <<s[p].v>> ELSE <<>>) \o ValuesOf(s, k, NextPos(p, Len(s)), n - 1)
Lookup(s, k) == IF s = <<>> THEN <<>> ELSE ValuesOf(s, k, Home(k, Len(s)), Len(s))

Set(r) == slots' = r.slots /\ count' = r.count /\ hung' = r.hung

Insert(k, v) == ~hung /\ Set(InsertStep(slots, count, k, v))
InsertOrReplace(k, old, v) == ~hung /\ Set(InsertOrReplaceStep(slots, count, k, old, v))
RemoveKey(k) == ~hung /\ Set(RemoveKeyStep(slots, count, k))
RemoveValue(k, v) == ~hung /\ Set(RemoveValueStep(slots, count, k, v))

Next == \E k \in Keys, v \in Vals, w \in Vals :
          Insert(k, v) \/ InsertOrReplace(k, w, v) \/ RemoveKey(k) \/ RemoveValue(k, v)
Spec == Init /\ [][Next]_vars

(***************************************************************************)
(* Properties (C19 and the multimap semantics behind C10/C11)              *)
(***************************************************************************)
NoHang == ~hung
CountExact == count = Cardinality(Entries(slots))
LayoutOk == ValidLayout(slots)            \* every stored entry can be found again
BelowMax == count <= MaxLenOf(Cap) \/ Cap = MinCap
CapBound == Cap <= MaxCap
==============================================================================
