------------------------------- MODULE HashMapTrace -------------------------------
(***************************************************************************)
(* Trace validation of the real MultiMapStorage<u64, u64> (hook H2, VMap)  *)
(* with the real minimum capacity 64 against HashMap.tla.  Every event     *)
(* carries the complete slot table after the operation.  For steps without *)
(* a rehash the table must EQUAL the model's; a rehash may lay the entries *)
(* out differently (the code rebuilds in place) but must keep exactly the  *)
(* entries, drop all tombstones, leave every entry findable and choose the *)
(* capacity the thresholds dictate.  A Hang event has no action.           *)
(***************************************************************************)
EXTENDS HashMap, Json, IOUtils

CONSTANT SlotExact   \* TRUE: mechanism level (tables must be equal); FALSE: property level (same content, findable)

Rec == ndJsonDeserialize(IOEnv.TRACE)
VARIABLE l
tvars == <<vars, l>>
E == Rec[l]
IsEvent(n) == l <= Len(Rec) /\ Rec[l].ev = n /\ l' = l + 1

Dump(d) == [i \in DOMAIN d |-> [st |-> d[i][1], k |-> d[i][2], v |-> d[i][3]]]

Conforms(r, d) ==
  /\ ~r.hung
  /\ E.len = r.count
  /\ IF SlotExact /\ Len(r.slots) = Len(slots)
     THEN d = r.slots
     ELSE /\ (SlotExact => Len(d) = Len(r.slots) /\ \A i \in DOMAIN d : d[i].st # 2)
          /\ ValidLayout(d)
          /\ LET a == ValidSeq(d)
                 b == ValidSeq(r.slots) IN
             /\ Len(a) = Len(b)
             /\ \A e \in {a[i] : i \in DOMAIN a} :
                   Cardinality({i \in DOMAIN a : a[i] = e}) = Cardinality({i \in DOMAIN b : b[i] = e})
  /\ slots' = d /\ count' = r.count /\ hung' = FALSE

TInit == Init /\ l = 1
TReset == IsEvent("Reset") /\ slots' = <<>> /\ count' = 0 /\ hung' = FALSE
TInsert == IsEvent("Insert") /\ E.ok /\ Conforms(InsertStep(slots, count, E.k, E.v), Dump(E.slots))
TInsertOrReplace == /\ IsEvent("InsertOrReplace") /\ E.ok
                    /\ Conforms(InsertOrReplaceStep(slots, count, E.k, E.old, E.v), Dump(E.slots))
                    \* returned the replaced value iff an entry <<k, old>> was found
                    /\ E.replaced = (\E i \in Entries(Grown(slots, count)) :
                                        Grown(slots, count)[i].k = E.k /\ Grown(slots, count)[i].v = E.old)
TRemoveKey == IsEvent("RemoveKey") /\ E.ok /\ Conforms(RemoveKeyStep(slots, count, E.k), Dump(E.slots))
TRemoveValue == IsEvent("RemoveValue") /\ E.ok /\ Conforms(RemoveValueStep(slots, count, E.k, E.v), Dump(E.slots))
\* a lookup returns exactly the values stored for the key (multimap semantics), in probe order
TValues == /\ IsEvent("Values") /\ E.ok /\ UNCHANGED vars
           /\ (SlotExact => E.res = Lookup(slots, E.k))
           /\ Len(E.res) = Cardinality(BagOf(slots, E.k))
           /\ \A x \in {E.res[i] : i \in DOMAIN E.res} :
                 Cardinality({i \in DOMAIN E.res : E.res[i] = x}) = Cardinality({i \in BagOf(slots, E.k) : slots[i].v = x})

TNext == TReset \/ TInsert \/ TInsertOrReplace \/ TRemoveKey \/ TRemoveValue \/ TValues
TraceSpec == TInit /\ [][TNext]_tvars

TraceAccepted ==
  LET d == TLCGet("stats").diameter IN
  IF d - 1 = Len(Rec) THEN PrintT(<<"TRACE_ACCEPTED", Len(Rec)>>)
  ELSE PrintT(<<"TRACE_REJECTED", d, Rec[d].ev>>) /\ FALSE
==============================================================================
