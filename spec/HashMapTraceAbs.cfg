SPECIFICATION TraceSpec
CONSTANTS
 Keys = {}
 Vals = {}
 MinCap = 64
 MaxCap = 100000
 ReuseTomb = TRUE
 WrapStop = TRUE
 SlotExact = FALSE
POSTCONDITION TraceAccepted
CHECK_DEADLOCK FALSE
