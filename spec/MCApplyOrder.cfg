SPECIFICATION Spec
CONSTANTS MaxLog = 4
 Executor = "queue"
INVARIANT InOrderOnce
CHECK_DEADLOCK FALSE
