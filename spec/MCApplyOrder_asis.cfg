SPECIFICATION Spec
CONSTANTS MaxLog = 4
 Executor = "task_per_entry"
INVARIANT InOrderOnce
CHECK_DEADLOCK FALSE
