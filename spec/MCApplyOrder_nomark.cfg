SPECIFICATION Spec
CONSTANTS MaxLog = 4
 MarkFailed <- NoMark
 Executor = "queue"
INVARIANT InOrderOnce
CHECK_DEADLOCK FALSE
