SPECIFICATION Spec
CONSTANTS
 Names = {"a", "b"}
 Keys = {"k", "m"}
 Vals = {1, 2}
 MaxElems = 3
 MaxSteps = 3
INVARIANT Inv
INVARIANT BadInputsRejected
INVARIANT UpsertReads
PROPERTY FreshIds
PROPERTY Cascade
CHECK_DEADLOCK FALSE
