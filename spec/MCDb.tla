------------------------------- MODULE MCDb -------------------------------
(***************************************************************************)
(* Exhaustive exploration of DbModel for small constants: every sequence   *)
(* of the mutating query forms over <= MaxElems elements, 2 alias names,   *)
(* 2 keys and 2 values.  Checks the model's own invariants (C08 C09 C10)   *)
(* and the action properties that the properties name (fresh ids, cascade, *)
(* failed query = no effect).  New ids: smallest unused magnitude (the     *)
(* implementation's slot reuse) - only to keep the state space finite.     *)
(***************************************************************************)
EXTENDS DbModel

CONSTANTS Names, Keys, Vals, MaxElems, MaxSteps

VARIABLES db, steps, last
mcvars == <<db, steps, last>>

Slots(s) == {Abs(x) : x \in Live(s)}
NextSlot(s) == CHOOSE m \in 1..(MaxElems + 1) : m \notin Slots(s) /\ \A k \in 1..(m - 1) : k \in Slots(s)
RECURSIVE NextSlots(_, _)
NextSlots(used, n) == IF n = 0 THEN <<>>
                      ELSE LET m == CHOOSE m \in 1..(2 * MaxElems + 2) : m \notin used /\ \A k \in 1..(m - 1) : k \in used
                           IN <<m>> \o NextSlots(used \cup {m}, n - 1)

PairLists == {<<>>} \cup {<<<<k, v>>>> : k \in Keys, v \in Vals}
            \cup {<<<<q[1], q[3]>>, <<q[2], q[4]>>>> : q \in {r \in Keys \X Keys \X Vals \X Vals : r[1] # r[2]}}
SmallPairLists == {<<>>} \cup {<<<<k, v>>>> : k \in Keys, v \in Vals}

QIds(s) == {<<"i", x>> : x \in Live(s) \cup {0, 9}} \cup {<<"a", a>> : a \in Names}
NodeQ(s) == {<<"i", x>> : x \in s.nodes \cup {9}} \cup {<<"a", a>> : a \in Names}

Init == db = EmptyDb /\ steps = 0 /\ last = [ev |-> "none", ok |-> TRUE]

Room(s, n) == Cardinality(Live(s)) + n <= MaxElems

\* one step: the environment issues query e; the database answers ok/fail as the model says
Do(e) == LET r == Apply(db, e) IN
         /\ steps' = steps + 1
         /\ IF r.ok THEN db' = r.s /\ last' = [ev |-> e.ev, ok |-> TRUE, e |-> e, pre |-> db]
                    ELSE db' = db /\ last' = [ev |-> e.ev, ok |-> FALSE, e |-> e, pre |-> db]

InsNodes1 == \E al \in {<<>>} \cup {<<a>> : a \in Names \cup {""}}, ps \in SmallPairLists :
               /\ Room(db, 1)
               /\ Do([ev |-> "InsertNodes", aliases |-> al, values |-> <<ps>>,
                      res |-> IF al # <<>> /\ al[1] \in DOMAIN db.alias THEN <<db.alias[al[1]]>>
                              ELSE NextSlots(Slots(db), 1)])
UpdNodes1 == \E q \in NodeQ(db) \cup {<<"i", x>> : x \in DOMAIN db.edges}, ps \in SmallPairLists,
                al \in {<<>>} \cup {<<a>> : a \in Names} :
               Do([ev |-> "UpdateNodes", ids |-> <<q>>, aliases |-> al, values |-> <<ps>>,
                   res |-> IF Resolvable(db, q) THEN <<Resolve(db, q)>> ELSE <<>>])
InsEdges1 == \E f \in NodeQ(db), t \in NodeQ(db), ps \in SmallPairLists :
               /\ Room(db, 1)
               /\ Do([ev |-> "InsertEdges", from |-> <<f>>, to |-> <<t>>, each |-> FALSE, values |-> <<ps>>,
                      res |-> <<0 - NextSlot(db)>>])
InsAlias1 == \E q \in QIds(db), a \in Names \cup {""} :
               Do([ev |-> "InsertAliases", ids |-> <<q>>, aliases |-> <<a>>])
InsVals1 == \E q \in QIds(db), ps \in SmallPairLists :
               /\ Room(db, 1)
               /\ Do([ev |-> "InsertValues", ids |-> <<q>>, values |-> <<ps>>,
                      res |-> IF Resolvable(db, q) THEN <<>> ELSE NextSlots(Slots(db), 1)])
Index1 == \E k \in Keys : Do([ev |-> "InsertIndex", key |-> k]) \/ Do([ev |-> "RemoveIndex", key |-> k])
Remove1 == \E q \in QIds(db) : Do([ev |-> "Remove", ids |-> <<q>>])
RemAlias1 == \E a \in Names : Do([ev |-> "RemoveAliases", aliases |-> <<a>>])
RemVals1 == \E q \in QIds(db), k \in Keys : Do([ev |-> "RemoveValues", ids |-> <<q>>, keys |-> <<k>>])

Next == /\ steps < MaxSteps
        /\ \/ InsNodes1 \/ UpdNodes1 \/ InsEdges1 \/ InsAlias1 \/ InsVals1 \/ Index1 \/ Remove1 \/ RemAlias1 \/ RemVals1

Spec == Init /\ [][Next]_mcvars

\* ---- properties -------------------------------------------------------------------------------
Inv == DbInv(db)

\* C08: a new element never receives an id that was in use; removing a node removes its edges
FreshIds == [][Live(db') \ Live(db) # {} => \A x \in Live(db') \ Live(db) : x \notin Live(db)]_mcvars
Cascade == [][\A n \in db.nodes \ db'.nodes :
                \A x \in DOMAIN db.edges : (db.edges[x][1] = n \/ db.edges[x][2] = n) => x \notin Live(db')]_mcvars
\* C08/C10/C11: the named bad inputs are rejected (and a rejected query has no effect by construction of Do)
BadInputsRejected ==
  /\ (last.ev = "InsertEdges" /\ last.ok) =>
        \A q \in Range(last.e.from) \cup Range(last.e.to) : Resolvable(last.pre, q) /\ Resolve(last.pre, q) \in last.pre.nodes
  /\ (last.ev = "InsertAliases" /\ last.ok) =>
        /\ \A a \in Range(last.e.aliases) : a # ""
        /\ \A q \in Range(last.e.ids) : Resolve(last.pre, q) \in last.pre.nodes
  /\ (last.ev = "InsertIndex" /\ last.ok) => last.e.key \notin last.pre.indexed
  /\ (last.ev = "InsertNodes" /\ last.ok) => \A a \in Range(last.e.aliases) : a # ""
\* C09: after inserting values the element reads exactly those pairs, other keys untouched
UpsertReads ==
  (last.ev = "UpdateNodes" /\ last.ok) =>
     LET x == Resolve(last.pre, last.e.ids[1]) IN
     /\ \A p \in Range(last.e.values[1]) : HasKey(db.kvs[x], p[1]) /\ ValueOf(db.kvs[x], p[1]) = p[2]
     /\ \A k \in Keys : (~\E p \in Range(last.e.values[1]) : p[1] = k) =>
            (HasKey(db.kvs[x], k) = HasKey(last.pre.kvs[x], k)
             /\ (HasKey(db.kvs[x], k) => ValueOf(db.kvs[x], k) = ValueOf(last.pre.kvs[x], k)))
View == <<db, steps>>
==============================================================================
