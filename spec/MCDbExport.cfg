SPECIFICATION SpecX
CONSTANTS
 Names = {"a", "b"}
 Keys = {"k", "m"}
 Vals = {1, 2}
 MaxElems = 3
 MaxSteps = 2
VIEW ViewX
ACTION_CONSTRAINT EmitX
INVARIANT Inv
CHECK_DEADLOCK FALSE
