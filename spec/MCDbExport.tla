---------------------------- MODULE MCDbExport ----------------------------
(***************************************************************************)
(* Spec -> implementation direction for the database engine (MBT).         *)
(* TLC explores MCDb with the view <<db, steps>> (one shortest history per *)
(* distinct abstract state) and prints, for EVERY transition it generates  *)
(* (every query form of the bounded vocabulary in every distinct reachable *)
(* state), the history that leads through it.  `vdb mbt` replays each      *)
(* history on the real database and DbTrace decides the replayed runs, so  *)
(* every (state, query) pair of the bounded model is executed by the real  *)
(* code at least once - a bounded-exhaustive complement of the random      *)
(* histories.                                                              *)
(***************************************************************************)
EXTENDS MCDb, TLC, Json

VARIABLE hist
xvars == <<db, steps, last, hist>>

InitX == Init /\ hist = <<>>
NextX == Next /\ hist' = Append(hist, last'.e)
SpecX == InitX /\ [][NextX]_xvars

ViewX == <<db, steps>>
\* evaluated for every generated transition (before the successor is looked up in the fingerprint set)
EmitX == PrintT(<<"MBT", ToJson(hist')>>)
==============================================================================
