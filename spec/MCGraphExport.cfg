SPECIFICATION SpecG
CONSTANTS
 Names = {"a"}
 Keys = {"k"}
 Vals = {1}
 MaxElems = 5
 MaxNodes = 2
 MaxRemoves = 1
 MaxSteps = 6
VIEW ViewG
INVARIANT EmitG
INVARIANT Inv
CHECK_DEADLOCK FALSE
