--------------------------- MODULE MCGraphExport ---------------------------
(***************************************************************************)
(* Spec -> implementation direction for the traversals (C14, C18): TLC     *)
(* enumerates every graph-construction history of the bounded model (nodes *)
(* and edges in every insertion order, self-loops, parallel edges, cycles, *)
(* removals with slot reuse) and prints one shortest history per DISTINCT  *)
(* abstract state (the state includes the per-node order of the edge       *)
(* lists).  `vdb mbt --searches` builds each graph on the real database    *)
(* and runs EVERY search of the family (each element as origin, forward    *)
(* and reverse, breadth and depth first, plus the elements search) on it;  *)
(* DbTrace decides every result against DbSearch!Traverse.                 *)
(***************************************************************************)
EXTENDS MCDb, TLC, Json

CONSTANTS MaxNodes, MaxRemoves

VARIABLES hist, removes
gvars == <<db, steps, last, hist, removes>>

InsNodeG == /\ Cardinality(db.nodes) < MaxNodes
            /\ Room(db, 1)
            /\ Do([ev |-> "InsertNodes", aliases |-> <<>>, values |-> << <<>> >>, res |-> NextSlots(Slots(db), 1)])
            /\ UNCHANGED removes
InsEdgeG == \E f \in db.nodes, t \in db.nodes :
            /\ Room(db, 1)
            /\ Do([ev |-> "InsertEdges", from |-> << <<"i", f>> >>, to |-> << <<"i", t>> >>, each |-> FALSE,
                   values |-> << <<>> >>, res |-> <<0 - NextSlot(db)>>])
            /\ UNCHANGED removes
RemoveG == \E x \in Live(db) :
            /\ removes < MaxRemoves
            /\ Do([ev |-> "Remove", ids |-> << <<"i", x>> >>])
            /\ removes' = removes + 1

InitG == Init /\ hist = <<>> /\ removes = 0
NextG == /\ steps < MaxSteps
         /\ (InsNodeG \/ InsEdgeG \/ RemoveG)
         /\ hist' = Append(hist, last'.e)
SpecG == InitG /\ [][NextG]_gvars

ViewG == <<db, removes>>
\* evaluated once per distinct state (invariants are evaluated on new states only)
EmitG == PrintT(<<"MBT", ToJson(hist)>>)
==============================================================================
