SPECIFICATION SpecG
CONSTANTS
 Names = {"a"}
 Keys = {"k"}
 Vals = {1}
 MaxElems = 7
 MaxNodes = 3
 MaxRemoves = 1
 MaxSteps = 8
VIEW ViewG
INVARIANT EmitG
INVARIANT Inv
CHECK_DEADLOCK FALSE
