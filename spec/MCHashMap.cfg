SPECIFICATION Spec
CONSTANTS
 Keys = {0, 1, 4, 5, 2}
 Vals = {1, 2}
 MinCap = 4
 MaxCap = 4
 ReuseTomb = TRUE
 WrapStop = TRUE
INVARIANT NoHang
INVARIANT CountExact
INVARIANT LayoutOk
CONSTRAINT CapBound
CHECK_DEADLOCK FALSE
