SPECIFICATION Spec
CONSTANTS
 Keys = {0, 1, 2, 4, 5, 8}
 Vals = {1, 2}
 MinCap = 4
 MaxCap = 8
 ReuseTomb = FALSE
 WrapStop = FALSE
INVARIANT NoHang
INVARIANT CountExact
INVARIANT LayoutOk
CONSTRAINT CapBound
CHECK_DEADLOCK FALSE
