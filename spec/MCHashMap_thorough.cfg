SPECIFICATION Spec
CONSTANTS
 Keys = {0, 1, 4, 8, 9}
 Vals = {1}
 MinCap = 4
 MaxCap = 8
 ReuseTomb = TRUE
 WrapStop = TRUE
INVARIANT NoHang
INVARIANT CountExact
INVARIANT LayoutOk
CONSTRAINT CapBound
CHECK_DEADLOCK FALSE
