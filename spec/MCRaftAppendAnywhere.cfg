SPECIFICATION Spec
CONSTANTS
 N = 3
 ElectionFactor = 1000
 HeartbeatTO = 1000
 TermTO = 3000
 FixVote = TRUE
 MaxTerm = 2
 MaxLog = 2
 Values = {1}
 AppendAnywhere = TRUE
 MaxTmo = 2
 MaxHb = 0
 MaxDup = 0
 MaxFlight = 3
 MaxRestart = 0
 InitMode = "elected"
VIEW View
CONSTRAINT Constraint
INVARIANT ElectionSafety
INVARIANT CommitAgreement
INVARIANT CommitStable
INVARIANT CommitMonotone
INVARIANT LeaderCompleteness
CHECK_DEADLOCK FALSE
