SPECIFICATION SpecOffset
CONSTANTS
 CandidateYields <- NoYield
 N = 2
 ElectionFactor = 1000
 HeartbeatTO = 1000
 TermTO = 3000
 FixVote = TRUE
 TickMs = 250
 Deadline = 14000
 Horizon = 16000
 Settle = 1500
 MaxLog = 0
 AppendUntil = 0
INVARIANT HealthyProgress
INVARIANT OneLeaderAtATime
CHECK_DEADLOCK FALSE
