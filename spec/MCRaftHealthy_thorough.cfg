SPECIFICATION Spec
CONSTANTS
 N = 3
 ElectionFactor = 1000
 HeartbeatTO = 1000
 TermTO = 3000
 FixVote = TRUE
 TickMs = 500
 Deadline = 1000
 Horizon = 6000
 Settle = 1500
 MaxLog = 1
 AppendUntil = 3000
INVARIANT HealthyProgress
INVARIANT OneLeaderAtATime
INVARIANT CommitAgreement
CHECK_DEADLOCK FALSE
