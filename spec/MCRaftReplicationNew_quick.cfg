SPECIFICATION Spec
CONSTANTS
 N = 3
 ElectionFactor = 1000
 HeartbeatTO = 1000
 TermTO = 3000
 FixVote = TRUE
 MaxTerm = 2
 MaxLog = 2
 Values = {1}
 AppendAnywhere = FALSE
 MaxTmo = 1
 MaxHb = 0
 MaxDup = 0
 MaxFlight = 2
 MaxRestart = 0
 InitMode = "elected"
VIEW View
CONSTRAINT Constraint
INVARIANT ElectionSafety
INVARIANT CommitAgreementNew
INVARIANT CommitStableNew
INVARIANT CommitMonotoneNew
INVARIANT LeaderCompletenessNew
CHECK_DEADLOCK FALSE
