SPECIFICATION Spec
CONSTANTS
 N = 3
 ElectionFactor = 1000
 HeartbeatTO = 1000
 TermTO = 3000
 FixVote = TRUE
 MaxTerm = 2
 MaxLog = 0
 Values = {1}
 AppendAnywhere = FALSE
 MaxTmo = 3
 MaxHb = 1
 MaxDup = 0
 MaxFlight = 3
 MaxRestart = 1
 InitMode = "cold"
VIEW View
CONSTRAINT Constraint
INVARIANT ElectionSafety
CHECK_DEADLOCK FALSE
