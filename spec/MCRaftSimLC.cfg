SPECIFICATION Spec
CONSTANTS
 N = 3
 ElectionFactor = 1000
 HeartbeatTO = 1000
 TermTO = 3000
 FixVote = TRUE
 MaxTerm = 3
 MaxLog = 3
 Values = {1}
 AppendAnywhere = FALSE
 MaxTmo = 6
 MaxHb = 3
 MaxDup = 0
 MaxFlight = 6
 MaxRestart = 0
 InitMode = "elected"
CONSTRAINT Constraint
INVARIANT LeaderCompleteness
CHECK_DEADLOCK FALSE
