SPECIFICATION Spec
CONSTANTS
 N = 3
 ElectionFactor = 1000
 HeartbeatTO = 1000
 TermTO = 3000
 FixVote = TRUE
 MaxTerm = 2
 MaxLog = 2
 Values = {1}
 AppendAnywhere = FALSE
 MaxTmo = 2
 MaxHb = 0
 MaxDup = 0
 MaxFlight = 3
 MaxRestart = 0
 InitMode = "elected"
VIEW View
CONSTRAINT Constraint
CHECK_DEADLOCK FALSE
INVARIANT CommitMonotone
