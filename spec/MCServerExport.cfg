SPECIFICATION SpecM
CONSTANTS
 Focus = "auth"
 Strict = FALSE
 MUsers = {"alice", "bob"}
 MNames = {"x"}
 MTargets = {"y"}
 MaxSteps = 4
VIEW ViewM
ACTION_CONSTRAINT EmitM
PROPERTY EffectAgrees
CHECK_DEADLOCK FALSE
