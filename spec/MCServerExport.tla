---------------------------- MODULE MCServerExport ----------------------------
(***************************************************************************)
(* Spec -> implementation direction for the server (C24): a bounded,       *)
(* constructive version of ServerTrace's state machine - the SAME          *)
(* Permitted table, constructive effects for the operations that change    *)
(* users' permissions (databases added / deleted / copied / renamed, roles *)
(* granted / changed / removed) - explored by TLC with the view            *)
(* <<databases, roles>>.  TLC prints one shortest request history through  *)
(* EVERY transition: every request form of the bounded vocabulary (every   *)
(* caller incl. the server admin and a caller without session, every       *)
(* role-gated operation, on every database key) in every distinct          *)
(* reachable permission state.  lib/servermbt.py replays each history on a *)
(* real server and ServerTrace decides the replayed runs, so every cell of *)
(* the permission matrix is exercised in every reachable configuration of  *)
(* owners and roles (bounded), not only the ones random traffic reaches.   *)
(*                                                                         *)
(* The prediction "performed / rejected" made here only steers the         *)
(* exploration (which states are reached); the verdict on the real server  *)
(* is ServerTrace's, on the real status codes and observations.            *)
(***************************************************************************)
EXTENDS ServerTrace

CONSTANTS MUsers,     \* ordinary users (all exist and have one live session each)
          MNames,     \* database names that db_add may use
          MTargets,   \* names copy / rename may create
          MaxSteps

VARIABLES steps, hist
xvars == <<l, users, tokens, dbs, roles, bk, ghost, files, pend, steps, hist>>

Tok(u) == "t_" \o u
Sessions == MUsers \cup {"admin"}
Callers == Sessions \cup {"nobody"}
RoleSet == {"read", "write", "admin"}
FreshDb == [kind |-> "memory", nodes |-> 0, edges |-> 0, aliases |-> {}, audit |-> <<>>, backup |-> FALSE]

InitM == /\ l = 1 /\ users = MUsers
         /\ tokens = [t \in {Tok(u) : u \in Sessions} |-> CHOOSE u \in Sessions : Tok(u) = t]
         /\ dbs = EmptyF /\ roles = EmptyF /\ bk = EmptyF /\ ghost = {} /\ files = {} /\ pend = None
         /\ steps = 0 /\ hist = <<>>

Req(op, c, o, d) == [op |-> op, caller |-> c, owner |-> o, db |-> d, user |-> "", role |-> "", admin_api |-> FALSE,
                     new_db |-> "", new_owner |-> "", kind |-> "memory", resource |-> "db",
                     batch |-> IF op = "exec_mut" THEN << <<"insert", 1>> >> ELSE << <<"count">> >>,
                     expect |-> FALSE]   \* filled in by Issue: does the model expect the server to perform the request

\* keys a request may name: every existing database, and every key db_add could create
Keys == DOMAIN dbs \cup (MUsers \X MNames)

SimpleOps == {"db_add", "db_delete", "exec", "exec_mut", "optimize", "clear", "backup", "convert", "audit", "db_user_list"}
Requests ==
  UNION {
    {Req(op, c, k[1], k[2]) : op \in SimpleOps, c \in Callers, k \in Keys},
    {[Req("db_user_add", c, k[1], k[2]) EXCEPT !.user = t, !.role = r] : c \in Callers, k \in DOMAIN dbs, t \in MUsers, r \in RoleSet},
    {[Req("db_user_remove", c, k[1], k[2]) EXCEPT !.user = t] : c \in Callers, k \in DOMAIN dbs, t \in MUsers},
    {[Req(op, c, k[1], k[2]) EXCEPT !.new_db = n] : op \in {"copy", "rename"}, c \in Callers, k \in DOMAIN dbs, n \in MTargets}
  }

\* does the model expect the server to perform e for user u (precondition part of ServerTrace!Effect, made explicit)
Pre(e, u) ==
  LET k == Key(e) IN
  CASE e.op = "db_add" -> k \notin DOMAIN dbs
    [] e.op = "db_user_add" -> k \in DOMAIN dbs /\ e.user # e.owner
    [] e.op = "db_user_remove" -> k \in DOMAIN dbs /\ e.user # e.owner
    [] e.op = "copy" -> k \in DOMAIN dbs /\ <<u, e.new_db>> \notin DOMAIN dbs
    [] e.op = "rename" -> k \in DOMAIN dbs /\ <<e.owner, e.new_db>> \notin DOMAIN dbs
    [] OTHER -> k \in DOMAIN dbs
Performed(e, u) == u # "nobody" /\ Permitted(e, u) /\ Pre(e, u)

\* constructive effect on <<dbs, roles>> of a performed request
DbsAfter(e, u) ==
  LET k == Key(e) IN
  CASE e.op = "db_add" -> (k :> FreshDb) @@ dbs
    [] e.op = "db_delete" -> Drop(dbs, {k})
    [] e.op = "exec_mut" -> LET r == BatchEval(Content(dbs[k]), e.batch, 1, <<>>) IN
                            [dbs EXCEPT ![k] = [WithContent(@, r.c) EXCEPT !.audit = @ \o AuditOf(u, e.batch)]]
    [] e.op = "clear" -> [dbs EXCEPT ![k].nodes = 0, ![k].edges = 0, ![k].aliases = {}]
    [] e.op = "backup" -> [dbs EXCEPT ![k].backup = TRUE]
    [] e.op = "copy" -> (<<u, e.new_db>> :> [dbs[k] EXCEPT !.audit = <<>>, !.backup = FALSE]) @@ dbs
    [] e.op = "rename" -> (<<e.owner, e.new_db>> :> dbs[k]) @@ Drop(dbs, {k})
    [] OTHER -> dbs
RolesAfter(e, u) ==
  LET k == Key(e) IN
  CASE e.op = "db_delete" -> Drop(roles, {x \in DOMAIN roles : <<x[2], x[3]>> = k})
    [] e.op = "db_user_add" -> (<<e.user, e.owner, e.db>> :> e.role) @@ roles
    [] e.op = "db_user_remove" -> Drop(roles, {<<e.user, e.owner, e.db>>})
    [] e.op = "rename" ->
         LET moved == {x \in DOMAIN roles : <<x[2], x[3]>> = k} IN
         [y \in {<<x[1], e.owner, e.new_db>> : x \in moved} |-> roles[<<y[1], k[1], k[2]>>]] @@ Drop(roles, moved)
    [] OTHER -> roles

Issue(e) ==
  LET u == e.caller IN
  /\ steps' = steps + 1
  /\ hist' = Append(hist, [e EXCEPT !.expect = Performed(e, u)])
  /\ IF Performed(e, u) THEN dbs' = DbsAfter(e, u) /\ roles' = RolesAfter(e, u)
                        ELSE dbs' = dbs /\ roles' = roles
  /\ UNCHANGED <<l, users, tokens, bk, ghost, files, pend>>

NextM == steps < MaxSteps /\ \E e \in Requests : Issue(e)
SpecM == InitM /\ [][NextM]_xvars

ViewM == <<DOMAIN dbs, roles>>
EmitM == PrintT(<<"MBT", ToJson(hist')>>)

\* sanity of this module against the trace specification it shares its rules with: a request the model performs satisfies
\* ServerTrace!Effect (frame level, Strict = FALSE) with the constructive successor
EffectAgrees ==
  [][LET e == hist'[Len(hist')] IN e.expect => Effect(e, e.caller, users, dbs', roles')]_xvars
==============================================================================
