SPECIFICATION Spec
CONSTANTS Readers = {1, 2, 3}
 Positions = {10, 20}
 LockCoversRead = TRUE
INVARIANT ReadsOwnPosition
INVARIANT SharedHandleExclusive
CHECK_DEADLOCK FALSE
