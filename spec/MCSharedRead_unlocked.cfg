SPECIFICATION Spec
CONSTANTS Readers = {1, 2, 3}
 Positions = {10, 20}
 LockCoversRead = FALSE
INVARIANT ReadsOwnPosition
INVARIANT SharedHandleExclusive
CHECK_DEADLOCK FALSE
