SPECIFICATION Spec
CONSTANTS Sizes = {0, 1, 2, 3}
 MaxLive = 3
 MaxOps = 5
 MaxFile = 40
INVARIANT Tiling
INVARIANT TableMatchesDisk
INVARIANT ValuesIntact
INVARIANT Tight
CHECK_DEADLOCK FALSE
