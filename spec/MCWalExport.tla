------------------------------ MODULE MCWalExport ------------------------------
(* Exports every reachable disk image of the bounded model with the content the model says
   recovery yields (one JSON line per state; the consumer de-duplicates). *)
EXTENDS WalStorage, Json
MCInitData == {<<>>, <<1>>, <<1, 2>>}
ExportImg == PrintT(<<"IMG", ToJson([d |-> data, w |-> walfile, r |-> Recovered])>>)
================================================================================
