SPECIFICATION Spec
CONSTANTS
 Byte = {7, 8}
 InitData <- MCInitData
 MaxLen = 4
 MaxOps = 2
 MaxDepth = 1
 MaxCrash = 0
 ReplayOrder = "forward"
 SkipEmptyWrite = FALSE
 GrowLogsOldLen = FALSE
 AllowStraddle = TRUE
 TornData = TRUE
INVARIANT ExportImg
CHECK_DEADLOCK FALSE
