SPECIFICATION Spec
CONSTANTS
 Byte = {7, 8}
 InitData <- MCInitData
 MaxLen = 4
 MaxOps = 3
 MaxDepth = 2
 MaxCrash = 1
 ReplayOrder = "reverse"
 SkipEmptyWrite = TRUE
 GrowLogsOldLen = TRUE
 AllowStraddle = TRUE
 TornData = TRUE
INVARIANT RecoverOK
INVARIANT IdleClean
CHECK_DEADLOCK FALSE
