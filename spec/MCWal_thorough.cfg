SPECIFICATION Spec
CONSTANTS
 Byte = {7, 8}
 InitData <- MCInitData
 MaxLen = 5
 MaxOps = 4
 MaxDepth = 2
 MaxCrash = 2
 ReplayOrder = "reverse"
 SkipEmptyWrite = TRUE
 GrowLogsOldLen = TRUE
 AllowStraddle = FALSE
 TornData = TRUE
INVARIANT RecoverOK
INVARIANT IdleClean
CHECK_DEADLOCK FALSE
