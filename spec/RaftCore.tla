------------------------------ MODULE RaftCore ------------------------------
(***************************************************************************)
(* agdb_server/src/raft.rs transcribed handler by handler as PURE          *)
(* operators over one node's state (functional style, like DbModel):       *)
(*                                                                         *)
(*   OnRequest(ns, r, now)        = Cluster::request                       *)
(*   OnResponse(ns, r, p, now)    = Cluster::response                      *)
(*   ProcBranch / DoHeartbeat / DoPreElection / DoTermTimeout = process()  *)
(*   ClientAppend(ns, v)          = Cluster::append                        *)
(*   Restart(ns)                  = Cluster::new over the persisted log    *)
(*                                                                         *)
(* plus the log store with the semantics of ClusterStorage / ClusterLog    *)
(* (cluster.rs, cluster_log.rs): append removes the UNCOMMITTED records    *)
(* with index >= the appended index, commit marks the uncommitted records  *)
(* up to an index, logs(from) returns the last (count - from) records.     *)
(*                                                                         *)
(* The wrappers decide what a message pool and time are:                   *)
(*   AgdbRaft.tla        free timers, lossy/duplicating network  (C27-C29) *)
(*   AgdbRaftHealthy.tla global clock, reliable network          (C30)     *)
(*   RaftTrace.tla       events recorded from the real raft.rs   (binding) *)
(*                                                                         *)
(* Deliberately faithful, defects included (the module header of           *)
(* AgdbRaft.tla lists them). FixVote switches the one-line repair of D12.  *)
(***************************************************************************)
EXTENDS Naturals, Sequences, FiniteSets, TLC

CONSTANTS N,               \* cluster size
          ElectionFactor,  \* election_factor_ms
          HeartbeatTO,     \* heartbeat_timeout (ms)
          TermTO,          \* term_timeout (ms)
          FixVote          \* TRUE: a granted vote raises the voter's term (repair of D12)

Node == 0..(N - 1)
Peers(n) == Node \ {n}
Quorum == N \div 2

NoView == [li |-> 0, lt |-> 0, lc |-> 0]
FirstET(n) == ElectionFactor * n

\* ---- node state -------------------------------------------------------------------------
\* id     node index
\* st,sa  ClusterState: "Election" | "Candidate" | "Follower"(sa = leader) | "Leader" | "Voted"(sa = term)
\* term   Cluster::term
\* voted  {p : nodes[p].voted}
\* view   nodes[p].(log_index, log_term, log_commit); view[id] is local()
\* timer  nodes[p].timer (virtual ms);  et = election_timeout currently in force
\* log    the stored records in insertion order: [idx, term, val, com]
\* (ClusterStorage's cached index / term / commit are only read by Cluster::new; Restart recomputes them)
InitNode(n) ==
  [id |-> n, st |-> IF N = 1 THEN "Leader" ELSE "Election", sa |-> 0, term |-> IF N = 1 THEN 1 ELSE 0,
   voted |-> {n}, view |-> [p \in Node |-> NoView], timer |-> [p \in Node |-> 0], et |-> FirstET(n),
   log |-> <<>>]

Local(ns) == ns.view[ns.id]
SetLocal(ns, v) == [ns EXCEPT !.view[ns.id] = v]

\* ---- log store (ClusterStorage) -----------------------------------------------------------
StAppend(ns, e) ==
  LET kept == SelectSeq(ns.log, LAMBDA r : r.com \/ r.idx < e.idx) IN
  [ns EXCEPT !.log = Append(kept, [idx |-> e.idx, term |-> e.term, val |-> e.val, com |-> FALSE])]

Uncommitted(ns, index) == {i \in DOMAIN ns.log : ~ns.log[i].com /\ ns.log[i].idx <= index}
\* (sequences are rebuilt with \o, never with a function constructor: TLC keeps those lazy and re-evaluates
\*  the nested constructors of earlier steps at every access - exponential over a batch of entries)
RECURSIVE MarkCommitted(_, _)
MarkCommitted(log, index) ==
  IF log = <<>> THEN <<>>
  ELSE <<IF ~Head(log).com /\ Head(log).idx <= index THEN [Head(log) EXCEPT !.com = TRUE] ELSE Head(log)>>
       \o MarkCommitted(Tail(log), index)
StCommit(ns, index) ==
  IF Uncommitted(ns, index) = {} THEN ns ELSE [ns EXCEPT !.log = MarkCommitted(ns.log, index)]

Entry(r) == [idx |-> r.idx, term |-> r.term, val |-> r.val]
RECURSIVE EntriesOf(_)
EntriesOf(log) == IF log = <<>> THEN <<>> ELSE <<Entry(Head(log))>> \o EntriesOf(Tail(log))
StLogs(ns, from) ==
  LET cnt == Len(ns.log) IN
  IF from >= cnt THEN <<>> ELSE EntriesOf(SubSeq(ns.log, from + 1, cnt))

\* raft.rs helpers over the store
AppendStorage(ns, e) == LET s == StAppend(ns, e) IN SetLocal(s, [Local(s) EXCEPT !.li = e.idx, !.lt = e.term])
CommitStorage(ns, index) == LET s == StCommit(ns, index) IN SetLocal(s, [Local(s) EXCEPT !.lc = index])

\* ---- messages -----------------------------------------------------------------------------
\* request : [ty, from, to, term, li, lt, lc, es]      es = Seq([idx, term, val])
\* response: [res, v]   v = local term (TermMismatch) | local commit (LogMismatch) | 0
MkReq(ns, ty, to, term, es) ==
  [ty |-> ty, from |-> ns.id, to |-> to, term |-> term,
   li |-> Local(ns).li, lt |-> Local(ns).lt, lc |-> Local(ns).lc, es |-> es]
ToAll(ns, ty, term, es) == {MkReq(ns, ty, p, term, es) : p \in Peers(ns.id)}
Rsp(res, v) == [res |-> res, v |-> v]
Out(ns, reqs) == [ns |-> ns, out |-> reqs]
Ans(ns, rsp) == [ns |-> ns, rsp |-> rsp]

\* ---- Cluster::append (client request at this node) ------------------------------------------
ClientAppend(ns, v) ==
  LET l1 == [Local(ns) EXCEPT !.li = @ + 1, !.lt = ns.term]
      s1 == SetLocal(ns, l1)
      e  == [idx |-> l1.li, term |-> ns.term, val |-> v]
      rq == ToAll(s1, "Append", ns.term, <<e>>)
      s2 == StAppend(s1, e)
      s3 == IF N = 1 THEN CommitStorage(s2, l1.li) ELSE s2
  IN Out(s3, rq)

\* ---- Cluster::process ------------------------------------------------------------------------
Elapsed(ns, p, now) == IF now >= ns.timer[p] THEN now - ns.timer[p] ELSE 0
HbTargets(ns, now) == {p \in Peers(ns.id) : Elapsed(ns, p, now) > HeartbeatTO}
\* which branch process() takes at time `now`
ProcBranch(ns, now) ==
  IF ns.st = "Leader" THEN (IF HbTargets(ns, now) = {} THEN "None" ELSE "Heartbeat")
  ELSE IF ns.st = "Election" /\ Elapsed(ns, ns.id, now) >= ns.et THEN "PreElection"
  ELSE IF Elapsed(ns, ns.id, now) > TermTO THEN "TermTimeout"
  ELSE "None"

DoHeartbeat(ns, targets, now) ==
  Out([ns EXCEPT !.timer = [p \in Node |-> IF p \in targets THEN now ELSE @[p]]],
      {MkReq(ns, "Heartbeat", p, ns.term, <<>>) : p \in targets})

DoPreElection(ns, now) ==     \* pre_election(): term + 1 in the request only
  LET s == [ns EXCEPT !.voted = {ns.id}, !.timer[ns.id] = now, !.et = HeartbeatTO]
  IN Out(s, ToAll(ns, "PreVote", ns.term + 1, <<>>))

DoTermTimeout(ns, now) ==
  [ns EXCEPT !.st = "Election", !.sa = 0, !.timer[ns.id] = now, !.et = FirstET(ns.id)]

\* ---- Cluster::request ------------------------------------------------------------------------
LogBehind(ns, r) == Local(ns).li > r.li \/ Local(ns).lt > r.lt \/ Local(ns).lc > r.lc
LogMismatchRsp(ns) == Rsp("LogMismatch", Local(ns).lc)

PreVoteRequest(ns, r, now) ==
  IF ns.st = "Leader" THEN Ans(ns, Rsp("LeaderMismatch", 0))
  ELSE IF ns.st = "Follower" /\ Elapsed(ns, ns.id, now) <= TermTO THEN Ans(ns, Rsp("LeaderMismatch", 0))
  ELSE IF LogBehind(ns, r) THEN Ans(ns, LogMismatchRsp(ns))
  ELSE Ans(ns, Rsp("Ok", 0))

\* A candidate that is asked for its vote in a NEWER term gives its own candidacy up and considers the request like a node
\* in Election state (repair of D24: in a cluster of two, two nodes whose terms differ by one refused each other for ever -
\* the one behind as a Candidate answered LeaderMismatch, the one ahead answered TermMismatch). FALSE = the code before it.
CandidateYields == TRUE

VoteRequest(ns0, r) ==
  LET ns == IF CandidateYields /\ ns0.st = "Candidate" /\ r.term > ns0.term THEN [ns0 EXCEPT !.st = "Election"] ELSE ns0 IN
  IF ns.st \in {"Leader", "Candidate", "Follower"} THEN Ans(ns, Rsp("LeaderMismatch", 0))
  ELSE IF ns.st = "Voted" /\ r.term <= ns.sa THEN Ans(ns, Rsp("AlreadyVoted", 0))
  ELSE IF ns.term >= r.term THEN Ans(ns, Rsp("TermMismatch", ns.term))
  ELSE IF LogBehind(ns, r) THEN Ans(ns, LogMismatchRsp(ns))
  ELSE Ans([ns EXCEPT !.st = "Voted", !.sa = r.term, !.term = IF FixVote THEN r.term ELSE @], Rsp("Ok", 0))

BecomeFollower(ns, r) ==     \* callers have validated ns.term <= r.term
  [ns EXCEPT !.term = r.term, !.st = "Follower", !.sa = r.from]
UpdateNode(ns, r) == [ns EXCEPT !.view[r.from] = [li |-> r.li, lt |-> r.lt, lc |-> r.lc]]

HeartbeatRequest(ns, r) ==
  IF ns.term > r.term THEN Ans(ns, Rsp("TermMismatch", ns.term))
  ELSE LET s1 == BecomeFollower(ns, r) IN
       IF Local(s1).li # r.li \/ Local(s1).lt # r.lt THEN Ans(s1, LogMismatchRsp(s1))
       ELSE LET s2 == UpdateNode(s1, r)
                s3 == IF Local(s2).lc < r.lc THEN CommitStorage(s2, r.lc) ELSE s2
            IN Ans(s3, Rsp("Ok", 0))

\* validate_log_append: "app" | "skip" | "err"
AppendVerdict(ns, e) ==
  LET l == Local(ns) IN
  IF l.lt = e.term
  THEN IF l.li >= e.idx THEN "skip"
       ELSE IF l.lc < e.idx /\ l.li + 1 = e.idx THEN "app" ELSE "err"
  ELSE IF l.lt < e.term /\ l.lc < e.idx /\ l.li + 1 >= e.idx THEN "app" ELSE "err"

RECURSIVE AppendEntries(_, _, _)
AppendEntries(ns, r, es) ==
  IF es = <<>> THEN Ans(ns, Rsp("Ok", 0))
  ELSE LET e == Head(es)
           v == AppendVerdict(ns, e) IN
       IF v = "err" THEN Ans(ns, LogMismatchRsp(ns))     \* what was applied so far stays
       \* TLCEval: TLC evaluates LET definitions lazily and would re-evaluate the whole chain of earlier
       \* entries at every use (exponential in the length of the batch)
       ELSE LET s1 == TLCEval(IF v = "app" THEN AppendStorage(ns, e) ELSE ns)
                s2 == TLCEval(IF e.idx <= r.lc /\ Local(s1).lc < e.idx THEN CommitStorage(s1, e.idx) ELSE s1)
            IN AppendEntries(s2, r, Tail(es))

AppendRequest(ns, r) ==
  IF ns.term > r.term THEN Ans(ns, Rsp("TermMismatch", ns.term))
  ELSE AppendEntries(UpdateNode(BecomeFollower(ns, r), r), r, r.es)

OnRequest(ns, r, now) ==
  LET a == CASE r.ty = "Append" -> AppendRequest(ns, r)
             [] r.ty = "Heartbeat" -> HeartbeatRequest(ns, r)
             [] r.ty = "PreVote" -> PreVoteRequest(ns, r, now)
             [] r.ty = "Vote" -> VoteRequest(ns, r)
  IN IF r.ty = "PreVote" THEN a ELSE Ans([a.ns EXCEPT !.timer[ns.id] = now], a.rsp)

\* ---- Cluster::response -------------------------------------------------------------------------
HeartbeatNoTimer(ns, now) ==
  Out([ns EXCEPT !.timer = [p \in Node |-> IF p = ns.id THEN @[p] ELSE now]], ToAll(ns, "Heartbeat", ns.term, <<>>))

PreVoteReceived(ns, r, now) ==
  LET v == ns.voted \cup {r.to} IN
  IF Cardinality(v) > Quorum
  THEN \* election(): own term + 1, Candidate, votes forgotten, Vote to all
       LET s == [ns EXCEPT !.timer[ns.id] = now, !.term = @ + 1, !.st = "Candidate", !.sa = 0, !.voted = {ns.id}]
       IN Out(s, ToAll(s, "Vote", s.term, <<>>))
  ELSE Out([ns EXCEPT !.voted = v], {})

VoteReceived(ns, r, now) ==
  LET v == ns.voted \cup {r.to} IN
  IF Cardinality(v) > Quorum
  THEN HeartbeatNoTimer([ns EXCEPT !.voted = v, !.st = "Leader", !.sa = 0, !.term = r.term], now)
  ELSE Out([ns EXCEPT !.voted = v], {})

\* commit(): the peer is believed to hold what the REQUEST said the leader had
LeaderCommit(ns, r, now) ==
  LET s1 == [ns EXCEPT !.view[r.to] = [li |-> r.li, lt |-> r.lt, lc |-> r.lc]] IN
  IF Local(s1).lc < r.li /\ Cardinality({p \in Node : s1.view[p].li >= r.li}) >= Quorum + 1
  THEN HeartbeatNoTimer(CommitStorage(s1, r.li), now)
  ELSE Out(s1, {})

Reconcile(ns, r, p, now) ==
  LET s == [ns EXCEPT !.timer[r.to] = now] IN
  Out(s, {MkReq(s, "Append", r.to, s.term, StLogs(s, p.v))})

OnResponse(ns, r, p, now) ==
  IF ns.st = "Election" /\ r.ty = "PreVote" /\ p.res = "Ok" THEN PreVoteReceived(ns, r, now)
  ELSE IF ns.st = "Candidate" /\ r.ty = "Vote" /\ p.res = "Ok" THEN VoteReceived(ns, r, now)
  ELSE IF ns.st = "Leader" /\ r.ty \in {"Heartbeat", "Append"} /\ p.res = "Ok" THEN LeaderCommit(ns, r, now)
  ELSE IF ns.st = "Leader" /\ r.ty \in {"Heartbeat", "Append"} /\ p.res = "LogMismatch" THEN Reconcile(ns, r, p, now)
  ELSE IF p.res = "TermMismatch" /\ p.v > ns.term
       THEN Out([ns EXCEPT !.term = p.v, !.st = "Election", !.sa = 0, !.timer[ns.id] = now, !.et = FirstET(ns.id)], {})
  ELSE Out(ns, {})

\* ---- restart: Cluster::new over the persisted log ---------------------------------------------------
\* ClusterStorage::new reads (index, term) of the newest stored record and, as commit, the index of the
\* newest stored record that is marked committed (ClusterLog::cluster_log)
MaxOf(S) == CHOOSE x \in S : \A y \in S : y <= x
PersistedView(log) ==
  LET C == {i \in DOMAIN log : log[i].com} IN
  [li |-> IF log = <<>> THEN 0 ELSE log[Len(log)].idx,
   lt |-> IF log = <<>> THEN 0 ELSE log[Len(log)].term,
   lc |-> IF C = {} THEN 0 ELSE log[MaxOf(C)].idx]
Restart(ns, now) ==
  LET pv == PersistedView(ns.log) IN
  [InitNode(ns.id) EXCEPT !.log = ns.log, !.term = IF N = 1 THEN 1 ELSE pv.lt, !.view[ns.id] = pv,
                          !.timer = [p \in Node |-> now]]

\* ---- derived, for the properties ---------------------------------------------------------------
Committed(ns) == {Entry(ns.log[i]) : i \in {j \in DOMAIN ns.log : ns.log[j].com}}
Stored(ns) == {Entry(ns.log[i]) : i \in DOMAIN ns.log}

\* History carried by every wrapper (nodes = the function Node -> node state, before and after a step):
\*   leaders     {<<n, t>>} : n has been in state Leader with term t                                    (C27)
\*   ec[n]       entries ever marked committed at n;  mlc[n] = highest commit index n ever reported     (C28)
\*   lcommitted  entries a node committed while it was Leader (= the write was acknowledged)            (C29)
\*   missing     {<<n, e>>} : n became Leader while its log lacked the leader-committed entry e         (C29)
\*   trig        known-defect triggers seen so far (see the operators below); a property violation in a behaviour
\*               whose trigger set is empty is NOT explained by a listed finding
\*   taint       entries a listed defect can make disagree: entries a leader committed by the D13 rule without a real
\*               majority (or of an older term), and the entries below the one a follower accepted without previous-entry
\*               check (D13b); taint travels with the entry wherever it is replicated
\*   lcx         a later leader lacked a leader-committed entry while a trigger had been seen (everything after that is
\*               a consequence of the listed defect)
InitHist == [leaders |-> {<<n, InitNode(n).term>> : n \in {m \in Node : InitNode(m).st = "Leader"}},
             ec |-> [n \in Node |-> {}], mlc |-> [n \in Node |-> 0], lcommitted |-> {}, missing |-> {}, trig |-> {},
             taint |-> {}, lcx |-> FALSE]

\* D13b (no previous-entry check): a follower stored the entry e received from a leader although the entry
\* before e in the follower's log is not the entry before e in the log of a node that also holds e
EntriesAt(ns, i) == {x \in Stored(ns) : x.idx = i}
LastRec(ns) == ns.log[Len(ns.log)]
PrevEntryMismatchAt(n, old, new) ==
    /\ new[n].st = "Follower" /\ new[n].log # old[n].log /\ new[n].log # <<>>
    /\ LET e == LastRec(new[n]) IN
       /\ ~e.com /\ e.idx > 1 /\ Entry(e) \notin Stored(old[n])
       \* the follower HOLDS an entry before e and it is a different one (an entry stored over a GAP is not this defect:
       \* every branch of validate_log_append checks adjacency)
       /\ EntriesAt(new[n], e.idx - 1) # {}
       /\ \E m \in Node \ {n} : Entry(e) \in Stored(new[m]) /\ EntriesAt(new[m], e.idx - 1) # EntriesAt(new[n], e.idx - 1)
PrevEntryMismatch(old, new) == \E n \in Node : PrevEntryMismatchAt(n, old, new)
PrevTainted(old, new) ==
  UNION {IF PrevEntryMismatchAt(n, old, new) THEN {x \in Stored(new[n]) : x.idx < LastRec(new[n]).idx} ELSE {} : n \in Node}
\* D13 (commit rule): a leader whose per-peer view counts a proper majority at an index (the arithmetic is right)
\* marks an entry committed that is in fact stored on fewer nodes - it believed a peer held what its own REQUEST
\* carried - or marks an entry of an older term than its own
CommitWithoutMajority(old, new) ==
  \E n \in Node :
    /\ old[n].st = "Leader"
    /\ \E e \in Committed(new[n]) \ Committed(old[n]) :
         /\ Cardinality({p \in Node : new[n].view[p].li >= e.idx}) >= Quorum + 1
         /\ \/ Cardinality({m \in Node : e \in Stored(new[m])}) < Quorum + 1
            \/ e.term < new[n].term
BadCommitted(old, new) ==
  UNION {{e \in Committed(new[n]) \ Committed(old[n]) :
            /\ Cardinality({p \in Node : new[n].view[p].li >= e.idx}) >= Quorum + 1
            /\ \/ Cardinality({m \in Node : e \in Stored(new[m])}) < Quorum + 1
               \/ e.term < new[n].term} : n \in {m \in Node : old[m].st = "Leader"}}
\* D13c (check-then-act): Cluster::append ran on a node that is not the leader
AppendAtNonLeader(old, new) ==
  \E n \in Node : old[n].st # "Leader" /\ Local(new[n]).li = Local(old[n]).li + 1 /\ new[n].st = old[n].st
                   /\ new[n].log # old[n].log /\ new[n].log # <<>> /\ LastRec(new[n]).term = old[n].term
                   /\ Local(new[n]).lt = old[n].term /\ new[n].view = [old[n].view EXCEPT ![n] = Local(new[n])]
                   /\ new[n].term = old[n].term /\ new[n].timer = old[n].timer
Triggers(old, new) ==
  (IF PrevEntryMismatch(old, new) THEN {"D13b-no-previous-entry-check"} ELSE {})
  \cup (IF CommitWithoutMajority(old, new) THEN {"D13-commit-rule"} ELSE {})
Max2(a, b) == IF a > b THEN a ELSE b
HistNext(h, old, new) ==
  LET lc2 == h.lcommitted \cup UNION {Committed(new[n]) \ Committed(old[n]) : n \in {m \in Node : old[m].st = "Leader"}} IN
  [leaders |-> h.leaders \cup {<<n, new[n].term>> : n \in {m \in Node : new[m].st = "Leader"}},
   ec |-> [n \in Node |-> h.ec[n] \cup Committed(new[n])],
   mlc |-> [n \in Node |-> Max2(h.mlc[n], Local(new[n]).lc)],
   lcommitted |-> lc2,
   trig |-> h.trig \cup Triggers(old, new),
   taint |-> h.taint \cup BadCommitted(old, new) \cup PrevTainted(old, new),
   lcx |-> h.lcx \/ (h.trig \cup Triggers(old, new) # {}
                      /\ \E p \in {m \in Node : old[m].st # "Leader" /\ new[m].st = "Leader"} \X h.lcommitted :
                            p[2] \notin Stored(new[p[1]])),
   missing |-> h.missing \cup {p \in {m \in Node : old[m].st # "Leader" /\ new[m].st = "Leader"} \X h.lcommitted :
                                 p[2] \notin Stored(new[p[1]])}]

\* C27  at most one leader per term
ElectionSafetyP(h) == \A a, b \in h.leaders : a[2] = b[2] => a[1] = b[1]
\* C28  no two nodes (nor one node twice) commit different entries at one index
CommitAgreementP(nodes) ==
  \A a, b \in Node : \A x \in Committed(nodes[a]), y \in Committed(nodes[b]) : x.idx = y.idx => x = y
\* C28  an entry once committed on a node is never removed or replaced there
CommitStableP(h, nodes) == \A n \in Node : h.ec[n] \subseteq Committed(nodes[n])
\* C28  a node's commit index never decreases
CommitMonotoneP(h, nodes) == \A n \in Node : Local(nodes[n]).lc >= h.mlc[n]
\* C29  every later leader holds every entry a leader committed
LeaderCompletenessP(h) == h.missing = {}

\* Which listed triggers EXPLAIN a violation (used for the KNOWN-FINDING signatures of executions of the real code): for the
\* two properties that name entries, the triggers count only when every disagreeing / lost entry is one a listed defect can
\* affect (tainted), or a later leader already lacked a committed entry because of one; otherwise the violation has another
\* cause and is reported with an empty trigger set.
CAExplained(h, nodes) ==
  \A a, b \in Node : \A x \in Committed(nodes[a]), y \in Committed(nodes[b]) :
     (x.idx = y.idx /\ x # y) => (x \in h.taint \/ y \in h.taint \/ h.lcx)
CSExplained(h, nodes) == \A n \in Node : \A x \in h.ec[n] \ Committed(nodes[n]) : x \in h.taint \/ h.lcx
\* the missing entry is tainted, or the conflict AT ITS INDEX comes from a listed defect (some entry at that index is tainted:
\* e.g. the new leader kept its own stale entry there below an entry it accepted without previous-entry check)
LCExplained(h) == \A p \in h.missing : p[2] \in h.taint \/ \E x \in h.taint : x.idx = p[2].idx
TrigFor(name, h, nodes) ==
  IF name = "CommitAgreement" /\ ~CAExplained(h, nodes) THEN {}
  ELSE IF name = "CommitStable" /\ ~CSExplained(h, nodes) THEN {}
  ELSE IF name = "LeaderCompleteness" /\ ~LCExplained(h) THEN {}
  ELSE h.trig
=============================================================================
