------------------------------ MODULE RaftTrace ------------------------------
(***************************************************************************)
(* Trace validation of the simulator around the REAL raft.rs               *)
(* (harness/vraft) against RaftCore: every event carries the action, its   *)
(* arguments (node, virtual time, message id) and the acting node's        *)
(* complete projected state afterwards. The trace specification recomputes *)
(* the step with RaftCore's operators and requires                          *)
(*   - the same process() branch for the logged time,                       *)
(*   - the same response / the same set of new requests,                    *)
(*   - the same node state (state, term, votes, per-peer view, timers,      *)
(*     election timeout in force, stored log with commit marks),            *)
(* and keeps its own copy of the message pool (id -> message), so a         *)
(* delivered message is checked to be one that was sent.                    *)
(* It is deterministic: every unlogged choice is bound from the event.      *)
(* The history of RaftCore (leaders, committed entries, ...) is carried     *)
(* along and the properties C27 - C29 are invariants of the trace.          *)
(* Skip mode as in DbTrace: a run whose next event is not a step of the     *)
(* specification is reported (RUN_REJECTED) and abandoned.                  *)
(***************************************************************************)
EXTENDS RaftCore, Json, IOUtils, TLC

Rec == ndJsonDeserialize(IOEnv.TRACE)

VARIABLES node, flight, hist, l,
          bad     \* line numbers of events at which a property (not conformance) failed in this run
tvars == <<node, flight, hist, l, bad>>

E == Rec[l]
IsEvent(n) == l <= Len(Rec) /\ Rec[l].ev = n /\ l' = l + 1

\* ---- decoding ------------------------------------------------------------------------------
ReqOf(j) == [ty |-> j.ty, from |-> j.from, to |-> j.to, term |-> j.term, li |-> j.li, lt |-> j.lt, lc |-> j.lc,
             es |-> [i \in DOMAIN j.es |-> [idx |-> j.es[i][1], term |-> j.es[i][2], val |-> j.es[i][3]]]]
RspOf(j) == [res |-> j.res, v |-> j.v]
Range(f) == {f[x] : x \in DOMAIN f}
NsOf(n, j) ==
  [id |-> n, st |-> j.st, sa |-> j.sa, term |-> j.term, voted |-> Range(j.voted),
   view |-> [p \in Node |-> [li |-> j.view[p + 1][1], lt |-> j.view[p + 1][2], lc |-> j.view[p + 1][3]]],
   timer |-> [p \in Node |-> j.timer[p + 1]], et |-> j.et,
   log |-> [i \in DOMAIN j.log |-> [idx |-> j.log[i][1], term |-> j.log[i][2], val |-> j.log[i][3], com |-> j.log[i][4]]]]
\* responses whose payload the protocol never reads are compared by kind only
SameRsp(a, b) == a.res = b.res /\ (a.res \in {"TermMismatch", "LogMismatch"} => a.v = b.v)
OutReqs(j) == {ReqOf(j[i].req) : i \in DOMAIN j}
OutFlight(j) == [id \in {j[i].id : i \in DOMAIN j} |->
                   [k |-> "req", r |-> ReqOf(j[CHOOSE i \in DOMAIN j : j[i].id = id].req)]]

\* the properties (C27 - C29) are evaluated after every step; a property that becomes false is reported once
\* per run with the line of the step that broke it (PROP_VIOLATED), and validation continues
ViolatedNames(h, nd) ==
  {x \in {"ElectionSafety", "CommitAgreement", "CommitStable", "CommitMonotone", "LeaderCompleteness"} :
     CASE x = "ElectionSafety" -> ~ElectionSafetyP(h)
       [] x = "CommitAgreement" -> ~CommitAgreementP(nd)
       [] x = "CommitStable" -> ~CommitStableP(h, nd)
       [] x = "CommitMonotone" -> ~CommitMonotoneP(h, nd)
       [] x = "LeaderCompleteness" -> ~LeaderCompletenessP(h)}
Step(n, ns, removeIds, add) ==
  /\ node' = [node EXCEPT ![n] = ns]
  /\ flight' = [id \in (DOMAIN flight \ removeIds) \cup DOMAIN add |-> IF id \in DOMAIN add THEN add[id] ELSE flight[id]]
  /\ hist' = HistNext(hist, node, [node EXCEPT ![n] = ns])
  /\ bad' = bad \cup ViolatedNames(hist', node')
  /\ \A nm \in bad' \ bad : PrintT(<<"PROP_VIOLATED", l, {nm}, TrigFor(nm, hist', node')>>)

EmptyF == [x \in {} |-> 0]
TInit == /\ node = [n \in Node |-> InitNode(n)] /\ flight = EmptyF /\ hist = InitHist /\ l = 1 /\ bad = {}
TReset == /\ IsEvent("Reset")
          /\ E.n = N /\ E.ef = ElectionFactor /\ E.hb = HeartbeatTO /\ E.tt = TermTO
          /\ node' = [n \in Node |-> InitNode(n)] /\ flight' = EmptyF /\ hist' = InitHist /\ bad' = {}

TProcess ==
  /\ IsEvent("Process")
  /\ LET n == E.node
         ns == node[n]
         b == ProcBranch(ns, E.now)
         o == CASE b = "Heartbeat" -> DoHeartbeat(ns, HbTargets(ns, E.now), E.now)
                [] b = "PreElection" -> DoPreElection(ns, E.now)
                [] b = "TermTimeout" -> Out(DoTermTimeout(ns, E.now), {})
                [] OTHER -> Out(ns, {})
     IN /\ b = E.branch
        /\ o.ns = NsOf(n, E.ns)
        /\ o.out = OutReqs(E.out)
        /\ Step(n, o.ns, {}, OutFlight(E.out))

TRequest ==
  /\ IsEvent("Request")
  /\ E.id \in DOMAIN flight /\ flight[E.id].k = "req" /\ flight[E.id].r = ReqOf(E.req)
  /\ LET m == flight[E.id]
         n == m.r.to
         a == OnRequest(node[n], m.r, E.now)
     IN /\ n = E.node
        /\ SameRsp(a.rsp, RspOf(E.rsp))
        /\ a.ns = NsOf(n, E.ns)
        /\ Step(n, a.ns, {E.id}, (E.rid :> [k |-> "resp", r |-> m.r, p |-> RspOf(E.rsp)]))

TResponse ==
  /\ IsEvent("Response")
  /\ E.id \in DOMAIN flight /\ flight[E.id].k = "resp" /\ flight[E.id].r = ReqOf(E.req)
  /\ LET m == flight[E.id]
         n == m.r.from
         o == OnResponse(node[n], m.r, m.p, E.now)
     IN /\ n = E.node
        /\ o.ns = NsOf(n, E.ns)
        /\ o.out = OutReqs(E.out)
        /\ Step(n, o.ns, {E.id}, OutFlight(E.out))

TDrop == /\ IsEvent("Drop") /\ E.id \in DOMAIN flight
         /\ flight' = [id \in DOMAIN flight \ {E.id} |-> flight[id]] /\ UNCHANGED <<node, hist, bad>>
TDup == /\ IsEvent("Dup") /\ E.id \in DOMAIN flight
        /\ flight' = [id \in DOMAIN flight \cup {E.new} |-> IF id = E.new THEN flight[E.id] ELSE flight[id]]
        /\ UNCHANGED <<node, hist, bad>>

TAppend ==
  /\ IsEvent("Append")
  /\ LET n == E.node
         o == ClientAppend(node[n], E.val)
     IN /\ o.ns = NsOf(n, E.ns)
        /\ o.out = OutReqs(E.out)
        /\ E.was_leader = (node[n].st = "Leader")
        /\ Step(n, o.ns, {}, OutFlight(E.out))

TRestart ==
  /\ IsEvent("Restart")
  /\ LET n == E.node
         ns == Restart(node[n], E.now)
     IN /\ ns = NsOf(n, E.ns) /\ Step(n, ns, {}, EmptyF)

\* C30 driver: after a healthy period the cluster is observed at quiescence; HealthyProgress is a property of
\* the implementation (reported like the others), not a conformance condition
Leaders == {n \in Node : node[n].st = "Leader"}
Converged(vals) ==
  /\ Cardinality(Leaders) = 1
  /\ \A n \in Node : node[n].st \in {"Leader", "Follower"} /\ node[n].term = node[CHOOSE x \in Leaders : TRUE].term
  /\ \A a, b \in Node : node[a].log = node[b].log
  /\ \A v \in vals : \A n \in Node : \E j \in DOMAIN node[n].log : node[n].log[j].val = v /\ node[n].log[j].com
\* a listed defect (D13 / D13b) prevents convergence by making the LOGS conflict (two nodes hold different entries at one
\* index): its triggers explain a HealthyProgress violation only when they do
LogsConflict == \E a, b \in Node : \E x \in Stored(node[a]), y \in Stored(node[b]) : x.idx = y.idx /\ x # y
QuietTrig == IF LogsConflict THEN hist.trig ELSE {}
TQuiet == /\ IsEvent("Quiet") /\ UNCHANGED <<node, flight, hist>>
          /\ E.drained /\ DOMAIN flight = {}
          /\ bad' = bad \cup (IF Converged(Range(E.appended)) THEN {} ELSE {"HealthyProgress"})
          /\ (bad' # bad => PrintT(<<"PROP_VIOLATED", l, bad' \ bad, QuietTrig>>))

TNext == TReset \/ TProcess \/ TRequest \/ TResponse \/ TDrop \/ TDup \/ TAppend \/ TRestart \/ TQuiet

RECURSIVE NextReset(_)
NextReset(i) == IF i > Len(Rec) \/ Rec[i].ev = "Reset" THEN i ELSE NextReset(i + 1)
TSkip == /\ l <= Len(Rec) /\ ~ENABLED TNext
         /\ PrintT(<<"RUN_REJECTED", l>>)
         /\ l' = NextReset(l + 1)
         /\ node' = [n \in Node |-> InitNode(n)] /\ flight' = EmptyF /\ hist' = InitHist /\ bad' = {}
TEnd == l = Len(Rec) + 1 /\ PrintT(<<"TRACE_END", Len(Rec)>>) /\ l' = l + 1 /\ UNCHANGED <<node, flight, hist, bad>>

TraceSpec == TInit /\ [][TNext \/ TSkip \/ TEnd]_tvars

\* ---- property-level validation (used when the code no longer follows RaftCore step by step: MODEL-DRIFT) ----
\* The observed node states are taken as they are (no conformance condition); history and properties as above.
\* This decides the properties on the implementation's own executions independently of the mechanism model.
TAbsStep == /\ l <= Len(Rec) /\ E.ev \in {"Process", "Request", "Response", "Append", "Restart"} /\ l' = l + 1
            /\ Step(E.node, NsOf(E.node, E.ns), {}, EmptyF)
TAbsOther == /\ l <= Len(Rec) /\ E.ev \in {"Drop", "Dup"} /\ l' = l + 1 /\ UNCHANGED <<node, flight, hist, bad>>
TAbsQuiet == /\ IsEvent("Quiet") /\ UNCHANGED <<node, flight, hist>>
             /\ bad' = bad \cup (IF E.drained /\ Converged(Range(E.appended)) THEN {} ELSE {"HealthyProgress"})
             /\ (bad' # bad => PrintT(<<"PROP_VIOLATED", l, bad' \ bad, QuietTrig>>))
TNextAbs == TReset \/ TAbsStep \/ TAbsOther \/ TAbsQuiet
TSkipAbs == /\ l <= Len(Rec) /\ ~ENABLED TNextAbs
            /\ PrintT(<<"RUN_REJECTED", l>>)
            /\ l' = NextReset(l + 1)
            /\ node' = [n \in Node |-> InitNode(n)] /\ flight' = EmptyF /\ hist' = InitHist /\ bad' = {}
TraceSpecAbs == TInit /\ [][TNextAbs \/ TSkipAbs \/ TEnd]_tvars

\* ---- properties evaluated in every state of every trace -----------------------------------------
ElectionSafety == ElectionSafetyP(hist)
CommitAgreement == CommitAgreementP(node)
CommitStable == CommitStableP(hist, node)
CommitMonotone == CommitMonotoneP(hist, node)
LeaderCompleteness == LeaderCompletenessP(hist)
=============================================================================
