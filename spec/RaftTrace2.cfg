SPECIFICATION TraceSpec
CONSTANTS
 N = 2
 ElectionFactor = 1000
 HeartbeatTO = 1000
 TermTO = 3000
 FixVote = TRUE
CHECK_DEADLOCK FALSE
