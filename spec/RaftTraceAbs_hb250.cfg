SPECIFICATION TraceSpecAbs
CONSTANTS
 N = 3
 ElectionFactor = 1000
 HeartbeatTO = 250
 TermTO = 3000
 FixVote = TRUE
CHECK_DEADLOCK FALSE
