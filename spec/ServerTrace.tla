------------------------------ MODULE ServerTrace ------------------------------
(***************************************************************************)
(* agdb_server as a state machine over users, sessions, databases, roles,  *)
(* database content, audit logs, backups and files - and the validation of *)
(* request traces recorded from a REAL server process (lib/serverdrv.py).  *)
(*                                                                         *)
(* Events:  login / req (one API request: op, caller token, arguments,     *)
(* HTTP status) / obs (the observable state through a reserved admin       *)
(* session: users, databases with kind / backup flag / roles / content /   *)
(* audit, and the file listing under and around the data directory).       *)
(*                                                                         *)
(* Every request is followed by an observation. The specification decides  *)
(*  C24  status 2xx  =>  the caller's token is valid and the documented     *)
(*       permission holds (Permitted, the table of 02.server.md);          *)
(*       otherwise (rejected) the observed state equals the state before;  *)
(*       a performed operation changes only what it may change (Frame) and *)
(*       has the documented effect (Effect);                               *)
(*  C25  exec / exec_mut: the batch is evaluated by BatchEval over the     *)
(*       content model (node count, edge count, aliases); applied entirely *)
(*       or not at all; the audit log grows by exactly the mutating queries *)
(*       of the applied batch, attributed to the caller;                   *)
(*  C26  every file that appears, disappears or is attributed to a         *)
(*       database lies inside data/<owner>/ ; no file is used by two       *)
(*       databases (FilesOf is the server's name-to-path mapping).         *)
(* Sessions are not observable: tokens are tracked from login / logout.    *)
(***************************************************************************)
EXTENDS Integers, Sequences, FiniteSets, TLC, Json, IOUtils

CONSTANTS Focus,  \* "auth" | "batch" | "files": which property's conjuncts are part of the verdict
          Strict  \* TRUE: the maintenance operations (backup, restore, rollback, clear, convert, copy) must also have their
                  \* documented effect on the content - beyond the listed properties, reported as extension findings

Rec == ndJsonDeserialize(IOEnv.TRACE)

VARIABLES l, users, tokens, dbs, roles, bk, ghost, files, pend
vars == <<l, users, tokens, dbs, roles, bk, ghost, files, pend>>
\* users   set of user names (the server admin "admin" exists always and is not listed here)
\* tokens  token -> user
\* dbs     <<owner, name>> -> [kind, nodes, edges, aliases, audit, backup]
\* roles   <<user, owner, name>> -> "read" | "write" | "admin"   (the owner is an implicit admin)
\* bk      <<owner, name>> -> [nodes, edges, aliases, audit]: content captured by the last backup (not observable)
\* ghost   keys whose files were left on disk by `remove` (re-adding such a database adopts the files)
\* files   last observed file listing
\* pend    the request whose effect the next observation must show: [e, u] or [e |-> "none"]

E == Rec[l]
IsEvent(n) == l <= Len(Rec) /\ Rec[l].ev = n /\ l' = l + 1
Range(f) == {f[x] : x \in DOMAIN f}
Drop(f, S) == [x \in DOMAIN f \ S |-> f[x]]
Ok(st) == st >= 200 /\ st < 300
Key(e) == <<e.owner, e.db>>
None == [e |-> "none"]

\* ---- permissions (02.server.md) ---------------------------------------------------------------
Rank(r) == CASE r = "read" -> 1 [] r = "write" -> 2 [] r = "admin" -> 3 [] OTHER -> 0
RoleOf(u, k) == IF k \notin DOMAIN dbs THEN "none"
                ELSE IF u = k[1] THEN "admin"
                ELSE IF <<u, k[1], k[2]>> \in DOMAIN roles THEN roles[<<u, k[1], k[2]>>] ELSE "none"
Has(u, k, need) == Rank(RoleOf(u, k)) >= Rank(need)
Valid(t) == t \in DOMAIN tokens

Need(op) == CASE op \in {"exec", "audit", "copy", "db_user_list"} -> "read"
              [] op \in {"exec_mut", "optimize"} -> "write"
              [] op \in {"backup", "restore", "rollback", "clear", "convert", "db_user_add", "db_user_remove"} -> "admin"
              [] OTHER -> "owner"
AdminOps == {"admin_user_add", "admin_user_delete", "admin_user_logout", "admin_logout_all"}
SessionOps == {"logout", "logout_all", "logout_others", "db_list"}
Permitted(e, u) ==
  IF e.op \in AdminOps \/ e.admin_api THEN u = "admin"
  ELSE IF e.op \in SessionOps THEN TRUE
  ELSE IF e.op = "db_add" THEN u = e.owner
  ELSE IF Need(e.op) = "owner" THEN u = e.owner     \* existence of the database is a precondition of the effect
  ELSE IF e.op = "db_user_remove" THEN Has(u, Key(e), "admin") \/ (u = e.user /\ Has(u, Key(e), "read"))
  ELSE Has(u, Key(e), Need(e.op))

\* ---- content model and batches (C25) ---------------------------------------------------------------
Empty == [nodes |-> 0, edges |-> 0, aliases |-> {}]
Content(d) == [nodes |-> d.nodes, edges |-> d.edges, aliases |-> d.aliases]
MutKinds == {"insert", "alias", "fail_mut", "edge_ref"}
Mutating(b) == \E i \in DOMAIN b : b[i][1] \in MutKinds
QueryName(q) == CASE q[1] \in {"insert", "alias"} -> "InsertNodes" [] q[1] \in {"fail_mut", "edge_ref"} -> "InsertEdges" [] OTHER -> "?"
\* results[i] = number of ids query i returned, -1 = not usable as a reference
RECURSIVE BatchEval(_, _, _, _)
BatchEval(c, b, i, res) ==     \* [ok, c]
  IF i > Len(b) THEN [ok |-> TRUE, c |-> c]
  ELSE LET q == b[i] IN
    CASE q[1] \in {"count", "aliases", "elements"} -> BatchEval(c, b, i + 1, Append(res, -1))
      [] q[1] = "insert" -> BatchEval([c EXCEPT !.nodes = @ + q[2]], b, i + 1, Append(res, q[2]))
      [] q[1] = "alias" -> BatchEval(IF q[2] \in c.aliases THEN c ELSE [c EXCEPT !.nodes = @ + 1, !.aliases = @ \cup {q[2]}],
                                     b, i + 1, Append(res, 1))
      [] q[1] = "edge_ref" ->
           LET a == q[2] + 1
               z == q[3] + 1 IN
           IF a > Len(res) \/ z > Len(res) \/ res[a] < 1 \/ res[z] < 1 THEN [ok |-> FALSE, c |-> c]
           ELSE LET n == IF res[a] = res[z] THEN res[a] ELSE res[a] * res[z] IN
                BatchEval([c EXCEPT !.edges = @ + n], b, i + 1, Append(res, n))
      [] OTHER -> [ok |-> FALSE, c |-> c]
AuditOf(u, b) == [i \in 1..Cardinality({j \in DOMAIN b : b[j][1] \in MutKinds}) |->
                    <<u, QueryName(b[CHOOSE j \in DOMAIN b : b[j][1] \in MutKinds
                                          /\ Cardinality({x \in 1..j : b[x][1] \in MutKinds}) = i])>>]

\* ---- files (C26) ------------------------------------------------------------------------------------
\* TLC has no string operations, so the driver reports every path as <<normalised path, owner directory>>:
\* the owner directory is the first component below the data directory ("" for a path that is not inside a
\* directory of the data directory). For every database the observation also lists `paths`: what the server's
\* name-to-path mapping (db_pool.rs db_file / WAL / db_audit_file / db_backup_file / db_backup_audit_file)
\* yields for (owner, name) after normalisation, in the same form.
\* every observed file (the driver filters the server's own files) lies in the directory of an existing user
FilesConfined(fs, us) == \A f \in fs : f[2] \in us
\* files that appeared or disappeared across one request lie in the directory of the owner (or target owner)
Touched(before, after) == (before \ after) \cup (after \ before)
TargetOwner(e, u) == IF e.op \in {"copy", "rename"} THEN (IF e.admin_api THEN e.new_owner ELSE IF e.op = "copy" THEN u ELSE e.owner)
                     ELSE e.owner
\* ... by direction: what a copy or a rename (a move) CREATES lies in the directory of the target owner, what a request
\* removes lies in the directory of the database's (source) owner
TouchedConfined(e, u, before, after) ==
  /\ \A f \in after \ before :
        \/ e.op = "admin_user_delete" /\ f[2] = e.user
        \/ e.op \in {"copy", "rename"} /\ f[2] = TargetOwner(e, u)
        \/ e.op \notin {"copy", "rename", "admin_user_delete"} /\ f[2] = e.owner
  /\ \A f \in before \ after :
        \/ e.op = "admin_user_delete" /\ f[2] = e.user
        \/ e.op # "admin_user_delete" /\ f[2] = e.owner
\* the paths of a database lie in its owner's directory, and no path belongs to two databases
PathsOf(o, i) == {<<o.dbs[i].paths[j][1], o.dbs[i].paths[j][2]>> : j \in DOMAIN o.dbs[i].paths}
PathsConfined(o) == \A i \in DOMAIN o.dbs : \A p \in PathsOf(o, i) : p[2] = o.dbs[i].owner
PathsDisjoint(o) == \A i, j \in DOMAIN o.dbs : i # j => {p[1] : p \in PathsOf(o, i)} \cap {p[1] : p \in PathsOf(o, j)} = {}

\* ---- decoding an observation ---------------------------------------------------------------------
ObsUsers(o) == Range(o.users) \ {"admin"}
ObsDbs(o) == [k \in {<<o.dbs[i].owner, o.dbs[i].db>> : i \in DOMAIN o.dbs} |->
                LET d == o.dbs[CHOOSE i \in DOMAIN o.dbs : <<o.dbs[i].owner, o.dbs[i].db>> = k] IN
                [kind |-> d.kind, nodes |-> d.nodes, edges |-> d.edges, aliases |-> Range(d.aliases),
                 audit |-> [j \in DOMAIN d.audit |-> <<d.audit[j][1], d.audit[j][2]>>], backup |-> d.backup]]
ObsRoles(o) ==
  LET P == UNION {{<<o.dbs[i].roles[j][1], o.dbs[i].owner, o.dbs[i].db, o.dbs[i].roles[j][2]>> :
                     j \in DOMAIN o.dbs[i].roles} : i \in DOMAIN o.dbs} IN
  [k \in {<<p[1], p[2], p[3]>> : p \in {q \in P : q[1] # q[2]}} |->
     (CHOOSE p \in P : <<p[1], p[2], p[3]>> = k)[4]]
ObsDistinct(o) == Cardinality({<<o.dbs[i].owner, o.dbs[i].db>> : i \in DOMAIN o.dbs}) = Len(o.dbs)

\* ---- effects: relation between the state before a performed request and the observed state after it ------
SameDbsExcept(K, nd) == /\ \A k \in DOMAIN dbs \ K : k \in DOMAIN nd /\ nd[k] = dbs[k]
                        /\ \A k \in DOMAIN nd \ K : k \in DOMAIN dbs
SameRolesExcept(K, nr) == /\ \A r \in DOMAIN roles : <<r[2], r[3]>> \notin K => (r \in DOMAIN nr /\ nr[r] = roles[r])
                          /\ \A r \in DOMAIN nr : <<r[2], r[3]>> \notin K => r \in DOMAIN roles
Fresh(kind, d) == d.kind = kind /\ Content(d) = Empty /\ d.audit = <<>> /\ ~d.backup
WithContent(d, c) == [d EXCEPT !.nodes = c.nodes, !.edges = c.edges, !.aliases = c.aliases]

\* nu, nd, nr = users / dbs / roles of the observation that follows
Effect(e, u, nu, nd, nr) ==
  LET k == Key(e) IN
  CASE e.op = "admin_user_add" -> nu = users \cup {e.user} /\ nd = dbs /\ nr = roles
    [] e.op = "admin_user_delete" ->
         /\ nu = users \ {e.user}
         /\ nd = Drop(dbs, {x \in DOMAIN dbs : x[1] = e.user})
         /\ nr = Drop(roles, {x \in DOMAIN roles : x[1] = e.user \/ x[2] = e.user})
    [] e.op \in {"admin_user_logout", "admin_logout_all", "logout", "logout_all", "logout_others", "db_list", "db_user_list",
                 "audit", "optimize"} -> nu = users /\ nd = dbs /\ nr = roles
    [] e.op = "exec" -> /\ ~Mutating(e.batch) /\ BatchEval(Content(dbs[k]), e.batch, 1, <<>>).ok
                        /\ nu = users /\ nd = dbs /\ nr = roles
    [] e.op = "exec_mut" ->
         LET r == BatchEval(Content(dbs[k]), e.batch, 1, <<>>) IN
         /\ r.ok /\ nu = users /\ nr = roles
         /\ nd = [dbs EXCEPT ![k] = [WithContent(@, r.c) EXCEPT !.audit = @ \o AuditOf(u, e.batch)]]
    [] e.op = "db_add" ->
         /\ k \notin DOMAIN dbs /\ nu = users /\ nr = roles
         /\ DOMAIN nd = DOMAIN dbs \cup {k} /\ SameDbsExcept({k}, nd)
         /\ nd[k].kind = e.kind
         /\ (k \notin ghost => Fresh(e.kind, nd[k]))
    [] e.op \in {"db_delete", "db_remove"} ->
         /\ k \in DOMAIN dbs /\ nu = users
         /\ nd = Drop(dbs, {k}) /\ nr = Drop(roles, {x \in DOMAIN roles : <<x[2], x[3]>> = k})
    [] e.op = "db_user_add" ->
         /\ k \in DOMAIN dbs /\ e.user \in users \cup {"admin"} /\ e.user # e.owner
         /\ nu = users /\ nd = dbs /\ nr = (<<e.user, e.owner, e.db>> :> e.role) @@ roles
    [] e.op = "db_user_remove" ->
         /\ k \in DOMAIN dbs /\ e.user # e.owner
         /\ nu = users /\ nd = dbs /\ nr = Drop(roles, {<<e.user, e.owner, e.db>>})
    [] e.op \in {"backup", "restore", "rollback", "clear", "convert"} /\ ~Strict ->
         \* property level (C24): a performed maintenance operation touches nothing but its own database
         /\ k \in DOMAIN dbs /\ nu = users /\ nr = roles /\ DOMAIN nd = DOMAIN dbs /\ SameDbsExcept({k}, nd)
    [] e.op = "backup" -> /\ nu = users /\ nr = roles /\ nd = [dbs EXCEPT ![k].backup = TRUE]
    [] e.op = "restore" -> /\ dbs[k].backup /\ k \in DOMAIN bk /\ nu = users /\ nr = roles
                           /\ nd = [dbs EXCEPT ![k] = [WithContent(@, bk[k]) EXCEPT !.audit = bk[k].audit]]
    [] e.op = "rollback" -> /\ dbs[k].backup /\ k \in DOMAIN bk /\ nu = users /\ nr = roles
                            /\ nd = [dbs EXCEPT ![k] = [WithContent(@, bk[k]) EXCEPT !.audit = bk[k].audit]]
    [] e.op = "clear" ->
         /\ nu = users /\ nr = roles
         /\ nd = [dbs EXCEPT ![k] =
                    CASE e.resource = "all" -> [WithContent(@, Empty) EXCEPT !.audit = <<>>, !.backup = FALSE]
                      [] e.resource = "db" -> WithContent(@, Empty)
                      [] e.resource = "audit" -> [@ EXCEPT !.audit = <<>>]
                      [] OTHER -> [@ EXCEPT !.backup = FALSE]]
    [] e.op = "convert" -> nu = users /\ nr = roles /\ nd = [dbs EXCEPT ![k].kind = e.kind]
    [] e.op = "copy" ->
         LET t == <<(IF e.admin_api THEN e.new_owner ELSE u), e.new_db>> IN
         /\ k \in DOMAIN dbs /\ t \notin DOMAIN dbs /\ nu = users /\ nr = roles
         /\ DOMAIN nd = DOMAIN dbs \cup {t} /\ SameDbsExcept({t}, nd)
         /\ (Strict => Content(nd[t]) = Content(dbs[k]) /\ nd[t].kind = dbs[k].kind /\ ~nd[t].backup)
    [] e.op = "rename" ->
         LET t == <<(IF e.admin_api THEN e.new_owner ELSE e.owner), e.new_db>> IN
         IF t = k THEN nu = users /\ nd = dbs /\ nr = roles
         ELSE /\ k \in DOMAIN dbs /\ t \notin DOMAIN dbs /\ nu = users
              /\ DOMAIN nd = (DOMAIN dbs \ {k}) \cup {t} /\ SameDbsExcept({k, t}, nd)
              \* files a `remove` left on disk under the target name are adopted (as by db_add): the audit log may be the
              \* leftover one
              /\ IF t \in ghost THEN [nd[t] EXCEPT !.audit = <<>>] = [dbs[k] EXCEPT !.audit = <<>>] ELSE nd[t] = dbs[k]
              /\ SameRolesExcept({k, t}, nr)
              /\ \A r \in DOMAIN roles : <<r[2], r[3]>> = k /\ r[1] # t[1] => (<<r[1], t[1], t[2]>> \in DOMAIN nr /\ nr[<<r[1], t[1], t[2]>>] = roles[r])
    [] OTHER -> FALSE

\* ---- sessions ----------------------------------------------------------------------------------------
TokensAfter(e, u) ==
  CASE e.op = "logout" -> Drop(tokens, {e.caller})
    [] e.op = "logout_all" -> Drop(tokens, {t \in DOMAIN tokens : tokens[t] = u})
    [] e.op = "logout_others" -> Drop(tokens, {t \in DOMAIN tokens : tokens[t] = u /\ t # e.caller})
    [] e.op = "admin_user_logout" -> Drop(tokens, {t \in DOMAIN tokens : tokens[t] = e.user})
    [] e.op = "admin_logout_all" -> Drop(tokens, {t \in DOMAIN tokens : tokens[t] # "admin"})
    [] e.op = "admin_user_delete" -> Drop(tokens, {t \in DOMAIN tokens : tokens[t] = e.user})
    [] OTHER -> tokens

\* ---- the trace ----------------------------------------------------------------------------------------
EmptyF == [x \in {} |-> 0]
Init == /\ l = 1 /\ users = {} /\ tokens = EmptyF /\ dbs = EmptyF /\ roles = EmptyF /\ bk = EmptyF /\ ghost = {}
        /\ files = {} /\ pend = None
Same == UNCHANGED <<users, tokens, dbs, roles, bk, ghost, files, pend>>

TReset == IsEvent("Reset") /\ users' = {} /\ tokens' = EmptyF /\ dbs' = EmptyF /\ roles' = EmptyF /\ bk' = EmptyF
          /\ ghost' = {} /\ files' = {} /\ pend' = None

TLogin == /\ IsEvent("login")
          /\ IF Ok(E.status)
             THEN /\ E.user \in users \cup {"admin"} /\ E.good_password
                  /\ tokens' = (E.token :> E.user) @@ tokens
             ELSE tokens' = tokens
          /\ UNCHANGED <<users, dbs, roles, bk, ghost, files, pend>>
TObserver == IsEvent("observer") /\ Same

\* a request: the verdict on its status is immediate, its effect is checked at the observation that follows
TReq ==
  /\ IsEvent("req") /\ pend = None
  /\ IF ~Valid(E.caller)
     THEN /\ ~Ok(E.status)                                  \* no valid session: rejected
          /\ pend' = [e |-> E, u |-> "", performed |-> FALSE] /\ tokens' = tokens
     ELSE LET u == tokens[E.caller] IN
          /\ (Ok(E.status) => Permitted(E, u))              \* performed => permitted (C24)
          /\ pend' = [e |-> E, u |-> u, performed |-> Ok(E.status)]
          /\ tokens' = IF Ok(E.status) THEN TokensAfter(E, u) ELSE tokens
  /\ UNCHANGED <<users, dbs, roles, bk, ghost, files>>

BkAfter(e) ==
  LET k == Key(e) IN
  CASE e.op = "backup" -> (k :> [nodes |-> dbs[k].nodes, edges |-> dbs[k].edges, aliases |-> dbs[k].aliases, audit |-> dbs[k].audit]) @@ bk
    [] e.op = "rollback" -> (k :> [nodes |-> dbs[k].nodes, edges |-> dbs[k].edges, aliases |-> dbs[k].aliases, audit |-> dbs[k].audit]) @@ bk
    [] e.op = "clear" /\ e.resource \in {"all", "backup"} -> Drop(bk, {k})
    [] e.op \in {"db_delete"} -> Drop(bk, {k})
    [] e.op = "admin_user_delete" -> Drop(bk, {x \in DOMAIN bk : x[1] = e.user})
    [] e.op = "rename" -> LET t == <<(IF e.admin_api THEN e.new_owner ELSE e.owner), e.new_db>> IN
                          IF k \in DOMAIN bk /\ t # k THEN (t :> bk[k]) @@ Drop(bk, {k}) ELSE bk
    [] OTHER -> bk
GhostAfter(e) ==
  CASE e.op = "db_remove" -> ghost \cup {Key(e)}
    [] e.op = "db_delete" -> ghost \ {Key(e)}
    [] OTHER -> ghost

TObs ==
  /\ IsEvent("obs")
  /\ LET nu == ObsUsers(E)
         nd == ObsDbs(E)
         nr == ObsRoles(E)
         nf == {<<E.files[i][1], E.files[i][2]>> : i \in DOMAIN E.files} IN
     /\ ObsDistinct(E)
     /\ IF pend = None THEN TRUE
        ELSE IF ~pend.performed
        THEN /\ nu = users /\ nd = dbs /\ nr = roles          \* rejected: no effect (C24, C25)
             /\ (Focus = "files" => nf = files)
        ELSE /\ Effect(pend.e, pend.u, nu, nd, nr)
             /\ (Focus = "files" => TouchedConfined(pend.e, pend.u, files, nf))
     /\ (Focus = "files" => FilesConfined(nf, nu \cup users \cup {"admin"}) /\ PathsConfined(E) /\ PathsDisjoint(E))
     /\ users' = nu /\ dbs' = nd /\ roles' = nr /\ files' = nf
     /\ bk' = IF pend # None /\ pend.performed THEN BkAfter(pend.e) ELSE bk
     /\ ghost' = IF pend # None /\ pend.performed THEN GhostAfter(pend.e) ELSE ghost
     /\ pend' = None /\ tokens' = tokens

TNext == TReset \/ TLogin \/ TObserver \/ TReq \/ TObs

RECURSIVE NextReset(_)
NextReset(i) == IF i > Len(Rec) \/ Rec[i].ev = "Reset" THEN i ELSE NextReset(i + 1)
TSkip == /\ l <= Len(Rec) /\ ~ENABLED TNext
         /\ PrintT(<<"RUN_REJECTED", l>>)
         /\ l' = NextReset(l + 1)
         /\ users' = {} /\ tokens' = EmptyF /\ dbs' = EmptyF /\ roles' = EmptyF /\ bk' = EmptyF /\ ghost' = {} /\ files' = {}
         /\ pend' = None
TEnd == l = Len(Rec) + 1 /\ PrintT(<<"TRACE_END", Len(Rec)>>) /\ l' = l + 1 /\ UNCHANGED <<users, tokens, dbs, roles, bk, ghost, files, pend>>
TraceSpec == Init /\ [][TNext \/ TSkip \/ TEnd]_vars

\* no two databases share a file: the files the server's path mapping assigns to the databases that exist
\* (evaluated on the observed names by the driver-independent operator below, as an invariant of the trace)
==============================================================================
