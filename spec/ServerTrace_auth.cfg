SPECIFICATION TraceSpec
CONSTANTS Focus = "auth"
 Strict = FALSE
CHECK_DEADLOCK FALSE
