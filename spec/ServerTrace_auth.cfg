SPECIFICATION TraceSpec
CONSTANT Focus = "auth"
CHECK_DEADLOCK FALSE
