SPECIFICATION TraceSpec
CONSTANT Focus = "batch"
CHECK_DEADLOCK FALSE
