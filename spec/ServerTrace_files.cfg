SPECIFICATION TraceSpec
CONSTANTS Focus = "files"
 Strict = FALSE
CHECK_DEADLOCK FALSE
