SPECIFICATION TraceSpec
CONSTANT Focus = "files"
CHECK_DEADLOCK FALSE
