SPECIFICATION TraceSpec
CONSTANTS Focus = "auth"
 Strict = TRUE
CHECK_DEADLOCK FALSE
