----------------------------- MODULE SharedRead -----------------------------
(***************************************************************************)
(* C23: FileStorage::read - one shared file handle (its cursor is shared   *)
(* state) guarded by try_lock; a reader that finds the lock taken opens a  *)
(* fresh handle. A read is seek + read_exact: two steps on the handle.     *)
(* LockCoversRead = TRUE is the code as pinned (the guard lives until      *)
(* read_exact returned); FALSE releases it after the seek (the mechanism   *)
(* whose absence the property is about: kept as the non-vacuity probe).    *)
(***************************************************************************)
EXTENDS Naturals, Sequences, FiniteSets, TLC
CONSTANTS Readers, Positions, LockCoversRead
VARIABLES pc, want, cursor, holder, got
vars == <<pc, want, cursor, holder, got>>
None == 99
Init == /\ pc = [r \in Readers |-> "idle"] /\ want = [r \in Readers |-> 0]
        /\ cursor = 0 /\ holder = None /\ got = [r \in Readers |-> None]
Start(r, p) == /\ pc[r] = "idle" /\ want' = [want EXCEPT ![r] = p] /\ got' = [got EXCEPT ![r] = None]
               /\ IF holder = None THEN holder' = r /\ pc' = [pc EXCEPT ![r] = "locked"]
                                   ELSE UNCHANGED holder /\ pc' = [pc EXCEPT ![r] = "fresh"]
               /\ UNCHANGED cursor
SeekShared(r) == /\ pc[r] = "locked" /\ cursor' = want[r] /\ pc' = [pc EXCEPT ![r] = "seeked"]
                 /\ holder' = (IF LockCoversRead THEN holder ELSE None)
                 /\ UNCHANGED <<want, got>>
ReadShared(r) == /\ pc[r] = "seeked" /\ got' = [got EXCEPT ![r] = cursor] /\ pc' = [pc EXCEPT ![r] = "idle"]
                 /\ holder' = (IF holder = r THEN None ELSE holder) /\ UNCHANGED <<want, cursor>>
ReadFresh(r) == /\ pc[r] = "fresh" /\ got' = [got EXCEPT ![r] = want[r]] /\ pc' = [pc EXCEPT ![r] = "idle"]
                /\ UNCHANGED <<want, cursor, holder>>
Next == \E r \in Readers : (\E p \in Positions : Start(r, p)) \/ SeekShared(r) \/ ReadShared(r) \/ ReadFresh(r)
Spec == Init /\ [][Next]_vars
\* every read returns the bytes at the position its reader asked for
ReadsOwnPosition == \A r \in Readers : (pc[r] = "idle" /\ got[r] # None) => got[r] = want[r]
\* mechanism: at most one reader is between try_lock and the end of its read on the shared handle
SharedHandleExclusive == Cardinality({r \in Readers : pc[r] \in {"locked", "seeked"}}) <= 1
=============================================================================
