--------------------------- MODULE SharedReadTrace ---------------------------
(***************************************************************************)
(* Trace validation for C23. N threads run read queries concurrently on    *)
(* one DbFile; hook H3 (thread local, ordered by a global atomic sequence  *)
(* number taken inside the hook) reports for every storage read which      *)
(* handle was chosen, the position sought, and the bytes returned; the     *)
(* driver reports every query's result digest.                             *)
(* Property level (verdict):                                               *)
(*   Done  - the bytes returned are the file's bytes at the position this  *)
(*           reader asked for (the file does not change during the run);   *)
(*   Query - the result digest equals the sequential baseline's.           *)
(* Mechanism level (reported as MECHANISM line, not a violation):          *)
(*   two readers inside [Handle(shared) .. Done] at once.                  *)
(***************************************************************************)
EXTENDS Naturals, Sequences, FiniteSets, TLC, Json, IOUtils

Rec == ndJsonDeserialize(IOEnv.TRACE)
VARIABLES l, file, baseline, state, overlap
vars == <<l, file, baseline, state, overlap>>
\* state: thread -> [pc, shared, pos, len]

E == Rec[l]
IsEvent(n) == l <= Len(Rec) /\ Rec[l].ev = n /\ l' = l + 1
Idle == [pc |-> "idle", shared |-> FALSE, pos |-> 0, len |-> 0]
Get(t) == IF t \in DOMAIN state THEN state[t] ELSE Idle
Put(t, v) == [x \in DOMAIN state \cup {t} |-> IF x = t THEN v ELSE state[x]]

Init == l = 1 /\ file = <<>> /\ baseline = <<>> /\ state = [x \in {} |-> Idle] /\ overlap = FALSE
TReset == /\ IsEvent("Reset") /\ file' = E.file /\ baseline' = E.baseline /\ state' = [x \in {} |-> Idle] /\ overlap' = FALSE
THandle == /\ IsEvent("Handle") /\ Get(E.thread).pc = "idle"
           /\ state' = Put(E.thread, [pc |-> "chosen", shared |-> E.shared, pos |-> 0, len |-> 0])
           /\ overlap' = (overlap \/ (E.shared /\ \E t \in DOMAIN state : t # E.thread /\ state[t].pc # "idle" /\ state[t].shared))
           /\ (overlap' /\ ~overlap => PrintT(<<"MECHANISM", l, "two readers use the shared handle at once">>))
           /\ UNCHANGED <<file, baseline>>
TSeek == /\ IsEvent("Seek") /\ Get(E.thread).pc = "chosen"
         /\ state' = Put(E.thread, [Get(E.thread) EXCEPT !.pc = "seeked", !.pos = E.pos, !.len = E.len])
         /\ UNCHANGED <<file, baseline, overlap>>
TDone == /\ IsEvent("Done") /\ Get(E.thread).pc = "seeked"
         /\ E.pos = Get(E.thread).pos /\ Len(E.bytes) = Get(E.thread).len
         /\ E.pos + Len(E.bytes) <= Len(file)
         /\ E.bytes = SubSeq(file, E.pos + 1, E.pos + Len(E.bytes))       \* C23 at the storage level
         /\ state' = Put(E.thread, Idle)
         /\ UNCHANGED <<file, baseline, overlap>>
TQuery == /\ IsEvent("Query") /\ E.ok /\ E.digest = baseline[E.q]         \* C23 at the query level
          /\ UNCHANGED <<file, baseline, state, overlap>>
TNext == TReset \/ THandle \/ TSeek \/ TDone \/ TQuery
RECURSIVE NextReset(_)
NextReset(i) == IF i > Len(Rec) \/ Rec[i].ev = "Reset" THEN i ELSE NextReset(i + 1)
TSkip == /\ l <= Len(Rec) /\ ~ENABLED TNext
         /\ PrintT(<<"RUN_REJECTED", l>>)
         /\ l' = NextReset(l + 1) /\ file' = <<>> /\ baseline' = <<>> /\ state' = [x \in {} |-> Idle] /\ overlap' = FALSE
TEnd == l = Len(Rec) + 1 /\ PrintT(<<"TRACE_END", Len(Rec)>>) /\ l' = l + 1 /\ UNCHANGED <<file, baseline, state, overlap>>
TraceSpec == Init /\ [][TNext \/ TSkip \/ TEnd]_vars
=============================================================================
