---------------------------- MODULE StorageAlloc ----------------------------
(* Mechanism model of agdb/src/storage.rs + storage_records.rs (record table,  *)
(* free list with best-fit placement and coalescing, defragmentation, reopen).  *)
(* One cell = 8 bytes. Header = 2 cells (index, size). Version record = 3.   *)
EXTENDS Naturals, Sequences, FiniteSets, TLC

CONSTANTS Sizes, MaxLive, MaxOps, MaxFile

H == 2
Start == 3
N(x) == [k |-> "n", v |-> x]       \* numeric cell (header field or zero fill)
V(t) == [k |-> "v", v |-> t]       \* value payload cell with token t

VARIABLES disk, recs, free, freeIdx, nextIdx, vals, tok, nops, last
vars == <<disk, recs, free, freeIdx, nextIdx, vals, tok, nops, last>>

Max(a, b) == IF a > b THEN a ELSE b
RECURSIVE Zeros(_)
Zeros(n) == IF n = 0 THEN <<>> ELSE <<N(0)>> \o Zeros(n - 1)
Patch(d, p, c) == IF p >= Len(d) THEN d \o Zeros(p - Len(d)) \o c
                  ELSE SubSeq(d, 1, p) \o c \o SubSeq(d, p + Len(c) + 1, Len(d))
Trunc(d, n) == IF n < Len(d) THEN SubSeq(d, 1, n) ELSE d
RECURSIVE Fill(_, _)
Fill(c, n) == IF n = 0 THEN <<>> ELSE <<c>> \o Fill(c, n - 1)
Hdr(i, s) == <<N(i), N(s)>>
End(r) == r.pos + H + r.size

\* ---- free index ---------------------------------------------------------
Cands(fr, min) == {f \in fr : f.size = min \/ f.size >= min + H}
TakeFree(fr, min) ==      \* smallest acceptable size, then lowest position; <<>> if none
  IF Cands(fr, min) = {} THEN <<>>
  ELSE LET ms == CHOOSE s \in {f.size : f \in Cands(fr, min)} : \A f \in Cands(fr, min) : s <= f.size
           mp == CHOOSE p \in {f.pos : f \in {g \in Cands(fr, min) : g.size = ms}} :
                      \A f \in {g \in Cands(fr, min) : g.size = ms} : p <= f.pos
       IN <<[pos |-> mp, size |-> ms]>>
TakeFreeAfter(fr, endpos, min) ==
  LET c == {f \in fr : f.pos = endpos /\ (H + f.size = min \/ f.size >= min)} IN
  IF c = {} THEN <<>> ELSE <<CHOOSE f \in c : TRUE>>

RECURSIVE Fwd(_, _)
Fwd(fr, e) == IF \E f \in fr : f.pos = e
              THEN LET f == CHOOSE g \in fr : g.pos = e IN Fwd(fr \ {f}, e + H + f.size)
              ELSE [fr |-> fr, e |-> e]
RECURSIVE Bwd(_, _)
Bwd(fr, p) == IF \E f \in fr : f.pos + H + f.size = p
              THEN LET f == CHOOSE g \in fr : g.pos + H + g.size = p IN Bwd(fr \ {f}, f.pos)
              ELSE [fr |-> fr, p |-> p]

\* free_a_region on a state record s
FreeRegion(s, pos, size) ==
  LET a == Fwd(s.free, pos + H + size)
      b == Bwd(a.fr, pos)
      r == [pos |-> b.p, size |-> a.e - b.p - H]
  IN [s EXCEPT !.free = b.fr \cup {r}, !.disk = Patch(s.disk, r.pos, Hdr(0, r.size))]

NewIdx(s) == IF s.freeIdx # <<>> THEN Head(s.freeIdx) ELSE s.nextIdx
PopIdx(s) == IF s.freeIdx # <<>> THEN [s EXCEPT !.freeIdx = Tail(s.freeIdx)]
                                 ELSE [s EXCEPT !.nextIdx = s.nextIdx + 1]
AtEnd(s, r) == Len(s.disk) = End(r)
Val(s, r) == SubSeq(s.disk, r.pos + H + 1, r.pos + H + r.size)
SetRec(s, i, p, z) == [s EXCEPT !.recs = [j \in (DOMAIN s.recs) \cup {i} |-> IF j = i THEN [pos |-> p, size |-> z] ELSE s.recs[j]]]

\* ---- operations -----------------------------------------------------------
InsertOp(s, cells) ==
  LET z == Len(cells)
      tf == TakeFree(s.free, z)
      i == NewIdx(s)
      s0 == PopIdx(s)
  IN IF tf # <<>>
     THEN LET f == tf[1]
              s1 == SetRec([s0 EXCEPT !.free = s0.free \ {f}], i, f.pos, z)
              s2 == [s1 EXCEPT !.disk = Patch(Patch(s1.disk, f.pos, Hdr(i, z)), f.pos + H, cells)]
          IN IF f.size > z THEN FreeRegion(s2, f.pos + H + z, f.size - H - z) ELSE s2
     ELSE LET p == Len(s0.disk)
              s1 == SetRec(s0, i, p, z)
          IN [s1 EXCEPT !.disk = Patch(Patch(s1.disk, p, Hdr(i, z)), p + H, cells)]

RemoveOp(s, i) ==
  LET r == s.recs[i]
      s1 == [s EXCEPT !.recs = [j \in (DOMAIN s.recs) \ {i} |-> s.recs[j]], !.freeIdx = <<i>> \o s.freeIdx]
  IN IF AtEnd(s, r) THEN [s1 EXCEPT !.disk = Trunc(s1.disk, r.pos)] ELSE FreeRegion(s1, r.pos, r.size)

MoveToEnd(s, i, ns) ==
  LET r == s.recs[i]
      v == Val(s, r)
      b == IF ns <= Len(v) THEN SubSeq(v, 1, ns) ELSE v \o Zeros(ns - Len(v))
      p == Len(s.disk)
      s1 == FreeRegion(s, r.pos, r.size)
      s2 == SetRec(s1, i, p, ns)
  IN [s2 EXCEPT !.disk = Patch(Patch(s2.disk, p, Hdr(i, ns)), p + H, b)]

EnlargeOp(s, i, ns) ==
  LET r == s.recs[i] IN
  IF AtEnd(s, r)
  THEN LET s1 == SetRec(s, i, r.pos, ns)
       IN [s1 EXCEPT !.disk = Patch(Patch(s1.disk, r.pos + 1, <<N(ns)>>), Len(s1.disk), Fill(N(0), ns - r.size))]
  ELSE LET ta == TakeFreeAfter(s.free, End(r), ns - r.size) IN
    IF ta # <<>>
    THEN LET f == ta[1]
             rem == (r.size + H + f.size) - ns
             s1 == SetRec([s EXCEPT !.free = s.free \ {f}], i, r.pos, ns)
             s2 == [s1 EXCEPT !.disk = Patch(Patch(s1.disk, r.pos + 1, <<N(ns)>>), End(r), Fill(N(0), ns - r.size))]
         IN IF rem # 0 THEN FreeRegion(s2, r.pos + H + ns, rem - H) ELSE s2
    ELSE LET tf == TakeFree(s.free, ns) IN
      IF tf # <<>>
      THEN LET f == tf[1]
               v == Val(s, r)
               b == IF ns <= Len(v) THEN SubSeq(v, 1, ns) ELSE v \o Zeros(ns - Len(v))
               s1 == FreeRegion([s EXCEPT !.free = s.free \ {f}], r.pos, r.size)
               s2 == SetRec(s1, i, f.pos, ns)
               s3 == [s2 EXCEPT !.disk = Patch(Patch(s2.disk, f.pos, Hdr(i, ns)), f.pos + H, b)]
           IN IF f.size > ns THEN FreeRegion(s3, f.pos + H + ns, f.size - ns - H) ELSE s3
      ELSE MoveToEnd(s, i, ns)

ShrinkOp(s, i, ns) ==
  LET r == s.recs[i] IN
  IF AtEnd(s, r)
  THEN LET s1 == SetRec(s, i, r.pos, ns)
       IN [s1 EXCEPT !.disk = Trunc(Patch(s1.disk, r.pos + 1, <<N(ns)>>), r.pos + H + ns)]
  ELSE IF r.size - ns >= H
       THEN LET s1 == SetRec(s, i, r.pos, ns)
                s2 == [s1 EXCEPT !.disk = Patch(s1.disk, r.pos + 1, <<N(ns)>>)]
            IN FreeRegion(s2, r.pos + H + ns, r.size - ns - H)
       ELSE MoveToEnd(s, i, ns)

ResizeOp(s, i, ns) == IF ns > s.recs[i].size THEN EnlargeOp(s, i, ns)
                      ELSE IF ns < s.recs[i].size THEN ShrinkOp(s, i, ns) ELSE s

\* replace_with_bytes = insert_bytes_at(0) (enlarging first) ; resize_value
ReplaceOp(s, i, cells) ==
  LET z == Len(cells)
      s1 == IF z > s.recs[i].size THEN EnlargeOp(s, i, z) ELSE s
      s2 == [s1 EXCEPT !.disk = Patch(s1.disk, s1.recs[i].pos + H, cells)]
  IN ResizeOp(s2, i, z)

\* optimize_storage
RECURSIVE Pack(_, _, _)
Pack(s, todo, cur) ==
  IF todo = {} THEN [s EXCEPT !.disk = Trunc(s.disk, cur), !.free = {}]
  ELSE LET i == CHOOSE j \in todo : \A k \in todo : s.recs[j].pos <= s.recs[k].pos
           r == s.recs[i]
           v == Val(s, r)
           s1 == IF r.pos # cur
                 THEN [SetRec(s, i, cur, r.size) EXCEPT !.disk = Patch(Patch(s.disk, cur, Hdr(i, r.size)), cur + H, v)]
                 ELSE s
       IN Pack(s1, todo \ {i}, cur + H + r.size)
OptimizeOp(s) == Pack(s, DOMAIN s.recs, Start)

\* read_records: walk the headers; "bad" if the walk does not tile the file
RECURSIVE Walk(_, _, _, _)
Walk(d, p, live, fr) ==
  IF p = Len(d) THEN [ok |-> TRUE, live |-> live, free |-> fr]
  ELSE IF p + H > Len(d) \/ d[p + 1].k # "n" \/ d[p + 2].k # "n" THEN [ok |-> FALSE, live |-> live, free |-> fr]
  ELSE LET i == d[p + 1].v
           z == d[p + 2].v IN
       IF p + H + z > Len(d) THEN [ok |-> FALSE, live |-> live, free |-> fr]
       ELSE IF i = 0 THEN Walk(d, p + H + z, live, fr \cup {[pos |-> p, size |-> z]})
            ELSE Walk(d, p + H + z, live \cup {[idx |-> i, pos |-> p, size |-> z]}, fr)
Parsed == Walk(disk, Start, {}, {})

St == [disk |-> disk, recs |-> recs, free |-> free, freeIdx |-> freeIdx, nextIdx |-> nextIdx]
Commit(s) == /\ disk' = s.disk /\ recs' = s.recs /\ free' = s.free
             /\ freeIdx' = s.freeIdx /\ nextIdx' = s.nextIdx

Init == /\ disk = <<N(0), N(1), N(1)>>     \* version record: index 0, size 1 cell, value 1
        /\ recs = << >> /\ free = {} /\ freeIdx = <<>> /\ nextIdx = 1
        /\ vals = << >> /\ tok = 1 /\ nops = 0 /\ last = "init"

Live == DOMAIN recs
Step(name) == nops < MaxOps /\ nops' = nops + 1 /\ last' = name

Insert(z) == /\ Step("insert") /\ Cardinality(Live) < MaxLive
             /\ LET i == NewIdx(St) IN
                /\ Commit(InsertOp(St, Fill(V(tok), z)))
                /\ vals' = [j \in Live \cup {i} |-> IF j = i THEN Fill(V(tok), z) ELSE vals[j]]
             /\ tok' = tok + 1
Remove(i) == /\ Step("remove") /\ Commit(RemoveOp(St, i))
             /\ vals' = [j \in Live \ {i} |-> vals[j]] /\ UNCHANGED tok
Replace(i, z) == /\ Step("replace") /\ Commit(ReplaceOp(St, i, Fill(V(tok), z)))
                 /\ vals' = [vals EXCEPT ![i] = Fill(V(tok), z)] /\ tok' = tok + 1
Resize(i, z) == /\ Step("resize") /\ z # recs[i].size /\ Commit(ResizeOp(St, i, z))
                /\ vals' = [vals EXCEPT ![i] = IF z <= Len(vals[i]) THEN SubSeq(vals[i], 1, z) ELSE vals[i] \o Zeros(z - Len(vals[i]))]
                /\ UNCHANGED tok
Optimize == /\ Step("optimize") /\ Commit(OptimizeOp(St)) /\ UNCHANGED <<vals, tok>>

Next == \/ \E z \in Sizes : Insert(z)
        \/ \E i \in Live : Remove(i) \/ (\E z \in Sizes : Replace(i, z) \/ Resize(i, z))
        \/ Optimize
Spec == Init /\ [][Next]_vars

\* ---- invariants -----------------------------------------------------------
Tiling == Parsed.ok
TableMatchesDisk == Parsed.ok =>
   /\ Parsed.live = {[idx |-> i, pos |-> recs[i].pos, size |-> recs[i].size] : i \in Live}
   /\ Parsed.free = free
ValuesIntact == \A i \in Live : Val(St, recs[i]) = vals[i]
Tight == last = "optimize" => (free = {} /\ Len(disk) = Start + (H * Cardinality(Live)) +
            (LET RECURSIVE S(_) S(x) == IF x = {} THEN 0 ELSE LET i == CHOOSE j \in x : TRUE IN recs[i].size + S(x \ {i}) IN S(Live)))
FileBound == Len(disk) <= MaxFile
==============================================================================
