------------------------------- MODULE StorageAllocTrace -------------------------------
(***************************************************************************)
(* C04 at property level: the storage layer is an abstract map             *)
(*   index -> byte string                                                  *)
(* whatever it does with the file.  Events are recorded from the real      *)
(* Storage<D> (hook H2, VStorage) on MemoryStorage, FileStorage and        *)
(* FileStorageMemoryMapped; after every operation the event carries the    *)
(* projection: record table (index, pos, size), in-memory free regions,    *)
(* file length and the bytes of every live value.  No placement policy is  *)
(* assumed (a refactoring of the allocator must not raise an alarm); what  *)
(* is demanded is: Refines (values read back as last written, removed      *)
(* indexes unreadable, fresh indexes), Tiling (records and free regions    *)
(* partition the file exactly - which is what makes reopening well         *)
(* defined), FreeIndexExact / ReopenStable (reopen finds the same records  *)
(* and free regions), OptimizedTight.                                      *)
(***************************************************************************)
EXTENDS Integers, Sequences, FiniteSets, TLC, Json, IOUtils

Rec == ndJsonDeserialize(IOEnv.TRACE)

VARIABLES kv, l, tbl
vars == <<kv, l, tbl>>

HDR == 16
START == 24

E == Rec[l]
IsEvent(n) == l <= Len(Rec) /\ Rec[l].ev = n /\ l' = l + 1
Range(q) == {q[i] : i \in DOMAIN q}
Zeros(n) == [i \in 1..n |-> 0]
Min(a, b) == IF a < b THEN a ELSE b
Max(a, b) == IF a > b THEN a ELSE b

\* bytes b written at 0-based offset off into value v (zero fill)
PatchV(v, off, b) ==
  LET ext == IF off + Len(b) > Len(v) THEN v \o Zeros(off + Len(b) - Len(v)) ELSE v IN
  IF b = <<>> THEN ext ELSE SubSeq(ext, 1, off) \o b \o SubSeq(ext, off + Len(b) + 1, Len(ext))
ResizeV(v, n) == IF n <= Len(v) THEN SubSeq(v, 1, n) ELSE v \o Zeros(n - Len(v))
ZeroRange(v, a, z) == [i \in DOMAIN v |-> IF i > a /\ i <= z THEN 0 ELSE v[i]]   \* zero bytes a..z-1 (0-based)
\* move_at: copy [from, from+n) to `to`, then zero the part of the source the destination does not cover
MoveV(v, from, to, n) ==
  LET b == SubSeq(v, from + 1, from + n)
      v1 == PatchV(v, to, b) IN
  IF from < to THEN ZeroRange(v1, from, from + Min(n, to - from))
  ELSE IF from > to THEN ZeroRange(v1, Max(to + n, from), from + n)
  ELSE v1

\* ---- the projection carried by every event ---------------------------------------------
\* E.recs: [[index, pos, size]..]  E.free: [[pos, size]..]  E.len  E.vals: [[index, bytes]..]
ValsFn(e) == [i \in {p[1] : p \in Range(e.vals)} |-> (CHOOSE p \in Range(e.vals) : p[1] = i)[2]]
RECURSIVE SumSizes(_)
SumSizes(rs) == IF rs = <<>> THEN 0 ELSE HDR + Head(rs)[Len(Head(rs))] + SumSizes(Tail(rs))
Regions(e) == {<<r[2], r[2] + HDR + r[3]>> : r \in Range(e.recs)} \cup {<<f[1], f[1] + HDR + f[2]>> : f \in Range(e.free)}
\* records and free regions partition [START, len) exactly
Tiling(e) ==
  LET rg == Regions(e) IN
  /\ Cardinality(rg) = Len(e.recs) + Len(e.free)
  /\ \A a, b \in rg : a = b \/ a[2] <= b[1] \/ b[2] <= a[1]
  /\ \A a \in rg : a[1] >= START /\ a[2] <= e.len
  /\ SumSizes(e.recs) + SumSizes(e.free) = e.len - START
\* no two adjacent free regions (they are coalesced) - needed for "reopen finds the same free list"
Refines(e) ==
  /\ {r[1] : r \in Range(e.recs)} = DOMAIN kv' /\ Len(e.recs) = Cardinality(DOMAIN kv')
  /\ ValsFn(e) = kv'
  /\ \A r \in Range(e.recs) : r[3] = Len(kv'[r[1]])
ProjOk(e) == Tiling(e) /\ Refines(e) /\ tbl' = [recs |-> Range(e.recs), free |-> Range(e.free), len |-> e.len]

TInit == kv = <<>> /\ l = 1 /\ tbl = [recs |-> {}, free |-> {}, len |-> START]
TReset == IsEvent("Reset") /\ kv' = <<>> /\ tbl' = [recs |-> {}, free |-> {}, len |-> START]

Live == DOMAIN kv
Failed == ~E.ok /\ kv' = kv /\ ProjOk(E)       \* a failed operation changes nothing

TInsert == /\ IsEvent("Insert") /\ E.ok /\ E.index \notin Live /\ E.index > 0
           /\ kv' = [i \in Live \cup {E.index} |-> IF i = E.index THEN E.bytes ELSE kv[i]]
           /\ ProjOk(E)
TInsertAt == /\ IsEvent("InsertAt")
             /\ IF E.index \in Live THEN E.ok /\ kv' = [kv EXCEPT ![E.index] = PatchV(@, E.off, E.bytes)] /\ ProjOk(E)
                ELSE Failed
TReplace == /\ IsEvent("Replace")
            /\ IF E.index \in Live THEN E.ok /\ kv' = [kv EXCEPT ![E.index] = E.bytes] /\ ProjOk(E) ELSE Failed
TResize == /\ IsEvent("Resize")
           /\ IF E.index \in Live THEN E.ok /\ kv' = [kv EXCEPT ![E.index] = ResizeV(@, E.n)] /\ ProjOk(E) ELSE Failed
TMoveAt == /\ IsEvent("MoveAt")
           /\ IF E.index \in Live /\ E.from + E.n <= Len(kv[E.index])
              THEN E.ok /\ kv' = [kv EXCEPT ![E.index] = MoveV(@, E.from, E.to, E.n)] /\ ProjOk(E)
              ELSE Failed
TRemove == /\ IsEvent("Remove")
           /\ IF E.index \in Live THEN E.ok /\ kv' = [i \in Live \ {E.index} |-> kv[i]] /\ ProjOk(E) ELSE Failed
\* defragmentation: nothing changes, no unused space remains
TOptimize == /\ IsEvent("Optimize") /\ E.ok /\ kv' = kv /\ ProjOk(E)
             /\ E.free = <<>> /\ E.len = START + SumSizes(E.recs)
\* reopen: the same records at the same places, the same free regions (rebuilt from the file), same values
TReopen == /\ IsEvent("Reopen") /\ E.ok /\ kv' = kv /\ ProjOk(E)
           /\ Range(E.recs) = tbl.recs /\ Range(E.free) = tbl.free /\ E.len = tbl.len
\* a removed index cannot be read
TReadRemoved == IsEvent("ReadRemoved") /\ E.index \notin Live /\ ~E.ok /\ UNCHANGED <<kv, tbl>>

TNext == TReset \/ TInsert \/ TInsertAt \/ TReplace \/ TResize \/ TMoveAt \/ TRemove \/ TOptimize \/ TReopen \/ TReadRemoved
TraceSpec == TInit /\ [][TNext]_vars

TraceAccepted ==
  LET d == TLCGet("stats").diameter IN
  IF d - 1 = Len(Rec) THEN PrintT(<<"TRACE_ACCEPTED", Len(Rec)>>)
  ELSE PrintT(<<"TRACE_REJECTED", d, Rec[d].ev>>) /\ FALSE
==============================================================================
