------------------------------ MODULE WalStorage ------------------------------
(***************************************************************************)
(* FileStorage + WriteAheadLog of agdb at system-call grain.               *)
(*                                                                         *)
(* One action per mutating file-system call, in the order the code issues  *)
(* them (agdb/src/storage/file_storage.rs, write_ahead_log.rs):            *)
(*   StorageData::write(pos, bytes) = WalPos . WalLen . WalVal* . DataStep *)
(*   StorageData::resize(n)         = WalPos . WalLen . WalVal* . DataStep *)
(*   outermost commit (flush)       = End (set_len(0) on the log)          *)
(*   open / drop                    = Repair . ReplayStep* . ReplayDone    *)
(* A crash may happen in ANY state, therefore the recovery property is a   *)
(* plain state invariant (RecoverOK) and torn states are ordinary states.  *)
(*                                                                         *)
(* The log FILE is modelled as a flat sequence of cells: one cell for the  *)
(* 8-byte position, one for the 8-byte length, one per value byte.  What   *)
(* recovery sees is Recs(walfile): the complete records; an incomplete     *)
(* tail is discarded exactly as WriteAheadLog::repair does.                *)
(*                                                                         *)
(* The mechanism is parameterised so the SAME module describes the code    *)
(* before and after each repair; the .cfg files name the values that       *)
(* transcribe the current sources, and WalTrace binds them to the code.    *)
(***************************************************************************)
EXTENDS Naturals, Sequences, FiniteSets, TLC

CONSTANTS Byte,            \* payload bytes used by the exhaustive model
          InitData,        \* set of initial file contents
          MaxLen,          \* bound on the data file length (exhaustive model)
          MaxOps,          \* bound on StorageData calls
          MaxDepth,        \* bound on transaction nesting
          MaxCrash,        \* bound on crash/reopen events
          ReplayOrder,     \* "forward" (oldest record first) | "reverse"
          SkipEmptyWrite,  \* TRUE: write(pos, <<>>) returns before logging
          GrowLogsOldLen,  \* TRUE: a growing resize logs (old length, <<>>)
          AllowStraddle,   \* writes starting inside the file and ending beyond it
          TornData         \* TRUE: data writes reach the disk byte by byte

VARIABLES data,       \* the data file
          walfile,    \* the log file (cells)
          depth,      \* Storage's transaction nesting counter
          committed,  \* ghost: data when the last outermost transaction completed
          pc,         \* "idle" | "walpos" | "wallen" | "walval" | "data" | "repair" | "replay"
          cur,        \* the StorageData call in progress
          rp,         \* records still to be replayed (recovery in progress)
          nops, ncrash
vars == <<data, walfile, depth, committed, pc, cur, rp, nops, ncrash>>

Min(a, b) == IF a < b THEN a ELSE b
Max(a, b) == IF a > b THEN a ELSE b

Zeros(n) == [i \in 1..n |-> 0]

\* d with bytes b written at 0-based position p (zero fill when p is beyond the end)
Patch(d, p, b) ==
  IF b = <<>> THEN d
  ELSE LET pre == IF p <= Len(d) THEN SubSeq(d, 1, p) ELSE d \o Zeros(p - Len(d))
           post == IF p + Len(b) < Len(d) THEN SubSeq(d, p + Len(b) + 1, Len(d)) ELSE <<>>
       IN pre \o b \o post

SetLen(d, n) == IF n <= Len(d) THEN SubSeq(d, 1, n) ELSE d \o Zeros(n - Len(d))

\* FileStorage::apply_wal_record
ApplyRec(d, r) == IF r.bytes = <<>> THEN SetLen(d, r.pos) ELSE Patch(d, r.pos, r.bytes)

\* complete records of a log file; the incomplete tail is dropped (WriteAheadLog::repair)
RECURSIVE Recs(_)
Recs(w) == IF Len(w) < 2 THEN <<>>
           ELSE IF Len(w) < 2 + w[2] THEN <<>>
           ELSE <<[pos |-> w[1], bytes |-> SubSeq(w, 3, 2 + w[2])]>>
                \o Recs(SubSeq(w, 3 + w[2], Len(w)))

RECURSIVE GoodCells(_)
GoodCells(w) == IF Len(w) < 2 THEN 0
                ELSE IF Len(w) < 2 + w[2] THEN 0
                ELSE 2 + w[2] + GoodCells(SubSeq(w, 3 + w[2], Len(w)))

RECURSIVE Fwd(_, _)
Fwd(d, rs) == IF rs = <<>> THEN d ELSE Fwd(ApplyRec(d, Head(rs)), Tail(rs))

Reverse(s) == [i \in 1..Len(s) |-> s[Len(s) + 1 - i]]

ReplayList(w) == IF ReplayOrder = "forward" THEN Recs(w) ELSE Reverse(Recs(w))

\* what FileStorage::new yields for the current disk image
Recovered == Fwd(data, ReplayList(walfile))

NoCall == [op |-> "none", pos |-> 0, bytes |-> <<>>, rec |-> [pos |-> 0, bytes |-> <<>>], k |-> 0]

Init == /\ data \in InitData /\ walfile = <<>> /\ depth = 0 /\ committed = data
        /\ pc = "idle" /\ cur = NoCall /\ rp = <<>> /\ nops = 0 /\ ncrash = 0

\* Storage::transaction()
Begin == /\ pc = "idle" /\ depth < MaxDepth /\ depth' = depth + 1
         /\ UNCHANGED <<data, walfile, committed, pc, cur, rp, nops, ncrash>>

\* Storage::commit(): the outermost one flushes = clears the log (one set_len(0))
End == /\ pc = "idle" /\ depth > 0 /\ depth' = depth - 1
       /\ IF depth = 1 THEN walfile' = <<>> /\ committed' = data
                       ELSE UNCHANGED <<walfile, committed>>
       /\ UNCHANGED <<data, pc, cur, rp, nops, ncrash>>

\* the undo record FileStorage::write logs for write(p, b) on the current file
WriteRec(p, b) == [pos |-> p, bytes |-> SubSeq(data, p + 1, Min(Len(data), p + Len(b)))]

\* the undo record FileStorage::resize logs for resize(n) on the current file
ResizeRec(n) == IF n < Len(data) THEN [pos |-> n, bytes |-> SubSeq(data, n + 1, Len(data))]
                ELSE [pos |-> (IF GrowLogsOldLen THEN Len(data) ELSE n), bytes |-> <<>>]

\* StorageData::write(p, b)
StartWrite(p, b) ==
  /\ pc = "idle" /\ depth > 0
  /\ p <= Len(data)
  /\ AllowStraddle \/ p = Len(data) \/ p + Len(b) <= Len(data)
  /\ IF b = <<>> /\ SkipEmptyWrite
     THEN UNCHANGED <<pc, cur>>
     ELSE /\ cur' = [op |-> "write", pos |-> p, bytes |-> b, rec |-> WriteRec(p, b), k |-> 0]
          /\ pc' = "walpos"
  /\ UNCHANGED <<data, walfile, depth, committed, rp, ncrash>>

\* StorageData::resize(n)
StartResize(n) ==
  /\ pc = "idle" /\ depth > 0
  /\ cur' = [op |-> "resize", pos |-> n, bytes |-> <<>>, rec |-> ResizeRec(n), k |-> 0]
  /\ pc' = "walpos"
  /\ UNCHANGED <<data, walfile, depth, committed, rp, ncrash>>

\* WriteAheadLog::insert: write_all(pos)
WalPos == /\ pc = "walpos" /\ walfile' = Append(walfile, cur.rec.pos) /\ pc' = "wallen"
          /\ UNCHANGED <<data, depth, committed, cur, rp, nops, ncrash>>

\* WriteAheadLog::insert: write_all(len)
WalLen == /\ pc = "wallen" /\ walfile' = Append(walfile, Len(cur.rec.bytes))
          /\ pc' = IF cur.rec.bytes = <<>> THEN "data" ELSE "walval"
          /\ UNCHANGED <<data, depth, committed, cur, rp, nops, ncrash>>

\* WriteAheadLog::insert: write_all(value), n more bytes reach the disk (a torn write is a prefix)
WalVal(n) == /\ pc = "walval" /\ n >= 1 /\ cur.k + n <= Len(cur.rec.bytes)
             /\ walfile' = walfile \o SubSeq(cur.rec.bytes, cur.k + 1, cur.k + n)
             /\ IF cur.k + n = Len(cur.rec.bytes)
                THEN pc' = "data" /\ cur' = [cur EXCEPT !.k = 0]
                ELSE pc' = pc /\ cur' = [cur EXCEPT !.k = cur.k + n]
             /\ UNCHANGED <<data, depth, committed, rp, nops, ncrash>>

\* the data file system call: seek + write_all (n more bytes), or set_len
DataStep(n) ==
  /\ pc = "data"
  /\ IF cur.op = "resize"
     THEN /\ n = 0 /\ data' = SetLen(data, cur.pos) /\ pc' = "idle" /\ cur' = NoCall
     ELSE IF cur.bytes = <<>>
     THEN /\ n = 0 /\ data' = data /\ pc' = "idle" /\ cur' = NoCall
     ELSE /\ n >= 1 /\ cur.k + n <= Len(cur.bytes)
          /\ data' = Patch(data, cur.pos + cur.k, SubSeq(cur.bytes, cur.k + 1, cur.k + n))
          /\ IF cur.k + n = Len(cur.bytes)
             THEN pc' = "idle" /\ cur' = NoCall
             ELSE pc' = pc /\ cur' = [cur EXCEPT !.k = cur.k + n]
  /\ UNCHANGED <<walfile, depth, committed, rp, nops, ncrash>>

\* the process dies (any state), or the storage is dropped with an unfinished transaction;
\* the next thing that happens to the files is FileStorage::new / Drop: repair, replay, clear.
Crash == /\ ncrash < MaxCrash /\ ncrash' = ncrash + 1
         /\ pc' = "repair" /\ depth' = 0 /\ cur' = NoCall /\ rp' = <<>>
         /\ UNCHANGED <<data, walfile, committed, nops>>

\* WriteAheadLog::repair: cut the incomplete tail (set_len), then FileStorage::apply_wal reads the records
Repair == /\ pc = "repair"
          /\ walfile' = SubSeq(walfile, 1, GoodCells(walfile))
          /\ rp' = ReplayList(walfile)
          /\ pc' = "replay"
          /\ UNCHANGED <<data, depth, committed, cur, nops, ncrash>>

\* FileStorage::apply_wal_record
ReplayStep == /\ pc = "replay" /\ rp # <<>>
              /\ data' = ApplyRec(data, Head(rp)) /\ rp' = Tail(rp)
              /\ UNCHANGED <<walfile, depth, committed, pc, cur, nops, ncrash>>

\* WriteAheadLog::clear at the end of apply_wal
ReplayDone == /\ pc = "replay" /\ rp = <<>>
              /\ walfile' = <<>> /\ pc' = "idle"
              /\ UNCHANGED <<data, depth, committed, cur, rp, nops, ncrash>>

Bytes == {<<>>} \cup {<<x>> : x \in Byte} \cup {<<x, y>> : x \in Byte, y \in Byte}

Next == \/ Begin \/ End \/ WalPos \/ WalLen \/ Crash \/ Repair \/ ReplayStep \/ ReplayDone
        \/ \E n \in 1..MaxLen : (IF TornData THEN n = 1 ELSE n = Len(cur.rec.bytes) - cur.k) /\ WalVal(n)
        \/ \E n \in 0..MaxLen : (IF TornData THEN n <= 1 ELSE n = Len(cur.bytes) - cur.k) /\ DataStep(n)
        \/ /\ nops < MaxOps /\ nops' = nops + 1
           /\ \/ \E p \in 0..MaxLen, b \in Bytes : p + Len(b) <= MaxLen /\ StartWrite(p, b)
              \/ \E n \in 0..MaxLen : StartResize(n)

Spec == Init /\ [][Next]_vars

(***************************************************************************)
(* Properties (C01)                                                        *)
(***************************************************************************)
\* reopening the current disk image yields the last committed content - in EVERY state
RecoverOK == Recovered = committed

\* outside any transaction nothing is pending and the file is the committed content
IdleClean == (depth = 0 /\ pc = "idle") => (walfile = <<>> /\ data = committed)
================================================================================
