SPECIFICATION TraceSpec
CONSTANTS
 Byte = {}
 InitData = {}
 MaxLen = 0
 MaxOps = 0
 MaxDepth = 0
 MaxCrash = 0
 ReplayOrder = "reverse"
 SkipEmptyWrite = TRUE
 GrowLogsOldLen = TRUE
 AllowStraddle = TRUE
 TornData = FALSE
POSTCONDITION TraceAccepted
CHECK_DEADLOCK FALSE
