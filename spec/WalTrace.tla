------------------------------ MODULE WalTrace ------------------------------
(***************************************************************************)
(* Trace validation for WalStorage: decides whether a system-call level    *)
(* execution recorded from the real FileStorage / WriteAheadLog (hook H1)  *)
(* is a behaviour of WalStorage, and evaluates the C01 property on it:     *)
(* every Probe event carries what the REAL FileStorage::new recovered from *)
(* the disk image at that instant; it must equal the specification's       *)
(* `committed` ghost.                                                      *)
(*                                                                         *)
(* Events (ndjson, one per line; file named by env TRACE):                 *)
(*   Reset | Call{op,tx} | Ret{ok} | Probe{ok,rec} | Crash{torn} | Drop |   *)
(*   Dropped | Close | Closed{ok,rec} |                                    *)
(*   WalWrite{bytes} | WalSetLen{len} | DataWrite{pos,bytes} | DataSetLen  *)
(* Panic / OpenFailed events have no action: the trace is rejected there.  *)
(***************************************************************************)
EXTENDS WalStorage, Json, IOUtils

Rec == ndJsonDeserialize(IOEnv.TRACE)

VARIABLES l,        \* next event
          udepth,   \* nesting of the DRIVER's explicit transaction()/commit() calls
          incall,   \* inside an API call (system calls happen only there)
          junk      \* bytes of a torn 8-byte cell at the end of the log file (crash only)
tvars == <<vars, l, udepth, incall, junk>>

Ev == Rec[l]
IsEvent(e) == l <= Len(Rec) /\ Rec[l].ev = e /\ l' = l + 1

IsLE(b) == Len(b) = 8 /\ \A i \in 4..8 : b[i] = 0
LE(b) == b[1] + 256 * b[2] + 65536 * b[3]

\* byte length of the complete records of a log file given as cells
RECURSIVE GoodBytes(_)
GoodBytes(w) == IF Len(w) < 2 THEN 0
                ELSE IF Len(w) < 2 + w[2] THEN 0
                ELSE 16 + w[2] + GoodBytes(SubSeq(w, 3 + w[2], Len(w)))

TInit == /\ data = <<>> /\ walfile = <<>> /\ depth = 1 /\ committed = <<>>
         /\ pc = "idle" /\ cur = NoCall /\ rp = <<>> /\ nops = 0 /\ ncrash = 0
         /\ l = 1 /\ udepth = 0 /\ incall = FALSE /\ junk = 0

TReset == /\ IsEvent("Reset")
          /\ data' = <<>> /\ walfile' = <<>> /\ committed' = <<>> /\ pc' = "idle" /\ cur' = NoCall
          /\ rp' = <<>> /\ udepth' = 0 /\ incall' = FALSE /\ junk' = 0
          /\ UNCHANGED <<depth, nops, ncrash>>

TCall == /\ IsEvent("Call") /\ ~incall /\ pc \in {"idle", "repair", "replay"}
         /\ incall' = TRUE /\ udepth' = udepth + Ev.tx
         /\ udepth' >= 0
         /\ UNCHANGED <<vars, junk>>

\* a completed call outside any driver transaction must be durable: log empty, file = committed
TRet == /\ IsEvent("Ret") /\ incall /\ pc = "idle"
        /\ (Ev.ok /\ udepth = 0) => (walfile = <<>> /\ committed = data)
        /\ incall' = FALSE
        /\ UNCHANGED <<vars, udepth, junk>>

\* C01: the real recovery of the current disk image yields the committed content
TProbe == /\ IsEvent("Probe") /\ Ev.ok
          /\ Ev.rec = committed
          /\ IF junk = 0 /\ Recovered # Ev.rec THEN PrintT(<<"MODEL-DRIFT", l>>) ELSE TRUE
          /\ UNCHANGED <<vars, udepth, incall, junk>>

\* first write_all of a log record: the call it belongs to is identified by the data
\* system call that follows the record (look-ahead in the recorded trace).  If the process
\* dies before that data call (a Crash event comes first) the call is unknown and irrelevant:
\* only the bytes that reached the log matter, and those are bound from the events.
AheadEvs == {"DataWrite", "DataSetLen", "Crash"}
NextIdx == LET js == {j \in (l + 1)..Min(l + 8, Len(Rec)) : Rec[j].ev \in AheadEvs}
           IN IF js = {} THEN 0 ELSE CHOOSE j \in js : \A k \in js : j <= k

TWalPos ==
  /\ IsEvent("WalWrite") /\ incall /\ pc = "idle" /\ IsLE(Ev.bytes)
  /\ NextIdx # 0
  /\ LET d == Rec[NextIdx] IN
       /\ IF d.ev = "DataWrite"
          THEN /\ d.pos <= Len(data)
               /\ ~(d.bytes = <<>> /\ SkipEmptyWrite)
               /\ cur' = [op |-> "write", pos |-> d.pos, bytes |-> d.bytes,
                          rec |-> WriteRec(d.pos, d.bytes), k |-> 0]
          ELSE IF d.ev = "DataSetLen"
          THEN cur' = [op |-> "resize", pos |-> d.len, bytes |-> <<>>, rec |-> ResizeRec(d.len), k |-> 0]
          ELSE cur' = [op |-> "doomed", pos |-> 0, bytes |-> <<>>,
                       rec |-> [pos |-> LE(Ev.bytes), bytes |-> <<>>], k |-> 0]
       /\ LE(Ev.bytes) = cur'.rec.pos
       /\ walfile' = Append(walfile, cur'.rec.pos)
       /\ pc' = "wallen"
  /\ UNCHANGED <<data, depth, committed, rp, nops, ncrash, udepth, incall, junk>>

TWalLen == /\ IsEvent("WalWrite") /\ pc = "wallen" /\ IsLE(Ev.bytes)
           /\ IF cur.op = "doomed"
              THEN /\ walfile' = Append(walfile, LE(Ev.bytes))
                   /\ pc' = IF LE(Ev.bytes) = 0 THEN "data" ELSE "walval"
                   /\ UNCHANGED <<data, depth, committed, cur, rp, nops, ncrash>>
              ELSE /\ LE(Ev.bytes) = Len(cur.rec.bytes)
                   /\ WalLen
           /\ UNCHANGED <<udepth, incall, junk>>

TWalVal == /\ IsEvent("WalWrite") /\ pc = "walval"
           /\ IF cur.op = "doomed"
              THEN /\ Len(Ev.bytes) = walfile[Len(walfile)]
                   /\ walfile' = walfile \o Ev.bytes /\ pc' = "data"
                   /\ UNCHANGED <<data, depth, committed, cur, rp, nops, ncrash>>
              ELSE /\ Ev.bytes = cur.rec.bytes
                   /\ WalVal(Len(cur.rec.bytes))
           /\ UNCHANGED <<udepth, incall, junk>>

\* write_all of an empty value: a system call without effect
TWalEmpty == /\ IsEvent("WalWrite") /\ pc = "data" /\ Ev.bytes = <<>>
             /\ (cur.op # "doomed" => cur.rec.bytes = <<>>)
             /\ UNCHANGED <<vars, udepth, incall, junk>>

TDataWrite == /\ IsEvent("DataWrite") /\ pc = "data" /\ cur.op = "write"
              /\ Ev.pos = cur.pos /\ Ev.bytes = cur.bytes
              /\ DataStep(Len(cur.bytes))
              /\ UNCHANGED <<udepth, incall, junk>>

TDataSetLen == /\ IsEvent("DataSetLen") /\ pc = "data" /\ cur.op = "resize"
               /\ Ev.len = cur.pos
               /\ DataStep(0)
               /\ UNCHANGED <<udepth, incall, junk>>

\* flush at the end of an outermost transaction - never inside a driver transaction
TWalClear == /\ IsEvent("WalSetLen") /\ Ev.len = 0 /\ pc = "idle" /\ incall
             /\ udepth = 0
             /\ walfile' = <<>> /\ committed' = data
             /\ UNCHANGED <<data, depth, pc, cur, rp, nops, ncrash, udepth, incall, junk>>

\* the process dies; part of the pending write may have reached the disk
TornApplied(t) ==
  IF t.file = "wal"
  THEN IF pc = "walval"
       THEN /\ walfile' = walfile \o t.bytes /\ junk' = 0 /\ data' = data
       ELSE /\ walfile' = walfile /\ junk' = Len(t.bytes) /\ data' = data
  ELSE IF t.file = "data"
  THEN /\ walfile' = walfile /\ junk' = 0 /\ data' = Patch(data, t.pos, t.bytes)
  ELSE /\ walfile' = walfile /\ junk' = 0 /\ data' = data

TCrashCommon == /\ depth' = depth /\ cur' = NoCall /\ udepth' = 0
                /\ UNCHANGED <<committed, nops, ncrash>>
                /\ IF GoodCells(walfile') < Len(walfile') \/ junk' > 0
                   THEN pc' = "repair" /\ rp' = <<>>
                   ELSE pc' = "replay" /\ rp' = ReplayList(walfile')

TCrash == /\ IsEvent("Crash") /\ TornApplied(Ev.torn) /\ incall' = FALSE /\ TCrashCommon

\* drop with an unfinished transaction: same recovery steps, executed by Drop for FileStorage
TDrop == /\ IsEvent("Drop") /\ ~incall /\ pc = "idle"
         /\ walfile' = walfile /\ junk' = 0 /\ data' = data /\ incall' = TRUE /\ TCrashCommon

TDropped == /\ IsEvent("Dropped") /\ incall /\ pc = "idle" /\ walfile = <<>> /\ data = committed
            /\ incall' = FALSE /\ UNCHANGED <<vars, udepth, junk>>

TClose == /\ IsEvent("Close") /\ ~incall /\ pc = "idle" /\ udepth = 0
          /\ incall' = TRUE /\ UNCHANGED <<vars, udepth, junk>>

\* after the storage is closed the file on disk is the committed content, and recovers to itself
TClosed == /\ IsEvent("Closed") /\ incall /\ pc = "idle" /\ Ev.ok
           /\ walfile = <<>> /\ Ev.rec = committed /\ Ev.rec = data
           /\ incall' = FALSE /\ UNCHANGED <<vars, udepth, junk>>

\* WriteAheadLog::repair cuts the incomplete tail
TRepair == /\ IsEvent("WalSetLen") /\ pc = "repair"
           /\ Ev.len = GoodBytes(walfile)
           /\ Repair /\ junk' = 0
           /\ UNCHANGED <<udepth, incall>>

TReplayWrite == /\ IsEvent("DataWrite") /\ pc = "replay" /\ rp # <<>>
                /\ Head(rp).bytes # <<>> /\ Ev.pos = Head(rp).pos /\ Ev.bytes = Head(rp).bytes
                /\ ReplayStep
                /\ UNCHANGED <<udepth, incall, junk>>

TReplaySetLen == /\ IsEvent("DataSetLen") /\ pc = "replay" /\ rp # <<>>
                 /\ Head(rp).bytes = <<>> /\ Ev.len = Head(rp).pos
                 /\ ReplayStep
                 /\ UNCHANGED <<udepth, incall, junk>>

TReplayDone == /\ IsEvent("WalSetLen") /\ Ev.len = 0 /\ pc = "replay"
               /\ ReplayDone
               /\ UNCHANGED <<udepth, incall, junk>>

TNext == \/ TReset \/ TCall \/ TRet \/ TProbe \/ TWalPos \/ TWalLen \/ TWalVal \/ TWalEmpty
         \/ TDataWrite \/ TDataSetLen \/ TWalClear \/ TCrash \/ TDrop \/ TDropped \/ TClose \/ TClosed
         \/ TRepair \/ TReplayWrite \/ TReplaySetLen \/ TReplayDone

TraceSpec == TInit /\ [][TNext]_tvars

TraceAccepted ==
  LET d == TLCGet("stats").diameter IN
  IF d - 1 = Len(Rec) THEN PrintT(<<"TRACE_ACCEPTED", Len(Rec)>>)
  ELSE PrintT(<<"TRACE_REJECTED", d, Rec[d].ev>>) /\ FALSE
================================================================================
