SPECIFICATION Spec
CONSTANTS N = 3
 MaxTerm = 4
 MaxLog = 1
 Values = {1}
 AppendAnywhere = FALSE
 FixVote = FALSE
 MaxTmo = 50
 MaxHb = 50
 MaxFlight = 50
 K = 8
VIEW View
CONSTRAINT Constraint
INVARIANT Converged
INVARIANT ElectionSafety
CHECK_DEADLOCK FALSE
