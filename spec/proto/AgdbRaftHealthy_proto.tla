------------------------------ MODULE AgdbRaftHealthy_proto ------------------------------
(* Prototype (round 0, throw-away): agdb_server/src/raft.rs, free timers.   *)
EXTENDS Naturals, Sequences, FiniteSets, TLC

CONSTANTS N, MaxTerm, MaxLog, Values, AppendAnywhere, FixVote, MaxTmo, MaxHb, MaxFlight, K

Node == 0..(N-1)
Peers(n) == Node \ {n}

VARIABLES st, sa, term, log, lcommit, voted, view, msgs, tmo, hb, age, etk, hbAge, T,
          leaders, lcommitted    \* history

vars == <<st, sa, term, log, lcommit, voted, view, msgs, tmo, hb, age, etk, hbAge, T, leaders, lcommitted>>
View == <<st, sa, term, log, lcommit, voted, view, msgs, age, etk, hbAge, T>>

LIdx(n)  == Len(log[n])
LTerm(n) == IF Len(log[n]) = 0 THEN 0 ELSE log[n][Len(log[n])].term

Req(ty, f, t, tm, es) ==
  [k |-> "req", ty |-> ty, from |-> f, to |-> t, term |-> tm,
   lidx |-> LIdx(f), lterm |-> LTerm(f), lcommit |-> lcommit[f], es |-> es]

\* request built from primed/explicit values
ReqX(ty, f, t, tm, li, lt, lc, es) ==
  [k |-> "req", ty |-> ty, from |-> f, to |-> t, term |-> tm,
   lidx |-> li, lterm |-> lt, lcommit |-> lc, es |-> es]

Resp(r, res, val) == [k |-> "resp", req |-> r, res |-> res, val |-> val]

Init ==
  /\ st = [n \in Node |-> IF N = 1 THEN "Leader" ELSE "Election"]
  /\ sa = [n \in Node |-> 0]
  /\ term = [n \in Node |-> IF N = 1 THEN 1 ELSE 0]
  /\ log = [n \in Node |-> <<>>]
  /\ lcommit = [n \in Node |-> 0]
  /\ voted = [n \in Node |-> {n}]
  /\ view = [n \in Node |-> [p \in Node |-> 0]]   \* nodes[p].log_index as seen by n (only field used)
  /\ msgs = {}
  /\ tmo = 0 /\ hb = 0
  /\ age = [n \in Node |-> 0] /\ etk = [n \in Node |-> "first"] /\ hbAge = [n \in Node |-> 0] /\ T = 0
  /\ leaders = {}
  /\ lcommitted = {}

ElectionDue(n) == age[n] >= (IF etk[n] = "first" THEN n ELSE 1)
Send(ms) == msgs' = msgs \cup ms
Reply(m, ms) == msgs' = (msgs \ {m}) \cup ms

-----------------------------------------------------------------------------
\* process(): timers (free)
ProcElectionTimeout(n) ==
  /\ st[n] = "Election"
  /\ term[n] + 1 <= MaxTerm
  /\ ElectionDue(n)
  /\ age' = [age EXCEPT ![n] = 0] /\ etk' = [etk EXCEPT ![n] = "hb"] /\ UNCHANGED <<hbAge, T>>
  /\ tmo < MaxTmo /\ tmo' = tmo + 1 /\ UNCHANGED hb
  /\ voted' = [voted EXCEPT ![n] = {n}]
  /\ Send({Req("PreVote", n, p, term[n] + 1, <<>>) : p \in Peers(n)})
  /\ UNCHANGED <<st, sa, term, log, lcommit, view, leaders, lcommitted>>

ProcTermTimeout(n) ==
  /\ st[n] # "Leader" /\ ~(st[n] = "Election" /\ ElectionDue(n)) /\ age[n] > 3
  /\ age' = [age EXCEPT ![n] = 0] /\ etk' = [etk EXCEPT ![n] = "first"] /\ UNCHANGED <<hbAge, T>>
  /\ tmo < MaxTmo /\ tmo' = tmo + 1 /\ UNCHANGED hb
  /\ st' = [st EXCEPT ![n] = "Election"]
  /\ UNCHANGED <<sa, term, log, lcommit, voted, view, msgs, leaders, lcommitted>>

ProcHeartbeat(n) ==
  /\ st[n] = "Leader" /\ hbAge[n] >= 2
  /\ hbAge' = [hbAge EXCEPT ![n] = 0] /\ UNCHANGED <<age, etk, T>>
  /\ hb < MaxHb /\ hb' = hb + 1 /\ UNCHANGED tmo
  /\ Send({Req("Heartbeat", n, p, term[n], <<>>) : p \in Peers(n)})
  /\ UNCHANGED <<st, sa, term, log, lcommit, voted, view, leaders, lcommitted>>

-----------------------------------------------------------------------------
LogBehind(n, m) == LIdx(n) > m.lidx \/ LTerm(n) > m.lterm \/ lcommit[n] > m.lcommit

OnPreVote(m) ==
  LET n == m.to IN
  /\ m.k = "req" /\ m.ty = "PreVote"
  /\ st[n] # "Leader"
  \* Follower within term timeout rejects; free timer: either branch
  /\ ~LogBehind(n, m)
  /\ Reply(m, {Resp(m, "Ok", 0)})
  /\ UNCHANGED <<st, sa, term, log, lcommit, voted, view, leaders, lcommitted>>
  /\ ~(st[m.to] = "Follower" /\ age[m.to] <= 3)
  /\ UNCHANGED <<age, etk, hbAge>> /\ UNCHANGED <<tmo, hb, T>>

OnPreVoteOk(r) ==
  LET n == r.req.from IN
  /\ r.k = "resp" /\ r.req.ty = "PreVote" /\ r.res = "Ok"
  /\ st[n] = "Election"
  /\ LET v == voted[n] \cup {r.req.to} IN
     IF Cardinality(v) > N \div 2 /\ term[n] + 1 <= MaxTerm
     THEN /\ term' = [term EXCEPT ![n] = term[n] + 1]
          /\ st' = [st EXCEPT ![n] = "Candidate"]
          /\ voted' = [voted EXCEPT ![n] = {n}]
          /\ Reply(r, {ReqX("Vote", n, p, term[n] + 1, LIdx(n), LTerm(n), lcommit[n], <<>>) : p \in Peers(n)})
     ELSE /\ voted' = [voted EXCEPT ![n] = v]
          /\ Reply(r, {}) /\ UNCHANGED <<term, st>>
  /\ UNCHANGED <<sa, log, lcommit, view, leaders, lcommitted>>
  /\ age' = IF st'[r.req.from] = "Candidate" THEN [age EXCEPT ![r.req.from] = 0] ELSE age
  /\ UNCHANGED <<etk, hbAge>> /\ UNCHANGED <<tmo, hb, T>>

OnVote(m) ==
  LET n == m.to IN
  /\ m.k = "req" /\ m.ty = "Vote"
  /\ IF st[n] \in {"Leader", "Candidate", "Follower"} \/ (st[n] = "Voted" /\ m.term <= sa[n])
     THEN Reply(m, {}) /\ UNCHANGED <<st, sa>>
     ELSE IF term[n] >= m.term
          THEN Reply(m, {Resp(m, "TermMismatch", term[n])}) /\ UNCHANGED <<st, sa>>
          ELSE IF LogBehind(n, m)
               THEN Reply(m, {}) /\ UNCHANGED <<st, sa>>
               ELSE /\ st' = [st EXCEPT ![n] = "Voted"]
                    /\ sa' = [sa EXCEPT ![n] = m.term]
                    /\ Reply(m, {Resp(m, "Ok", 0)})
  /\ term' = IF FixVote /\ st'[n] = "Voted" /\ (st[n] # "Voted" \/ sa'[n] # sa[n]) THEN [term EXCEPT ![n] = m.term] ELSE term
  /\ UNCHANGED <<log, lcommit, voted, view, leaders, lcommitted>>
  /\ age' = [age EXCEPT ![m.to] = 0] /\ UNCHANGED <<etk, hbAge>> /\ UNCHANGED <<tmo, hb, T>>

OnVoteOk(r) ==
  LET n == r.req.from IN
  /\ r.k = "resp" /\ r.req.ty = "Vote" /\ r.res = "Ok"
  /\ st[n] = "Candidate"
  /\ LET v == voted[n] \cup {r.req.to} IN
     IF Cardinality(v) > N \div 2
     THEN /\ st' = [st EXCEPT ![n] = "Leader"]
          /\ term' = [term EXCEPT ![n] = r.req.term]
          /\ voted' = [voted EXCEPT ![n] = v]
          /\ leaders' = leaders \cup {<<n, r.req.term>>}
          /\ Reply(r, {ReqX("Heartbeat", n, p, r.req.term, LIdx(n), LTerm(n), lcommit[n], <<>>) : p \in Peers(n)})
     ELSE /\ voted' = [voted EXCEPT ![n] = v]
          /\ Reply(r, {}) /\ UNCHANGED <<st, term, leaders>>
  /\ UNCHANGED <<sa, log, lcommit, view, lcommitted>>
  /\ hbAge' = IF st'[r.req.from] = "Leader" THEN [hbAge EXCEPT ![r.req.from] = 0] ELSE hbAge
  /\ UNCHANGED <<age, etk>> /\ UNCHANGED <<tmo, hb, T>>

OnTermMismatch(r) ==
  LET n == r.req.from IN
  /\ r.k = "resp" /\ r.res = "TermMismatch"
  /\ r.val > term[n]
  /\ term' = [term EXCEPT ![n] = r.val]
  /\ st' = [st EXCEPT ![n] = "Election"]
  /\ Reply(r, {}) /\ UNCHANGED <<sa, log, lcommit, voted, view, leaders, lcommitted>>
  /\ age' = [age EXCEPT ![r.req.from] = 0] /\ etk' = [etk EXCEPT ![r.req.from] = "first"] /\ UNCHANGED hbAge /\ UNCHANGED <<tmo, hb, T>>

OnHeartbeat(m) ==
  LET n == m.to IN
  /\ m.k = "req" /\ m.ty = "Heartbeat"
  /\ IF term[n] > m.term
     THEN Reply(m, {Resp(m, "TermMismatch", term[n])}) /\ UNCHANGED <<st, sa, term, lcommit>>
     ELSE /\ term' = [term EXCEPT ![n] = m.term]
          /\ st' = [st EXCEPT ![n] = "Follower"]
          /\ sa' = [sa EXCEPT ![n] = m.from]
          /\ IF LIdx(n) # m.lidx \/ LTerm(n) # m.lterm
             THEN Reply(m, {Resp(m, "LogMismatch", lcommit[n])}) /\ UNCHANGED lcommit
             ELSE /\ lcommit' = [lcommit EXCEPT ![n] = IF lcommit[n] < m.lcommit THEN m.lcommit ELSE lcommit[n]]
                  /\ Reply(m, {Resp(m, "Ok", 0)})
  /\ UNCHANGED <<log, voted, view, leaders, lcommitted>>
  /\ age' = [age EXCEPT ![m.to] = 0] /\ UNCHANGED <<etk, hbAge>> /\ UNCHANGED <<tmo, hb, T>>

\* sequential processing of the entries of an append request
RECURSIVE ApplyEntries(_, _, _, _)
\* returns [log, commit, ok, c]
ApplyEntries(lg, cm, es, reqCommit) ==
  IF es = <<>> THEN [log |-> lg, commit |-> cm, ok |-> TRUE]
  ELSE LET e == Head(es)
           li == Len(lg)
           lt == IF li = 0 THEN 0 ELSE lg[li].term
           acc == IF lt = e.term
                  THEN IF li >= e.idx THEN "skip"
                       ELSE IF cm < e.idx /\ li + 1 = e.idx THEN "app" ELSE "err"
                  ELSE IF lt < e.term /\ cm < e.idx /\ li + 1 >= e.idx THEN "app" ELSE "err"
       IN IF acc = "err" THEN [log |-> lg, commit |-> cm, ok |-> FALSE]
          ELSE LET lg2 == IF acc = "app" THEN Append(SubSeq(lg, 1, e.idx - 1), [term |-> e.term, val |-> e.val]) ELSE lg
                   cm2 == IF e.idx <= reqCommit /\ cm < e.idx THEN e.idx ELSE cm
               IN ApplyEntries(lg2, cm2, Tail(es), reqCommit)

OnAppend(m) ==
  LET n == m.to IN
  /\ m.k = "req" /\ m.ty = "Append"
  /\ IF term[n] > m.term
     THEN Reply(m, {Resp(m, "TermMismatch", term[n])}) /\ UNCHANGED <<st, sa, term, log, lcommit>>
     ELSE LET r == ApplyEntries(log[n], lcommit[n], m.es, m.lcommit) IN
          /\ term' = [term EXCEPT ![n] = m.term]
          /\ st' = [st EXCEPT ![n] = "Follower"]
          /\ sa' = [sa EXCEPT ![n] = m.from]
          /\ log' = [log EXCEPT ![n] = r.log]
          /\ lcommit' = [lcommit EXCEPT ![n] = r.commit]
          /\ IF r.ok THEN Reply(m, {Resp(m, "Ok", 0)})
                     ELSE Reply(m, {Resp(m, "LogMismatch", r.commit)})
  /\ UNCHANGED <<voted, view, leaders, lcommitted>>
  /\ age' = [age EXCEPT ![m.to] = 0] /\ UNCHANGED <<etk, hbAge>> /\ UNCHANGED <<tmo, hb, T>>

OnReplOk(r) ==
  LET n == r.req.from
      p == r.req.to IN
  /\ r.k = "resp" /\ r.req.ty \in {"Heartbeat", "Append"} /\ r.res = "Ok"
  /\ st[n] = "Leader"
  /\ LET vw == [view[n] EXCEPT ![p] = r.req.lidx, ![n] = LIdx(n)]
         cnt == Cardinality({q \in Node : vw[q] >= r.req.lidx}) IN
     /\ view' = [view EXCEPT ![n] = vw]
     /\ IF lcommit[n] < r.req.lidx /\ cnt >= (N \div 2) + 1
        THEN /\ lcommit' = [lcommit EXCEPT ![n] = r.req.lidx]
             /\ lcommitted' = lcommitted \cup
                   {<<i, log[n][i]>> : i \in (lcommit[n]+1)..(IF r.req.lidx <= LIdx(n) THEN r.req.lidx ELSE LIdx(n))}
             /\ Reply(r, {ReqX("Heartbeat", n, q, term[n], LIdx(n), LTerm(n), r.req.lidx, <<>>) : q \in Peers(n)})
        ELSE Reply(r, {}) /\ UNCHANGED <<lcommit, lcommitted>>
  /\ UNCHANGED <<st, sa, term, log, voted, leaders>>
  /\ hbAge' = IF lcommit'[r.req.from] # lcommit[r.req.from] THEN [hbAge EXCEPT ![r.req.from] = 0] ELSE hbAge
  /\ UNCHANGED <<age, etk>> /\ UNCHANGED <<tmo, hb, T>>

OnLogMismatch(r) ==
  LET n == r.req.from
      p == r.req.to IN
  /\ r.k = "resp" /\ r.req.ty \in {"Heartbeat", "Append"} /\ r.res = "LogMismatch"
  /\ st[n] = "Leader"
  /\ LET es == [i \in 1..(LIdx(n) - (IF r.val <= LIdx(n) THEN r.val ELSE LIdx(n))) |->
                  [idx |-> r.val + i, term |-> log[n][r.val + i].term, val |-> log[n][r.val + i].val]] IN
     Reply(r, {Req("Append", n, p, term[n], es)})
  /\ UNCHANGED <<st, sa, term, log, lcommit, voted, view, leaders, lcommitted>>
  /\ UNCHANGED <<age, etk, hbAge>> /\ UNCHANGED <<tmo, hb, T>>

ClientAppend(n, v) ==
  /\ st[n] = "Leader" \/ AppendAnywhere
  /\ Len(log[n]) < MaxLog
  /\ T + 4 <= K /\ UNCHANGED <<age, etk, hbAge>> /\ UNCHANGED <<tmo, hb, T>>
  /\ LET e == [term |-> term[n], val |-> v]
         lg == Append(log[n], e) IN
     /\ log' = [log EXCEPT ![n] = lg]
     /\ Send({ReqX("Append", n, p, term[n], Len(lg), term[n], lcommit[n],
                   <<[idx |-> Len(lg), term |-> term[n], val |-> v]>>) : p \in Peers(n)})
  /\ UNCHANGED <<st, sa, term, lcommit, voted, view, leaders, lcommitted>>

Guard(m) ==
  IF m.k = "req"
  THEN (m.ty = "PreVote" => (st[m.to] # "Leader" /\ ~(st[m.to] = "Follower" /\ age[m.to] <= 3) /\ ~LogBehind(m.to, m)))
  ELSE CASE m.res = "TermMismatch" -> m.val > term[m.req.from]
         [] m.res = "Ok" /\ m.req.ty = "PreVote" -> st[m.req.from] = "Election"
         [] m.res = "Ok" /\ m.req.ty = "Vote" -> st[m.req.from] = "Candidate"
         [] OTHER -> st[m.req.from] = "Leader"
Discard(m) == /\ ~Guard(m) /\ msgs' = msgs \ {m}
              /\ UNCHANGED <<st, sa, term, log, lcommit, voted, view, tmo, hb, age, etk, hbAge, T, leaders, lcommitted>>

ProcEnabled(n) == \/ (st[n] = "Election" /\ ElectionDue(n) /\ term[n] + 1 <= MaxTerm)
                  \/ (st[n] # "Leader" /\ ~(st[n] = "Election" /\ ElectionDue(n)) /\ age[n] > 3)
                  \/ (st[n] = "Leader" /\ hbAge[n] >= 2)
Tick == /\ msgs = {} /\ \A n \in Node : ~ProcEnabled(n)
        /\ age' = [n \in Node |-> IF age[n] < 5 THEN age[n] + 1 ELSE 5]
        /\ hbAge' = [n \in Node |-> IF hbAge[n] < 3 THEN hbAge[n] + 1 ELSE 3]
        /\ T' = T + 1
        /\ UNCHANGED <<st, sa, term, log, lcommit, voted, view, msgs, tmo, hb, etk, leaders, lcommitted>>

Next ==
  \/ Tick
  \/ \E m \in msgs : Discard(m)
  \/ \E n \in Node : ProcElectionTimeout(n) \/ ProcTermTimeout(n) \/ ProcHeartbeat(n)
  \/ \E n \in Node, v \in Values : ClientAppend(n, v)
  \/ \E m \in msgs : OnPreVote(m) \/ OnPreVoteOk(m) \/ OnVote(m) \/ OnVoteOk(m) \/ OnTermMismatch(m)
                     \/ OnHeartbeat(m) \/ OnAppend(m) \/ OnReplOk(m) \/ OnLogMismatch(m)

Spec == Init /\ [][Next]_vars

-----------------------------------------------------------------------------
ElectionSafety == \A a, b \in leaders : a[2] = b[2] => a[1] = b[1]

Min(a, b) == IF a < b THEN a ELSE b
CommitAgreement ==
  \A a, b \in Node : \A i \in 1..Min(Min(lcommit[a], Len(log[a])), Min(lcommit[b], Len(log[b]))) : log[a][i] = log[b][i]

CommitWithinLog == \A n \in Node : lcommit[n] <= Len(log[n])

LeaderCompleteness ==
  \A n \in Node : st[n] = "Leader" =>
     \A c \in lcommitted : c[2].term < term[n] => (Len(log[n]) >= c[1] /\ log[n][c[1]] = c[2])

Constraint == /\ \A n \in Node : term[n] <= MaxTerm /\ Len(log[n]) <= MaxLog
              /\ T <= K
              /\ Cardinality(msgs) <= MaxFlight
Converged == (T >= K /\ msgs = {}) =>
   /\ Cardinality({n \in Node : st[n] = "Leader"}) = 1
   /\ \A a, b \in Node : log[a] = log[b]
   /\ \A n \in Node : lcommit[n] = Len(log[n])
=============================================================================
