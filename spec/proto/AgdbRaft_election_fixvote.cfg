SPECIFICATION Spec
CONSTANTS N = 3
 MaxTerm = 2
 MaxLog = 0
 Values = {1}
 AppendAnywhere = FALSE
 FixVote = TRUE
 MaxTmo = 4
 MaxHb = 1
 MaxFlight = 5
VIEW View
CONSTRAINT Constraint
INVARIANT ElectionSafety
CHECK_DEADLOCK FALSE
