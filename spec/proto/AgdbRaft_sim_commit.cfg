SPECIFICATION Spec
CONSTANTS N = 3
 MaxTerm = 2
 MaxLog = 2
 Values = {1}
 AppendAnywhere = FALSE
 FixVote = TRUE
 MaxTmo = 6
 MaxHb = 3
 MaxFlight = 8
VIEW View
CONSTRAINT Constraint
INVARIANT ElectionSafety
INVARIANT CommitAgreement
INVARIANT CommitWithinLog
INVARIANT LeaderCompleteness
CHECK_DEADLOCK FALSE
