SPECIFICATION Spec
CONSTANTS MaxLog = 3
 Sequential = FALSE
 WithRestart = FALSE
INVARIANT InOrderOnce
CONSTRAINT Bound
CHECK_DEADLOCK FALSE
