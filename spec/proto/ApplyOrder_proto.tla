----------------------------- MODULE ApplyOrder_proto -----------------------------
(* Prototype (round 0): ClusterStorage::commit -> execute_log -> tokio::spawn. *)
EXTENDS Naturals, Sequences, FiniteSets, TLC
CONSTANTS MaxLog,
          Sequential,  \* FALSE = code today: one independent task per committed entry
          WithRestart  \* include process restart (outside C31's quantifier; shows at-least-once execution)
VARIABLES appended, committed, spawned, applied, marked
vars == <<appended, committed, spawned, applied, marked>>
Init == appended = 0 /\ committed = 0 /\ spawned = {} /\ applied = <<>> /\ marked = {}
ClientAppend == appended < MaxLog /\ appended' = appended + 1 /\ UNCHANGED <<committed, spawned, applied, marked>>
\* commit(k): every newly committed entry gets its own task
Commit(k) == /\ k > committed /\ k <= appended
             /\ committed' = k /\ spawned' = spawned \cup ((committed + 1)..k)
             /\ UNCHANGED <<appended, applied, marked>>
\* a spawned task runs its action whenever the runtime schedules it
TaskRun(i) == /\ i \in spawned
              /\ (Sequential => \A j \in spawned : i <= j)
              /\ applied' = Append(applied, i) /\ spawned' = spawned \ {i}
              /\ UNCHANGED <<appended, committed, marked>>
MarkExecuted(i) == /\ i \in {applied[j] : j \in DOMAIN applied} /\ i \notin marked
                   /\ marked' = marked \cup {i} /\ UNCHANGED <<appended, committed, spawned, applied>>
\* restart: ClusterStorage::new re-executes committed entries not yet marked executed
Restart == /\ WithRestart
           /\ spawned' = {i \in 1..committed : i \notin marked}
           /\ UNCHANGED <<appended, committed, applied, marked>>
Next == ClientAppend \/ (\E k \in 1..MaxLog : Commit(k)) \/ (\E i \in 1..MaxLog : TaskRun(i) \/ MarkExecuted(i)) \/ Restart
Spec == Init /\ [][Next]_vars
InOrderOnce == \A i \in DOMAIN applied : applied[i] = i
Bound == Len(applied) <= MaxLog + 1
==============================================================================
