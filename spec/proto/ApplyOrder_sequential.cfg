SPECIFICATION Spec
CONSTANTS MaxLog = 3
 Sequential = TRUE
 WithRestart = FALSE
INVARIANT InOrderOnce
CONSTRAINT Bound
CHECK_DEADLOCK FALSE
