------------------------------- MODULE CondRef_proto -------------------------------
(* Prototype (round 0): search conditions (evaluate_conditions / truth tables) *)
(* as TLA+ operators; validates recorded searches of the real database.        *)
EXTENDS Integers, Sequences, FiniteSets, TLC, Json, IOUtils

Rec == ndJsonDeserialize(IOEnv.TRACE)
VARIABLE l
Range(s) == {s[i] : i \in DOMAIN s}

C(v) == [k |-> "C", v |-> v]
S(v) == [k |-> "S", v |-> v]
And(a, b) == [k |-> IF a.k = "F" \/ b.k = "F" THEN "F" ELSE IF a.k = "S" \/ b.k = "S" THEN "S" ELSE "C", v |-> a.v /\ b.v]
Or(a, b)  == [k |-> IF a.k = "C" \/ b.k = "C" THEN "C" ELSE IF a.k = "F" /\ b.k = "F" THEN "F" ELSE "S", v |-> a.v \/ b.v]

Cmp(c, x) == CASE c[1] = "eq" -> x = c[2] [] c[1] = "ne" -> x # c[2] [] c[1] = "lt" -> x < c[2]
               [] c[1] = "le" -> x <= c[2] [] c[1] = "gt" -> x > c[2] [] c[1] = "ge" -> x >= c[2]
DistCtl(c, d) ==
  CASE c[1] = "eq" -> IF d < c[2] THEN C(FALSE) ELSE IF d = c[2] THEN S(TRUE) ELSE S(FALSE)
    [] c[1] = "gt" -> C(d > c[2])
    [] c[1] = "ge" -> C(d >= c[2])
    [] c[1] = "lt" -> IF d < c[2] THEN C(TRUE) ELSE S(FALSE)
    [] c[1] = "le" -> IF d <= c[2] THEN C(TRUE) ELSE S(FALSE)
    [] c[1] = "ne" -> C(d # c[2])

\* ---- graph of the event -------------------------------------------------------
OutE(e, n) == LET es == e.edges RECURSIVE F(_) F(i) == IF i = 0 THEN <<>> ELSE (IF es[i][2] = n THEN <<es[i][1]>> ELSE <<>>) \o F(i - 1) IN F(Len(es))
InCount(e, n) == Cardinality({i \in DOMAIN e.edges : e.edges[i][3] = n})
OutCount(e, n) == Cardinality({i \in DOMAIN e.edges : e.edges[i][2] = n})
Target(e, x) == (CHOOSE r \in Range(e.edges) : r[1] = x)[3]
Succ(e, x) == IF x > 0 THEN OutE(e, x) ELSE <<Target(e, x)>>
Pairs(e, x) == (CHOOSE r \in Range(e.kvs) : r[1] = x)[2]
HasK(e, x, k) == \E p \in Range(Pairs(e, x)) : p[1] = k
ValOf(e, x, k) == (CHOOSE p \in Range(Pairs(e, x)) : p[1] = k)[2]
\* type-strict comparison (property C15): different types: only "ne" holds
CmpVal(op, have, want) == IF have[1] = want[1] THEN Cmp(<<op, want[2]>>, have[2]) ELSE op = "ne"

RECURSIVE EvalList(_, _, _, _, _, _)
EvalData(e, d, x, dist, reading) ==
  CASE d.t = "node" -> C(x > 0)
    [] d.t = "edge" -> C(x < 0)
    [] d.t = "dist" -> DistCtl(d.c, dist)
    [] d.t = "ec"   -> C(x > 0 /\ Cmp(d.c, OutCount(e, x) + InCount(e, x)))
    [] d.t = "ecf"  -> C(x > 0 /\ Cmp(d.c, OutCount(e, x)))
    [] d.t = "ect"  -> C(x > 0 /\ Cmp(d.c, InCount(e, x)))
    [] d.t = "ids"  -> C(x \in Range(d.v))
    [] d.t = "keys" -> C(\A k \in Range(d.v) : HasK(e, x, k))
    [] d.t = "kv"   -> C(HasK(e, x, d.k) /\ CmpVal(d.c, ValOf(e, x, d.k), d.v))
    [] d.t = "where" -> EvalList(e, d.v, 1, x, dist, reading)[1]

\* fold; returns <<result>> (a 1-tuple so that it can be RECURSIVE with arity 6)
EvalStep(e, c, result, x, dist, reading) ==
  LET raw == EvalData(e, c.d, x, dist, reading)
      ctl == CASE c.m = "none" -> raw
               [] c.m = "not" -> [raw EXCEPT !.v = ~raw.v]
               [] c.m = "beyond" -> IF raw.v \/ dist = 0 THEN C(result.v) ELSE S(result.v)
               [] c.m = "notbeyond" -> IF raw.v THEN S(result.v) ELSE C(result.v)
  IN IF c.l = "and" THEN And(result, ctl) ELSE Or(result, ctl)
EvalList(e, cs, i, x, dist, reading) ==
  LET RECURSIVE F(_, _) F(j, r) == IF j > Len(cs) THEN r ELSE F(j + 1, EvalStep(e, cs[j], r, x, dist, reading))
  IN <<F(1, C(TRUE))>>
Control(e, x, dist) == EvalList(e, e.conds, 1, x, dist, "code")[1]

RECURSIVE Bfs(_, _, _, _)
Bfs(e, queue, visited, res) ==
  IF queue = <<>> THEN res
  ELSE LET x == Head(queue)[1]
           d == Head(queue)[2] IN
       IF x \in visited THEN Bfs(e, Tail(queue), visited, res)
       ELSE LET ctl == Control(e, x, d)
                sc == Succ(e, x)
                nxt == IF ctl.k = "C" THEN [i \in DOMAIN sc |-> <<sc[i], d + 1>>] ELSE <<>>
            IN Bfs(e, Tail(queue) \o nxt, visited \cup {x}, IF ctl.v THEN Append(res, x) ELSE res)

RECURSIVE DfsV(_, _, _, _)
RECURSIVE DfsL(_, _, _, _)
DfsV(e, x, d, st) == IF x \in st.vis THEN st
                     ELSE LET ctl == Control(e, x, d)
                              st1 == [res |-> IF ctl.v THEN Append(st.res, x) ELSE st.res, vis |-> st.vis \cup {x}]
                          IN IF ctl.k = "C" THEN DfsL(e, Succ(e, x), d + 1, st1) ELSE st1
DfsL(e, xs, d, st) == IF xs = <<>> THEN st ELSE DfsL(e, Tail(xs), d, DfsV(e, Head(xs), d, st))

Expected(e) == IF e.alg = "bfs" THEN Bfs(e, <<<<e.origin, 0>>>>, {}, <<>>)
               ELSE DfsV(e, e.origin, 0, [res |-> <<>>, vis |-> {}]).res

Init == l = 1
Next == /\ l <= Len(Rec) /\ Rec[l].res = Expected(Rec[l]) /\ l' = l + 1
Spec == Init /\ [][Next]_l
Accepted == IF TLCGet("stats").diameter - 1 = Len(Rec) THEN TRUE
            ELSE LET e == Rec[TLCGet("stats").diameter] IN
                 PrintT(<<"REJECTED at event", TLCGet("stats").diameter, e, "expected", Expected(e)>>) /\ FALSE
==============================================================================
