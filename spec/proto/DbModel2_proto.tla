------------------------------- MODULE DbModel2_proto -------------------------------
(* Prototype v2 (round 0): abstract agdb database with the documented query      *)
(* forms: insert nodes (new / existing alias / by ids), insert edges (pairwise / *)
(* each / by ids), insert aliases, insert values (ids, aliases, id 0), indexes,  *)
(* remove (ids, aliases), remove aliases / values / index, and the read queries. *)
(* Ids of new elements are bound from the trace (any unused id of the right sign).*)
EXTENDS Integers, Sequences, FiniteSets, TLC

VARIABLES nodes, edges, kvs, alias, indexed
dbvars == <<nodes, edges, kvs, alias, indexed>>

Range(s) == {s[i] : i \in DOMAIN s}
Live == nodes \cup DOMAIN edges
Restrict(f, S) == [x \in S |-> f[x]]
DbInit == nodes = {} /\ edges = << >> /\ kvs = << >> /\ alias = << >> /\ indexed = {}

\* ---- query ids: <<"i", n>> or <<"a", name>> -------------------------------------
Resolvable(q) == IF q[1] = "i" THEN q[2] \in Live ELSE q[2] \in DOMAIN alias
Resolve(q) == IF q[1] = "i" THEN q[2] ELSE alias[q[2]]
ResolveAll(qs) == [i \in DOMAIN qs |-> Resolve(qs[i])]

\* ---- ordered map -------------------------------------------------------------------
HasKey(s, k) == \E i \in DOMAIN s : s[i][1] = k
Upsert1(s, p) == IF HasKey(s, p[1]) THEN [i \in DOMAIN s |-> IF s[i][1] = p[1] THEN p ELSE s[i]] ELSE Append(s, p)
RECURSIVE Upsert(_, _)
Upsert(s, ps) == IF ps = <<>> THEN s ELSE Upsert(Upsert1(s, Head(ps)), Tail(ps))
DropKeys(s, ks) == SelectSeq(s, LAMBDA p : p[1] \notin ks)
SetAlias(al, a, i) == LET keep == {b \in DOMAIN al : b # a /\ al[b] # i} IN
                      [b \in keep \cup {a} |-> IF b = a THEN i ELSE al[b]]
Distinct(s) == \A i, j \in DOMAIN s : i # j => s[i] # s[j]
Fresh(ids, neg) == /\ Distinct(ids) /\ \A i \in DOMAIN ids : (IF neg THEN ids[i] < 0 ELSE ids[i] > 0) /\ ids[i] \notin Live

\* state as a record, for sequential composition inside one query
S0 == [nodes |-> nodes, edges |-> edges, kvs |-> kvs, alias |-> alias, indexed |-> indexed]
Commit(s) == nodes' = s.nodes /\ edges' = s.edges /\ kvs' = s.kvs /\ alias' = s.alias /\ indexed' = s.indexed
AddNode(s, id, ps) == [s EXCEPT !.nodes = s.nodes \cup {id},
                                !.kvs = [x \in DOMAIN s.kvs \cup {id} |-> IF x = id THEN Upsert(<<>>, ps) ELSE s.kvs[x]]]
PutVals(s, id, ps) == [s EXCEPT !.kvs = [s.kvs EXCEPT ![id] = Upsert(s.kvs[id], ps)]]

\* ---- insert nodes, no ids: per value list i: existing alias => update, else new node ------
\* e.values: sequence of pair lists (already expanded); e.aliases: prefix; e.res: ids returned
RECURSIVE InsNodes(_, _, _, _, _)
InsNodes(s, aliases, values, res, i) ==
  IF i > Len(values) THEN s
  ELSE LET a == IF i <= Len(aliases) THEN aliases[i] ELSE "" IN
       IF a # "" /\ a \in DOMAIN s.alias
       THEN InsNodes(PutVals(s, s.alias[a], values[i]), aliases, values, res, i + 1)
       ELSE LET s1 == AddNode(s, res[i], values[i])
                s2 == IF a # "" THEN [s1 EXCEPT !.alias = SetAlias(s1.alias, a, res[i])] ELSE s1
            IN InsNodes(s2, aliases, values, res, i + 1)
InsertNodesOk(e) ==
  /\ Len(e.res) = Len(e.values) /\ Len(e.aliases) <= Len(e.values)
  /\ \A a \in Range(e.aliases) : a # ""
  /\ LET newIdx == {i \in DOMAIN e.values : ~(i <= Len(e.aliases) /\ e.aliases[i] \in DOMAIN alias)} IN
     /\ \A i \in DOMAIN e.values \ newIdx : e.res[i] = alias[e.aliases[i]]
     /\ \A i \in newIdx : e.res[i] > 0 /\ e.res[i] \notin Live /\ \A j \in newIdx : i # j => e.res[i] # e.res[j]
  /\ Commit(InsNodes(S0, e.aliases, e.values, e.res, 1))

\* ---- insert nodes by ids (update) ------------------------------------------------------
RECURSIVE UpdNodes(_, _, _, _, _)
UpdNodes(s, ids, aliases, values, i) ==
  IF i > Len(ids) THEN s
  ELSE LET s1 == PutVals(s, ids[i], values[i])
           s2 == IF i <= Len(aliases) THEN [s1 EXCEPT !.alias = SetAlias(s1.alias, aliases[i], ids[i])] ELSE s1
       IN UpdNodes(s2, ids, aliases, values, i + 1)
UpdateNodesOk(e) ==
  /\ \A q \in Range(e.ids) : Resolvable(q)
  /\ LET ids == ResolveAll(e.ids) IN
     /\ \A x \in Range(ids) : x \in nodes
     /\ Len(e.values) = Len(ids) /\ Len(e.aliases) <= Len(e.values)
     /\ e.res = ids
     /\ Commit(UpdNodes(S0, ids, e.aliases, e.values, 1))

\* ---- insert edges: e.pairs = sequence of <<from, to>> resolved by the DRIVER's expansion rule,
\*      checked here against from/to: pairwise if equal length and not each, else cross product
Pairs(f, t, each) == IF ~each /\ Len(f) = Len(t) THEN [i \in DOMAIN f |-> <<f[i], t[i]>>]
                     ELSE [k \in 1..(Len(f) * Len(t)) |-> <<f[((k - 1) \div Len(t)) + 1], t[((k - 1) % Len(t)) + 1]>>]
InsertEdgesOk(e) ==
  /\ \A q \in Range(e.from) \cup Range(e.to) : Resolvable(q)
  /\ LET f == ResolveAll(e.from)
         t == ResolveAll(e.to)
         ps == Pairs(f, t, e.each) IN
     /\ \A x \in Range(f) \cup Range(t) : x \in nodes
     /\ Len(e.res) = Len(ps) /\ Len(e.values) = Len(ps) /\ Fresh(e.res, TRUE)
     /\ edges' = [x \in DOMAIN edges \cup Range(e.res) |-> IF x \in DOMAIN edges THEN edges[x]
                    ELSE ps[CHOOSE j \in DOMAIN e.res : e.res[j] = x]]
     /\ kvs' = [x \in Live \cup Range(e.res) |-> IF x \in Live THEN kvs[x]
                    ELSE Upsert(<<>>, e.values[CHOOSE j \in DOMAIN e.res : e.res[j] = x])]
  /\ UNCHANGED <<nodes, alias, indexed>>

\* ---- insert aliases -------------------------------------------------------------------------
RECURSIVE SetAliases(_, _, _)
SetAliases(al, as, ids) == IF as = <<>> THEN al ELSE SetAliases(SetAlias(al, Head(as), Head(ids)), Tail(as), Tail(ids))
InsertAliasesOk(e) ==
  /\ Len(e.ids) = Len(e.aliases) /\ \A q \in Range(e.ids) : Resolvable(q)
  /\ \A a \in Range(e.aliases) : a # ""
  /\ LET ids == ResolveAll(e.ids) IN
     /\ \A x \in Range(ids) : x \in nodes                       \* C10: nodes only
     /\ alias' = SetAliases(alias, e.aliases, ids)
  /\ e.result = Len(e.ids) /\ UNCHANGED <<nodes, edges, kvs, indexed>>

\* ---- insert values: per target: existing element => upsert; <<"i",0>> or unknown alias => new node ----
RECURSIVE InsVals(_, _, _, _, _, _)
InsVals(s, ids, values, newIds, i, n) ==
  IF i > Len(ids) THEN s
  ELSE LET q == ids[i]
           known == IF q[1] = "i" THEN q[2] \in s.nodes \cup DOMAIN s.edges ELSE q[2] \in DOMAIN s.alias IN
       IF known THEN InsVals(PutVals(s, (IF q[1] = "i" THEN q[2] ELSE s.alias[q[2]]), values[i]), ids, values, newIds, i + 1, n)
       ELSE LET s1 == AddNode(s, newIds[n], values[i])
                s2 == IF q[1] = "a" THEN [s1 EXCEPT !.alias = SetAlias(s1.alias, q[2], newIds[n])] ELSE s1
            IN InsVals(s2, ids, values, newIds, i + 1, n + 1)
InsertValuesOk(e) ==
  /\ Len(e.ids) = Len(e.values)
  /\ \A q \in Range(e.ids) : Resolvable(q) \/ q = <<"i", 0>> \/ q[1] = "a"
  /\ Fresh(e.res, FALSE)
  /\ Len(e.res) = Cardinality({i \in DOMAIN e.ids : ~Resolvable(e.ids[i])})   \* (distinct new aliases in this prototype)
  /\ Commit(InsVals(S0, e.ids, e.values, e.res, 1, 1))

\* ---- indexes -----------------------------------------------------------------------------------
IndexIds(k, v) == {x \in Live : \E p \in Range(kvs[x]) : p = <<k, v>>}
IndexCount(k) == Cardinality({x \in Live : HasKey(kvs[x], k)})
InsertIndexOk(e) == /\ e.key \notin indexed /\ e.result = IndexCount(e.key)
                    /\ indexed' = indexed \cup {e.key} /\ UNCHANGED <<nodes, edges, kvs, alias>>
RemoveIndexOk(e) == /\ e.result = (IF e.key \in indexed THEN IndexCount(e.key) ELSE 0)
                    /\ indexed' = indexed \ {e.key} /\ UNCHANGED <<nodes, edges, kvs, alias>>

\* ---- remove -------------------------------------------------------------------------------------
RemoveOk(e) ==
  LET hit == {i \in DOMAIN e.ids : Resolvable(e.ids[i])}
      gone == {Resolve(e.ids[i]) : i \in hit}
      goneN == gone \cap nodes
      goneE == (gone \cap DOMAIN edges) \cup {x \in DOMAIN edges : edges[x][1] \in goneN \/ edges[x][2] \in goneN}
      after == Live \ (goneN \cup goneE) IN
  /\ nodes' = nodes \ goneN /\ edges' = Restrict(edges, DOMAIN edges \ goneE)
  /\ kvs' = Restrict(kvs, after)
  /\ alias' = Restrict(alias, {a \in DOMAIN alias : alias[a] \notin goneN})
  /\ UNCHANGED indexed
RemoveAliasesOk(e) == /\ alias' = Restrict(alias, DOMAIN alias \ Range(e.aliases))
                      /\ e.result = Cardinality(Range(e.aliases) \cap DOMAIN alias)
                      /\ UNCHANGED <<nodes, edges, kvs, indexed>>
RemoveValuesOk(e) ==
  /\ \A q \in Range(e.ids) : Resolvable(q)
  /\ LET ids == ResolveAll(e.ids)
         ks == Range(e.keys) IN
     /\ kvs' = [x \in Live |-> IF x \in Range(ids) THEN DropKeys(kvs[x], ks) ELSE kvs[x]]
  /\ UNCHANGED <<nodes, edges, alias, indexed>>

\* ---- reads ------------------------------------------------------------------------------------------
SelectValuesRes(id, keys) == IF keys = <<>> THEN kvs[id]
   ELSE LET RECURSIVE F(_) F(i) == IF i > Len(keys) THEN <<>>
              ELSE (IF HasKey(kvs[id], keys[i]) THEN <<kvs[id][CHOOSE j \in DOMAIN kvs[id] : kvs[id][j][1] = keys[i]]>> ELSE <<>>) \o F(i + 1) IN F(1)
SelectValuesOk(e) ==
  /\ \A q \in Range(e.ids) : Resolvable(q)
  /\ LET ids == ResolveAll(e.ids) IN
     /\ \A x \in Range(ids) : \A k \in Range(e.keys) : HasKey(kvs[x], k)
     /\ e.res = [i \in DOMAIN ids |-> <<ids[i], SelectValuesRes(ids[i], e.keys)>>]
SelectValuesMustFail(e) == (\E q \in Range(e.ids) : ~Resolvable(q))
    \/ (\E q \in Range(e.ids) : Resolvable(q) /\ \E k \in Range(e.keys) : ~HasKey(kvs[Resolve(q)], k))
SearchIndexOk(e) == e.key \in indexed /\ Range(e.res) = IndexIds(e.key, e.value) /\ Len(e.res) = Cardinality(IndexIds(e.key, e.value))

\* ---- invariants -----------------------------------------------------------------------------------------
DbInv == /\ (\A n \in nodes : n > 0) /\ (\A x \in DOMAIN edges : x < 0)
         /\ \A x \in DOMAIN edges : edges[x][1] \in nodes /\ edges[x][2] \in nodes
         /\ DOMAIN kvs = Live
         /\ \A x \in DOMAIN kvs : \A i, j \in DOMAIN kvs[x] : i # j => kvs[x][i][1] # kvs[x][j][1]
         /\ \A a \in DOMAIN alias : alias[a] \in nodes /\ a # ""
         /\ \A a, b \in DOMAIN alias : a # b => alias[a] # alias[b]
==============================================================================
