------------------------------- MODULE DbModel_proto -------------------------------
(* Prototype (round 0): abstract agdb database — nodes, edges, ordered        *)
(* key-value pairs, aliases. Ids are bound from the trace; the model only      *)
(* demands what the properties state (fresh id of the right sign).            *)
EXTENDS Integers, Sequences, FiniteSets, TLC

VARIABLES nodes,   \* set of positive ids
          edges,   \* edge id (negative) -> <<from, to>>
          kvs,     \* id -> sequence of <<key, value>> (defined for every live element)
          alias    \* alias name -> node id
dbvars == <<nodes, edges, kvs, alias>>

Range(s) == {s[i] : i \in DOMAIN s}
Live == nodes \cup DOMAIN edges
InUse(i) == i \in Live
Restrict(f, S) == [x \in S |-> f[x]]

DbInit == nodes = {} /\ edges = << >> /\ kvs = << >> /\ alias = << >>

\* ordered map: replace in place or append
RECURSIVE Upsert(_, _)
HasKey(s, k) == \E i \in DOMAIN s : s[i][1] = k
Upsert1(s, p) == IF HasKey(s, p[1]) THEN [i \in DOMAIN s |-> IF s[i][1] = p[1] THEN p ELSE s[i]] ELSE Append(s, p)
Upsert(s, ps) == IF ps = <<>> THEN s ELSE Upsert(Upsert1(s, Head(ps)), Tail(ps))

AliasOf(i) == {a \in DOMAIN alias : alias[a] = i}
\* give node i the alias a: the node's old alias goes, any other holder loses a
SetAlias(al, a, i) == LET keep == {b \in DOMAIN al : b # a /\ al[b] # i} IN
                      [b \in keep \cup {a} |-> IF b = a THEN i ELSE al[b]]

\* ---- insert nodes (new nodes only; aliases for a prefix of them) ------------
InsertNodesOk(aliases, values, ids) ==
  /\ Len(ids) = Len(values) /\ Len(aliases) <= Len(values)
  /\ \A i \in DOMAIN ids : ids[i] > 0 /\ ~InUse(ids[i]) /\ \A j \in DOMAIN ids : i # j => ids[i] # ids[j]
  /\ \A a \in Range(aliases) : a # "" /\ a \notin DOMAIN alias
  /\ nodes' = nodes \cup Range(ids)
  /\ kvs' = [x \in Live \cup Range(ids) |-> IF x \in Live THEN kvs[x]
                 ELSE LET i == CHOOSE j \in DOMAIN ids : ids[j] = x IN Upsert(<<>>, values[i])]
  /\ alias' = [a \in DOMAIN alias \cup Range(aliases) |-> IF a \in DOMAIN alias THEN alias[a]
                 ELSE LET i == CHOOSE j \in DOMAIN aliases : aliases[j] = a IN ids[i]]
  /\ UNCHANGED edges

\* ---- insert edges pairwise ---------------------------------------------------
InsertEdgesOk(from, to, values, ids) ==
  /\ Len(ids) = Len(from) /\ Len(from) = Len(to) /\ Len(values) = Len(ids)
  /\ \A x \in Range(from) \cup Range(to) : x \in nodes
  /\ \A i \in DOMAIN ids : ids[i] < 0 /\ ~InUse(ids[i]) /\ \A j \in DOMAIN ids : i # j => ids[i] # ids[j]
  /\ edges' = [e \in DOMAIN edges \cup Range(ids) |-> IF e \in DOMAIN edges THEN edges[e]
                 ELSE LET i == CHOOSE j \in DOMAIN ids : ids[j] = e IN <<from[i], to[i]>>]
  /\ kvs' = [x \in Live \cup Range(ids) |-> IF x \in Live THEN kvs[x]
                 ELSE LET i == CHOOSE j \in DOMAIN ids : ids[j] = x IN Upsert(<<>>, values[i])]
  /\ UNCHANGED <<nodes, alias>>
InsertEdgesMustFail(from, to) == \E x \in Range(from) \cup Range(to) : x \notin nodes

\* ---- insert aliases ------------------------------------------------------------
RECURSIVE SetAliases(_, _, _)
SetAliases(al, as, ids) == IF as = <<>> THEN al ELSE SetAliases(SetAlias(al, Head(as), Head(ids)), Tail(as), Tail(ids))
InsertAliasesOk(ids, aliases) ==
  /\ Len(ids) = Len(aliases)
  /\ \A i \in Range(ids) : i \in nodes              \* C10: only existing NODES
  /\ \A a \in Range(aliases) : a # ""
  /\ alias' = SetAliases(alias, aliases, ids)
  /\ UNCHANGED <<nodes, edges, kvs>>
InsertAliasesMustFail(ids, aliases) == (\E i \in Range(ids) : i \notin nodes) \/ (\E a \in Range(aliases) : a = "")

\* ---- insert values on existing elements ------------------------------------------
InsertValuesOk(ids, values) ==
  /\ Len(ids) = Len(values) /\ \A i \in Range(ids) : InUse(i)
  /\ LET RECURSIVE F(_, _) F(m, k) == IF k > Len(ids) THEN m ELSE F([m EXCEPT ![ids[k]] = Upsert(m[ids[k]], values[k])], k + 1)
     IN kvs' = F(kvs, 1)
  /\ UNCHANGED <<nodes, edges, alias>>

\* ---- remove elements (cascade) ---------------------------------------------------
RemoveOk(ids, result) ==
  LET gone == {i \in Range(ids) : InUse(i)}
      goneN == gone \cap nodes
      goneE == (gone \cap DOMAIN edges) \cup {e \in DOMAIN edges : edges[e][1] \in goneN \/ edges[e][2] \in goneN}
      liveAfter == Live \ (goneN \cup goneE) IN
  /\ nodes' = nodes \ goneN
  /\ edges' = Restrict(edges, DOMAIN edges \ goneE)
  /\ kvs' = Restrict(kvs, liveAfter)
  /\ alias' = Restrict(alias, {a \in DOMAIN alias : alias[a] \notin goneN})
  /\ result <= Len(ids)

\* ---- invariants ------------------------------------------------------------------
IdsSigned == (\A n \in nodes : n > 0) /\ (\A e \in DOMAIN edges : e < 0)
EndpointsLive == \A e \in DOMAIN edges : edges[e][1] \in nodes /\ edges[e][2] \in nodes
KvsOnLive == DOMAIN kvs = Live
KeysDistinct == \A x \in DOMAIN kvs : \A i, j \in DOMAIN kvs[x] : i # j => kvs[x][i][1] # kvs[x][j][1]
AliasOnNodes == \A a \in DOMAIN alias : alias[a] \in nodes /\ a # ""
AliasInjective == \A a, b \in DOMAIN alias : a # b => alias[a] # alias[b]
DbInv == IdsSigned /\ EndpointsLive /\ KvsOnLive /\ KeysDistinct /\ AliasOnNodes /\ AliasInjective
==============================================================================
