SPECIFICATION TSpec
INVARIANT DbInv
POSTCONDITION Accepted
CHECK_DEADLOCK FALSE
