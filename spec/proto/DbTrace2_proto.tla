------------------------------- MODULE DbTrace2_proto -------------------------------
EXTENDS DbModel2_proto, Json, IOUtils
Rec == ndJsonDeserialize(IOEnv.TRACE)
VARIABLE l
tvars == <<nodes, edges, kvs, alias, indexed, l>>
IsEvent(n) == l <= Len(Rec) /\ Rec[l].ev = n /\ l' = l + 1
Same == UNCHANGED dbvars
E == Rec[l]
TInit == DbInit /\ l = 1
TReset == IsEvent("Reset") /\ nodes' = {} /\ edges' = << >> /\ kvs' = << >> /\ alias' = << >> /\ indexed' = {}
KvFn(s) == [id \in {x[1] : x \in Range(s)} |-> LET x == CHOOSE y \in Range(s) : y[1] = id IN x[2]]
\* a failed mutating query has no effect (C13) except that the order of an element's pairs may change:
\* the new order is taken from the observation that follows the event in the trace
SameUpToOrder == /\ UNCHANGED <<nodes, edges, alias, indexed>>
                 /\ IF l + 1 <= Len(Rec) /\ Rec[l + 1].ev = "Observe" THEN kvs' = KvFn(Rec[l + 1].kvs) ELSE kvs' = kvs
                 /\ DOMAIN kvs' = DOMAIN kvs
                 /\ \A x \in DOMAIN kvs : Range(kvs'[x]) = Range(kvs[x]) /\ Len(kvs'[x]) = Len(kvs[x])
Mut(name, OkAct(_)) == IsEvent(name) /\ IF E.ok THEN OkAct(E) ELSE SameUpToOrder
TInsertNodes == Mut("InsertNodes", InsertNodesOk)
TUpdateNodes == Mut("UpdateNodes", UpdateNodesOk)
TInsertEdges == Mut("InsertEdges", InsertEdgesOk)
TInsertAliases == Mut("InsertAliases", InsertAliasesOk)
TInsertValues == Mut("InsertValues", InsertValuesOk)
TInsertIndex == Mut("InsertIndex", InsertIndexOk)
TRemoveIndex == Mut("RemoveIndex", RemoveIndexOk)
TRemove == Mut("Remove", RemoveOk)
TRemoveAliases == Mut("RemoveAliases", RemoveAliasesOk)
TRemoveValues == Mut("RemoveValues", RemoveValuesOk)
TSelectValues == IsEvent("SelectValues") /\ Same /\ (IF E.ok THEN SelectValuesOk(E) ELSE SelectValuesMustFail(E))
TSearchIndex == IsEvent("SearchIndex") /\ Same /\ (IF E.ok THEN SearchIndexOk(E) ELSE E.key \notin indexed)
EdgeFn(s) == [id \in {x[1] : x \in Range(s)} |-> LET x == CHOOSE y \in Range(s) : y[1] = id IN <<x[2], x[3]>>]
AlFn(s) == [a \in {x[1] : x \in Range(s)} |-> LET x == CHOOSE y \in Range(s) : y[1] = a IN x[2]]
TObserve == IsEvent("Observe") /\ Same
              /\ nodes = Range(E.nodes) /\ edges = EdgeFn(E.edges) /\ kvs = KvFn(E.kvs) /\ alias = AlFn(E.aliases)
              /\ indexed = {x[1] : x \in Range(E.indexes)}
              /\ \A x \in Range(E.indexes) : x[2] = IndexCount(x[1])
              /\ E.node_count = Cardinality(nodes)
TNext == TReset \/ TInsertNodes \/ TUpdateNodes \/ TInsertEdges \/ TInsertAliases \/ TInsertValues \/ TInsertIndex
         \/ TRemoveIndex \/ TRemove \/ TRemoveAliases \/ TRemoveValues \/ TSelectValues \/ TSearchIndex \/ TObserve
TSpec == TInit /\ [][TNext]_tvars
Accepted == IF TLCGet("stats").diameter - 1 = Len(Rec) THEN TRUE
            ELSE PrintT(<<"REJECTED at event", TLCGet("stats").diameter, Rec[TLCGet("stats").diameter]>>) /\ FALSE
==============================================================================
