------------------------------- MODULE DbTrace_proto -------------------------------
EXTENDS DbModel_proto, Json, IOUtils
Rec == ndJsonDeserialize(IOEnv.TRACE)
VARIABLE l
tvars == <<nodes, edges, kvs, alias, l>>
IsEvent(n) == l <= Len(Rec) /\ Rec[l].ev = n /\ l' = l + 1
Same == UNCHANGED dbvars

TInit == DbInit /\ l = 1
TReset == IsEvent("Reset") /\ nodes' = {} /\ edges' = << >> /\ kvs' = << >> /\ alias' = << >>
TInsertNodes == IsEvent("InsertNodes") /\ LET e == Rec[l] IN
                  IF e.ok THEN InsertNodesOk(e.aliases, e.values, e.ids) ELSE Same
TInsertEdges == IsEvent("InsertEdges") /\ LET e == Rec[l] IN
                  IF e.ok THEN InsertEdgesOk(e.from, e.to, e.values, e.ids)
                  ELSE Same     \* a failed query has no effect (C13); failing is always allowed
TInsertAliases == IsEvent("InsertAliases") /\ LET e == Rec[l] IN
                  IF e.ok THEN InsertAliasesOk(e.ids, e.aliases) ELSE Same
TInsertValues == IsEvent("InsertValues") /\ LET e == Rec[l] IN
                  IF e.ok THEN InsertValuesOk(e.ids, e.values) ELSE Same
TRemove == IsEvent("Remove") /\ LET e == Rec[l] IN IF e.ok THEN RemoveOk(e.ids, e.result) ELSE Same

EdgeFn(s) == [id \in {x[1] : x \in Range(s)} |-> LET x == CHOOSE y \in Range(s) : y[1] = id IN <<x[2], x[3]>>]
KvFn(s) == [id \in {x[1] : x \in Range(s)} |-> LET x == CHOOSE y \in Range(s) : y[1] = id IN x[2]]
AlFn(s) == [a \in {x[1] : x \in Range(s)} |-> LET x == CHOOSE y \in Range(s) : y[1] = a IN x[2]]
TObserve == IsEvent("Observe") /\ Same /\ LET e == Rec[l] IN
              /\ nodes = Range(e.nodes)
              /\ edges = EdgeFn(e.edges)
              /\ kvs = KvFn(e.kvs)
              /\ alias = AlFn(e.aliases)

TNext == TReset \/ TInsertNodes \/ TInsertEdges \/ TInsertAliases \/ TInsertValues \/ TRemove \/ TObserve
TSpec == TInit /\ [][TNext]_tvars
Accepted == IF TLCGet("stats").diameter - 1 = Len(Rec) THEN TRUE
            ELSE PrintT(<<"REJECTED at event", TLCGet("stats").diameter, Rec[TLCGet("stats").diameter]>>) /\ FALSE
==============================================================================
