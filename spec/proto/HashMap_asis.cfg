SPECIFICATION Spec
CONSTANTS Keys = {0,1,2,3,4,5}
 MinCap = 4
 FixWrap = FALSE
 ReuseTomb = FALSE
INVARIANT NoHang
INVARIANT CountExact
CONSTRAINT CapBound
CHECK_DEADLOCK FALSE
