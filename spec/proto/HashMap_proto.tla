------------------------------- MODULE HashMap_proto -------------------------------
(* Prototype (round 0): collections/multi_map.rs used as a map (insert_or_replace *)
(* with an always-true predicate), scaled minimum capacity.                       *)
EXTENDS Naturals, Sequences, FiniteSets, TLC

CONSTANTS Keys,      \* naturals; stable_hash(k) = k
          MinCap,    \* 64 in the code
          FixWrap,   \* FALSE = code today: insert probing stops only at an Empty slot or at the key
          ReuseTomb  \* FALSE = code today: reaching an Empty slot overwrites the remembered tombstone
                     \* position (`MapValueState::Empty => { free_pos = Some(pos); break; }`), so
                     \* tombstones are never reused while an Empty slot exists

E == 100
D == 101
VARIABLES slots, count, hung
vars == <<slots, count, hung>>

Cap == Len(slots)
MaxLenOf(c) == (c * 15) \div 16
MinLenOf(c) == (c * 7) \div 16
Home(k, c) == (k % c) + 1
NextPos(p, c) == IF p = c THEN 1 ELSE p + 1

\* canonical rebuild: re-insert valid keys (in slot order) into an empty table of capacity c
RECURSIVE PutAll(_, _, _)
RECURSIVE FirstFree(_, _, _)
FirstFree(t, p, n) == IF n = 0 THEN 0 ELSE IF t[p] = E THEN p ELSE FirstFree(t, NextPos(p, Len(t)), n - 1)
PutAll(t, ks, i) == IF i > Len(ks) THEN t
                    ELSE LET p == FirstFree(t, Home(ks[i], Len(t)), Len(t)) IN PutAll([t EXCEPT ![p] = ks[i]], ks, i + 1)
ValidKeys(s) == LET RECURSIVE F(_) F(i) == IF i > Len(s) THEN <<>> ELSE IF s[i] \in Keys THEN <<s[i]>> \o F(i + 1) ELSE F(i + 1) IN F(1)
Rebuild(s, c) == PutAll([i \in 1..c |-> E], ValidKeys(s), 1)

\* rehash(capacity) as in the code: max(capacity, MinCap); equal capacity = NO-OP
Rehash(s, want) == LET c == IF want < MinCap THEN MinCap ELSE want IN
                   IF c = Len(s) THEN s ELSE Rebuild(s, c)

\* insert probing: returns [ok, pos, found]; ok = FALSE means the loop never terminates
RECURSIVE Probe(_, _, _, _, _)
Probe(s, k, p, n, firstD) ==
  IF n = 0 THEN IF FixWrap THEN [ok |-> TRUE, pos |-> firstD, found |-> FALSE]
                           ELSE [ok |-> FALSE, pos |-> 0, found |-> FALSE]
  ELSE IF s[p] = E THEN [ok |-> TRUE, pos |-> (IF firstD = 0 \/ ~ReuseTomb THEN p ELSE firstD), found |-> FALSE]
  ELSE IF s[p] = k THEN [ok |-> TRUE, pos |-> p, found |-> TRUE]
  ELSE Probe(s, k, NextPos(p, Len(s)), n - 1, IF s[p] = D /\ firstD = 0 THEN p ELSE firstD)

Init == slots = [i \in 1..MinCap |-> E] /\ count = 0 /\ hung = FALSE

Insert(k) ==
  /\ ~hung
  /\ LET s1 == IF count >= MaxLenOf(Cap) THEN Rehash(slots, Cap * 2) ELSE slots
         r == Probe(s1, k, Home(k, Len(s1)), Len(s1), 0) IN
     IF ~r.ok THEN hung' = TRUE /\ UNCHANGED <<slots, count>>
     ELSE /\ slots' = [s1 EXCEPT ![r.pos] = k]
          /\ count' = IF r.found THEN count ELSE count + 1
          /\ UNCHANGED hung

Remove(k) ==
  /\ ~hung
  /\ IF \E i \in 1..Cap : slots[i] = k
     THEN LET s1 == [i \in 1..Cap |-> IF slots[i] = k THEN D ELSE slots[i]]
              c1 == count - 1 IN
          /\ slots' = IF c1 <= MinLenOf(Cap) THEN Rehash(s1, Cap \div 2) ELSE s1
          /\ count' = c1
     ELSE UNCHANGED <<slots, count>>   \* (a full fruitless cycle calls rehash(cap): a no-op)
  /\ UNCHANGED hung

Next == \E k \in Keys : Insert(k) \/ Remove(k)
Spec == Init /\ [][Next]_vars

NoHang == ~hung
CountExact == count = Cardinality({i \in 1..Cap : slots[i] \in Keys})
HasEmpty == \E i \in 1..Cap : slots[i] = E
CapBound == Cap <= 4 * MinCap
==============================================================================
