------------------------------- MODULE PathSliceRef_proto -------------------------------
(* Prototype (round 0): search conditions (evaluate_conditions / truth tables) *)
(* as TLA+ operators; validates recorded searches of the real database.        *)
EXTENDS Integers, Sequences, FiniteSets, TLC, Json, IOUtils

Rec == ndJsonDeserialize(IOEnv.TRACE)
VARIABLE l
Range(s) == {s[i] : i \in DOMAIN s}

C(v) == [k |-> "C", v |-> v]
S(v) == [k |-> "S", v |-> v]
And(a, b) == [k |-> IF a.k = "F" \/ b.k = "F" THEN "F" ELSE IF a.k = "S" \/ b.k = "S" THEN "S" ELSE "C", v |-> a.v /\ b.v]
Or(a, b)  == [k |-> IF a.k = "C" \/ b.k = "C" THEN "C" ELSE IF a.k = "F" /\ b.k = "F" THEN "F" ELSE "S", v |-> a.v \/ b.v]

Cmp(c, x) == CASE c[1] = "eq" -> x = c[2] [] c[1] = "ne" -> x # c[2] [] c[1] = "lt" -> x < c[2]
               [] c[1] = "le" -> x <= c[2] [] c[1] = "gt" -> x > c[2] [] c[1] = "ge" -> x >= c[2]
DistCtl(c, d) ==
  CASE c[1] = "eq" -> IF d < c[2] THEN C(FALSE) ELSE IF d = c[2] THEN S(TRUE) ELSE S(FALSE)
    [] c[1] = "gt" -> C(d > c[2])
    [] c[1] = "ge" -> C(d >= c[2])
    [] c[1] = "lt" -> IF d < c[2] THEN C(TRUE) ELSE S(FALSE)
    [] c[1] = "le" -> IF d <= c[2] THEN C(TRUE) ELSE S(FALSE)
    [] c[1] = "ne" -> C(d # c[2])

\* ---- graph of the event -------------------------------------------------------
OutE(e, n) == LET es == e.edges RECURSIVE F(_) F(i) == IF i = 0 THEN <<>> ELSE (IF es[i][2] = n THEN <<es[i][1]>> ELSE <<>>) \o F(i - 1) IN F(Len(es))
InCount(e, n) == Cardinality({i \in DOMAIN e.edges : e.edges[i][3] = n})
OutCount(e, n) == Cardinality({i \in DOMAIN e.edges : e.edges[i][2] = n})
Target(e, x) == (CHOOSE r \in Range(e.edges) : r[1] = x)[3]
Succ(e, x) == IF x > 0 THEN OutE(e, x) ELSE <<Target(e, x)>>
Pairs(e, x) == (CHOOSE r \in Range(e.kvs) : r[1] = x)[2]
HasK(e, x, k) == \E p \in Range(Pairs(e, x)) : p[1] = k
ValOf(e, x, k) == (CHOOSE p \in Range(Pairs(e, x)) : p[1] = k)[2]
\* type-strict comparison (property C15): different types: only "ne" holds
CmpVal(op, have, want) == IF have[1] = want[1] THEN Cmp(<<op, want[2]>>, have[2]) ELSE op = "ne"

RECURSIVE EvalList(_, _, _, _, _, _)
EvalData(e, d, x, dist, reading) ==
  CASE d.t = "node" -> C(x > 0)
    [] d.t = "edge" -> C(x < 0)
    [] d.t = "dist" -> DistCtl(d.c, dist)
    [] d.t = "ec"   -> C(x > 0 /\ Cmp(d.c, OutCount(e, x) + InCount(e, x)))
    [] d.t = "ecf"  -> C(x > 0 /\ Cmp(d.c, OutCount(e, x)))
    [] d.t = "ect"  -> C(x > 0 /\ Cmp(d.c, InCount(e, x)))
    [] d.t = "ids"  -> C(x \in Range(d.v))
    [] d.t = "keys" -> C(\A k \in Range(d.v) : HasK(e, x, k))
    [] d.t = "kv"   -> C(HasK(e, x, d.k) /\ CmpVal(d.c, ValOf(e, x, d.k), d.v))
    [] d.t = "where" -> EvalList(e, d.v, 1, x, dist, reading)[1]

\* fold; returns <<result>> (a 1-tuple so that it can be RECURSIVE with arity 6)
EvalStep(e, c, result, x, dist, reading) ==
  LET raw == EvalData(e, c.d, x, dist, reading)
      ctl == CASE c.m = "none" -> raw
               [] c.m = "not" -> [raw EXCEPT !.v = ~raw.v]
               [] c.m = "beyond" -> IF raw.v \/ dist = 0 THEN C(result.v) ELSE S(result.v)
               [] c.m = "notbeyond" -> IF raw.v THEN S(result.v) ELSE C(result.v)
  IN IF c.l = "and" THEN And(result, ctl) ELSE Or(result, ctl)
EvalList(e, cs, i, x, dist, reading) ==
  LET RECURSIVE F(_, _) F(j, r) == IF j > Len(cs) THEN r ELSE F(j + 1, EvalStep(e, cs[j], r, x, dist, reading))
  IN <<F(1, C(TRUE))>>
Control(e, x, dist) == EvalList(e, e.conds, 1, x, dist, "code")[1]


\* event -> record with the fields the condition operators expect
W(e) == [edges |-> e.g.edges, kvs |-> e.g.kvs, conds |-> e.conds]
Ctl(e, x, isOrigin) == EvalList(W(e), e.conds, 1, x, IF isOrigin THEN 0 ELSE 1, "code")[1]
CostOf(e, x) == LET c == Ctl(e, x, FALSE) IN IF c.k # "C" THEN 0 ELSE IF c.v THEN 1 ELSE 2
Passes(e, x, isOrigin) == Ctl(e, x, isOrigin).v
OutEdges(e, n) == {r \in Range(e.g.edges) : r[2] = n}

\* all usable node-simple paths from node a to node b: set of [elems, cost]
RECURSIVE PathsFrom(_, _, _, _, _, _)
PathsFrom(e, cur, b, seen, elems, cost) ==
  IF cur = b THEN {[elems |-> elems, cost |-> cost]}
  ELSE UNION { LET t == r[3] IN
               IF t \in seen \/ CostOf(e, r[1]) = 0 \/ CostOf(e, t) = 0 THEN {}
               ELSE PathsFrom(e, t, b, seen \cup {t}, elems \o <<r[1], t>>, cost + CostOf(e, r[1]) + CostOf(e, t))
             : r \in OutEdges(e, cur) }
AllPaths(e) == IF e.from = e.to THEN {} ELSE PathsFrom(e, e.from, e.to, {e.from}, <<e.from>>, 0)
MinCost(ps) == CHOOSE c \in {p.cost : p \in ps} : \A p \in ps : c <= p.cost
Filter(e, p) == LET RECURSIVE F(_) F(i) == IF i > Len(p) THEN <<>> ELSE (IF Passes(e, p[i], i = 1) THEN <<p[i]>> ELSE <<>>) \o F(i + 1) IN F(1)
PathOk(e) == LET ps == AllPaths(e) IN
             IF ps = {} THEN e.res = <<>>
             ELSE \E p \in ps : p.cost = MinCost(ps) /\ e.res = Filter(e, p.elems)

\* ---- slicing and ordering ---------------------------------------------------------
Slice(s, off, lim) == LET a == IF off > Len(s) THEN Len(s) ELSE off
                          z == IF lim = 0 THEN Len(s) ELSE (IF a + lim > Len(s) THEN Len(s) ELSE a + lim)
                      IN SubSeq(s, a + 1, z)
WG(e) == [edges |-> e.g.edges, kvs |-> e.g.kvs]
HasKv(e, x) == HasK(WG(e), x, "k")
KVal(e, x) == ValOf(WG(e), x, "k")[2]
\* x must not come after y
Before(e, desc, x, y) == IF HasKv(e, x) /\ HasKv(e, y) THEN (IF desc THEN KVal(e, x) > KVal(e, y) ELSE KVal(e, x) < KVal(e, y))
                         ELSE HasKv(e, x) /\ ~HasKv(e, y)
Pos(s, x) == CHOOSE i \in DOMAIN s : s[i] = x
SortedStable(e) == /\ Range(e.full) = Range(e.unordered) /\ Len(e.full) = Len(e.unordered)
                   /\ \A i, j \in DOMAIN e.full : i < j =>
                        /\ ~Before(e, e.desc, e.full[j], e.full[i])
                        /\ (~Before(e, e.desc, e.full[i], e.full[j]) => Pos(e.unordered, e.full[i]) < Pos(e.unordered, e.full[j]))
SliceOk(e) == /\ e.status = "ok"
              /\ (IF e.ordered THEN SortedStable(e) ELSE e.full = e.unordered)
              /\ e.res = Slice(e.full, e.offset, e.limit)

Init == l = 1
Next == /\ l <= Len(Rec) /\ l' = l + 1
        /\ IF Rec[l].ev = "Path" THEN PathOk(Rec[l]) ELSE SliceOk(Rec[l])
Spec == Init /\ [][Next]_l
Accepted == IF TLCGet("stats").diameter - 1 = Len(Rec) THEN TRUE
            ELSE PrintT(<<"REJECTED at event", TLCGet("stats").diameter, Rec[TLCGet("stats").diameter]>>) /\ FALSE
==============================================================================
