SPECIFICATION Spec
CONSTANTS Names = {"a", "b"}
 Keys = {"k"}
 Vals = {1, 2}
 MaxOps = 3
 MaxId = 3
 FixReplaceReturn = FALSE
 FixAliasUndo = TRUE
VIEW View
INVARIANT RollbackRestores
CHECK_DEADLOCK FALSE
