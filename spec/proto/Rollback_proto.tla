------------------------------ MODULE Rollback_proto ------------------------------
(* Prototype (round 0): DbImpl's undo stack (db.rs) for nodes, aliases and    *)
(* key-value pairs. One transaction of <= MaxOps primitive mutations, then    *)
(* Fail = rollback exactly as DbImpl::rollback does it today.                 *)
EXTENDS Integers, Sequences, FiniteSets, TLC, Json

CONSTANTS Names, Keys, Vals, MaxOps, MaxId,
          FixReplaceReturn,   \* FALSE = code today: the ReplaceKeyValue arm ends with `return Ok(())`
          FixAliasUndo        \* FALSE = code today: displaced alias mappings are not recorded

VARIABLES nodes, freeIds, kvs, alias, undo, pre, ops, phase
vars == <<nodes, freeIds, kvs, alias, undo, pre, ops, phase>>
View == <<nodes, freeIds, kvs, alias, undo, pre, phase>>

Range(s) == {s[i] : i \in DOMAIN s}
Db == [nodes |-> nodes, kvs |-> kvs, alias |-> alias]
SetAlias(al, a, i) == LET keep == {b \in DOMAIN al : b # a /\ al[b] # i} IN
                      [b \in keep \cup {a} |-> IF b = a THEN i ELSE al[b]]
DelAlias(al, a) == [b \in DOMAIN al \ {a} |-> al[b]]
AliasOf(al, i) == {a \in DOMAIN al : al[a] = i}
HasKey(s, k) == \E j \in DOMAIN s : s[j][1] = k
ReplaceKV(s, p) == [j \in DOMAIN s |-> IF s[j][1] = p[1] THEN p ELSE s[j]]
RemoveKV(s, k) == SelectSeq(s, LAMBDA p : p[1] # k)
OldKV(s, k) == s[CHOOSE j \in DOMAIN s : s[j][1] = k]

NewId(f, ns) == IF f # <<>> THEN Head(f) ELSE (CHOOSE i \in 1..MaxId : i \notin ns /\ \A j \in 1..MaxId : j \notin ns => i <= j)

\* ---- initial states: 0..2 nodes, some aliases, some values ------------------
Init ==
  /\ nodes \in {{}, {1}, {1, 2}} /\ freeIds = <<>>
  /\ kvs \in [nodes -> {<<>>, <<<<CHOOSE k \in Keys : TRUE, CHOOSE v \in Vals : TRUE>>>>}]
  /\ alias \in UNION {[S -> nodes] : S \in SUBSET Names}
  /\ \A a, b \in DOMAIN alias : a # b => alias[a] # alias[b]
  /\ undo = <<>> /\ pre = Db /\ ops = <<>> /\ phase = "tx"

Op(o) == phase = "tx" /\ Len(ops) < MaxOps /\ ops' = Append(ops, o) /\ UNCHANGED <<pre, phase>>

InsertNode ==
  LET i == NewId(freeIds, nodes) IN
  /\ (freeIds # <<>> \/ \E j \in 1..MaxId : j \notin nodes)
  /\ Op([op |-> "insert_node"])
  /\ nodes' = nodes \cup {i} /\ freeIds' = IF freeIds # <<>> THEN Tail(freeIds) ELSE freeIds
  /\ kvs' = [x \in nodes \cup {i} |-> IF x \in nodes THEN kvs[x] ELSE <<>>]
  /\ undo' = Append(undo, [c |-> "RemoveNode", id |-> i]) /\ UNCHANGED alias

\* DbImpl::insert_alias (insert aliases query)
InsertAlias(i, a) ==
  /\ i \in nodes /\ Op([op |-> "insert_alias", id |-> i, a |-> a])
  /\ LET old == AliasOf(alias, i)
         u1 == IF old # {} THEN <<[c |-> "InsertAlias", id |-> i, a |-> CHOOSE x \in old : TRUE]>> ELSE <<>>
         holder == IF a \in DOMAIN alias /\ alias[a] # i THEN <<[c |-> "InsertAlias", id |-> alias[a], a |-> a]>> ELSE <<>>
     IN undo' = undo \o u1 \o (IF FixAliasUndo THEN holder ELSE <<>>) \o <<[c |-> "RemoveAlias", a |-> a]>>
  /\ alias' = SetAlias(alias, a, i) /\ UNCHANGED <<nodes, freeIds, kvs>>

RemoveAlias(a) ==
  /\ a \in DOMAIN alias /\ Op([op |-> "remove_alias", a |-> a])
  /\ undo' = Append(undo, [c |-> "InsertAlias", id |-> alias[a], a |-> a])
  /\ alias' = DelAlias(alias, a) /\ UNCHANGED <<nodes, freeIds, kvs>>

\* insert_or_replace_key_value
PutValue(i, k, v) ==
  /\ i \in nodes /\ Op([op |-> "put_value", id |-> i, k |-> k, v |-> v])
  /\ IF HasKey(kvs[i], k)
     THEN /\ undo' = Append(undo, [c |-> "ReplaceKeyValue", id |-> i, kv |-> OldKV(kvs[i], k)])
          /\ kvs' = [kvs EXCEPT ![i] = ReplaceKV(kvs[i], <<k, v>>)]
     ELSE /\ undo' = Append(undo, [c |-> "RemoveKeyValue", id |-> i, kv |-> <<k, v>>])
          /\ kvs' = [kvs EXCEPT ![i] = Append(kvs[i], <<k, v>>)]
  /\ UNCHANGED <<nodes, freeIds, alias>>

RemoveValue(i, k) ==
  /\ i \in nodes /\ HasKey(kvs[i], k) /\ Op([op |-> "remove_value", id |-> i, k |-> k])
  /\ undo' = Append(undo, [c |-> "InsertKeyValue", id |-> i, kv |-> OldKV(kvs[i], k)])
  /\ kvs' = [kvs EXCEPT ![i] = RemoveKV(kvs[i], k)] /\ UNCHANGED <<nodes, freeIds, alias>>

\* remove_id on a node (no edges in this prototype)
RemoveNode(i) ==
  /\ i \in nodes /\ Op([op |-> "remove_node", id |-> i])
  /\ LET old == AliasOf(alias, i)
         u1 == IF old # {} THEN <<[c |-> "InsertAlias", id |-> i, a |-> CHOOSE x \in old : TRUE]>> ELSE <<>>
         u3 == [j \in DOMAIN kvs[i] |-> [c |-> "InsertKeyValue", id |-> i, kv |-> kvs[i][j]]]
     IN undo' = undo \o u1 \o <<[c |-> "InsertNode"]>> \o u3
  /\ alias' = [b \in {x \in DOMAIN alias : alias[x] # i} |-> alias[b]]
  /\ nodes' = nodes \ {i} /\ freeIds' = <<i>> \o freeIds
  /\ kvs' = [x \in nodes \ {i} |-> kvs[x]]

\* ---- DbImpl::rollback -----------------------------------------------------------
ApplyUndo(s, c) ==
  CASE c.c = "InsertAlias" -> [s EXCEPT !.alias = SetAlias(s.alias, c.a, c.id)]
    [] c.c = "RemoveAlias" -> [s EXCEPT !.alias = IF c.a \in DOMAIN s.alias THEN DelAlias(s.alias, c.a) ELSE s.alias]
    [] c.c = "RemoveNode"  -> [s EXCEPT !.nodes = s.nodes \ {c.id}, !.free = <<c.id>> \o s.free,
                                        !.kvs = [x \in DOMAIN s.kvs \ {c.id} |-> s.kvs[x]]]
    [] c.c = "InsertNode"  -> LET i == NewId(s.free, s.nodes) IN
                              [s EXCEPT !.nodes = s.nodes \cup {i}, !.free = IF s.free # <<>> THEN Tail(s.free) ELSE s.free,
                                        !.kvs = [x \in DOMAIN s.kvs \cup {i} |-> IF x \in DOMAIN s.kvs THEN s.kvs[x] ELSE <<>>]]
    [] c.c = "InsertKeyValue" -> [s EXCEPT !.kvs = [x \in DOMAIN s.kvs \cup {c.id} |->
                                     IF x = c.id THEN Append(IF x \in DOMAIN s.kvs THEN s.kvs[x] ELSE <<>>, c.kv) ELSE s.kvs[x]]]
    [] c.c = "RemoveKeyValue" -> [s EXCEPT !.kvs = [s.kvs EXCEPT ![c.id] = RemoveKV(s.kvs[c.id], c.kv[1])]]
    [] c.c = "ReplaceKeyValue" -> [s EXCEPT !.kvs = [s.kvs EXCEPT ![c.id] = ReplaceKV(s.kvs[c.id], c.kv)]]

RECURSIVE Unwind(_, _)
Unwind(s, u) == IF u = <<>> THEN s
                ELSE LET c == u[Len(u)]
                         s1 == ApplyUndo(s, c) IN
                     IF c.c = "ReplaceKeyValue" /\ ~FixReplaceReturn THEN s1      \* early return
                     ELSE Unwind(s1, SubSeq(u, 1, Len(u) - 1))

Fail ==
  /\ phase = "tx" /\ ops # <<>>
  /\ LET r == Unwind([nodes |-> nodes, free |-> freeIds, kvs |-> kvs, alias |-> alias], undo) IN
     /\ nodes' = r.nodes /\ freeIds' = r.free /\ kvs' = r.kvs /\ alias' = r.alias
  /\ undo' = <<>> /\ phase' = "rolledback" /\ UNCHANGED <<pre, ops>>

Next == \/ InsertNode \/ Fail
        \/ \E i \in 1..MaxId, a \in Names : InsertAlias(i, a)
        \/ \E a \in Names : RemoveAlias(a)
        \/ \E i \in 1..MaxId, k \in Keys, v \in Vals : PutValue(i, k, v)
        \/ \E i \in 1..MaxId, k \in Keys : RemoveValue(i, k)
        \/ \E i \in 1..MaxId : RemoveNode(i)
Spec == Init /\ [][Next]_vars

SameUpToOrder(a, b) == /\ a.nodes = b.nodes /\ a.alias = b.alias
                       /\ \A i \in a.nodes : Range(a.kvs[i]) = Range(b.kvs[i]) /\ Len(a.kvs[i]) = Len(b.kvs[i])
RollbackRestores == phase = "rolledback" => SameUpToOrder(Db, pre)

\* one JSON test case per Fail transition (MBT export)
Export == (phase = "tx" /\ phase' = "rolledback") =>
            PrintT(<<"CASE", ToJson([pre |-> pre, ops |-> ops, post |-> [nodes |-> nodes', kvs |-> kvs', alias |-> alias']])>>)
==============================================================================
