------------------------------ MODULE SearchRef_proto ------------------------------
(* Prototype (round 0): reference BFS/DFS over elements (nodes and edges),     *)
(* newest-connected edge first; validates recorded searches of the real DB.   *)
EXTENDS Integers, Sequences, FiniteSets, TLC, Json, IOUtils

Rec == ndJsonDeserialize(IOEnv.TRACE)
VARIABLE l

Range(s) == {s[i] : i \in DOMAIN s}
Rev(s) == [i \in 1..Len(s) |-> s[Len(s) + 1 - i]]
RECURSIVE SelectSeq2(_, _)
\* edges are given in creation order as <<id, from, to>>; newest first = reversed
OutE(es, n) == LET RECURSIVE F(_) F(i) == IF i = 0 THEN <<>> ELSE (IF es[i][2] = n THEN <<es[i][1]>> ELSE <<>>) \o F(i - 1) IN F(Len(es))
InE(es, n)  == LET RECURSIVE F(_) F(i) == IF i = 0 THEN <<>> ELSE (IF es[i][3] = n THEN <<es[i][1]>> ELSE <<>>) \o F(i - 1) IN F(Len(es))
SelectSeq2(s, t) == s
EdgeRec(es, e) == CHOOSE x \in Range(es) : x[1] = e
Succ(es, x, dir) == IF x > 0 THEN (IF dir = "fwd" THEN OutE(es, x) ELSE InE(es, x))
                    ELSE (IF dir = "fwd" THEN <<EdgeRec(es, x)[3]>> ELSE <<EdgeRec(es, x)[2]>>)

RECURSIVE Bfs(_, _, _, _, _)
Bfs(es, dir, queue, visited, res) ==
  IF queue = <<>> THEN res
  ELSE LET x == Head(queue) IN
       IF x \in visited THEN Bfs(es, dir, Tail(queue), visited, res)
       ELSE Bfs(es, dir, Tail(queue) \o Succ(es, x, dir), visited \cup {x}, Append(res, x))

\* preorder DFS: returns [res, vis]
RECURSIVE DfsV(_, _, _, _)
RECURSIVE DfsL(_, _, _, _)
DfsV(es, dir, x, st) == IF x \in st.vis THEN st
                        ELSE DfsL(es, dir, Succ(es, x, dir), [res |-> Append(st.res, x), vis |-> st.vis \cup {x}])
DfsL(es, dir, xs, st) == IF xs = <<>> THEN st ELSE DfsL(es, dir, Tail(xs), DfsV(es, dir, Head(xs), st))

Expected(e) == IF e.alg = "bfs" THEN Bfs(e.edges, e.dir, <<e.origin>>, {}, <<>>)
               ELSE DfsV(e.edges, e.dir, e.origin, [res |-> <<>>, vis |-> {}]).res

Init == l = 1
Next == /\ l <= Len(Rec) /\ Rec[l].ev = "Search"
        /\ Rec[l].res = Expected(Rec[l])
        /\ l' = l + 1
Spec == Init /\ [][Next]_l
Accepted == IF TLCGet("stats").diameter - 1 = Len(Rec) THEN TRUE
            ELSE LET e == Rec[TLCGet("stats").diameter] IN
                 PrintT(<<"REJECTED at event", TLCGet("stats").diameter, e, "expected", Expected(e)>>) /\ FALSE
==============================================================================
