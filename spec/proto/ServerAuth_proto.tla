------------------------------ MODULE ServerAuth_proto ------------------------------
(* Prototype (round 0): users, tokens, databases, roles and the documented      *)
(* permission table of agdb_server; validates recorded HTTP request traces.     *)
EXTENDS Integers, Sequences, FiniteSets, TLC, Json, IOUtils

Rec == ndJsonDeserialize(IOEnv.TRACE)
VARIABLES l, users, tokens, dbs, roles, ver
vars == <<l, users, tokens, dbs, roles, ver>>
\* users: set of names (the server admin "admin" always exists)
\* tokens: token string -> user;  dbs: set of <<owner, name>>
\* roles: <<user, owner, name>> -> "read" | "write" | "admin" (owners are implicit admins)
\* ver: <<owner, name>> -> number of applied mutating batches

Rank(r) == CASE r = "read" -> 1 [] r = "write" -> 2 [] r = "admin" -> 3 [] OTHER -> 0
RoleOf(u, d) == IF d \notin dbs THEN "none"
                ELSE IF u = d[1] THEN "admin"
                ELSE IF <<u, d[1], d[2]>> \in DOMAIN roles THEN roles[<<u, d[1], d[2]>>] ELSE "none"
Has(u, d, need) == Rank(RoleOf(u, d)) >= Rank(need)
Valid(t) == t \in DOMAIN tokens /\ tokens[t] \in users \cup {"admin"}
Ok(s) == s >= 200 /\ s < 300
Same == UNCHANGED <<users, tokens, dbs, roles, ver>>
Drop(f, S) == [x \in DOMAIN f \ S |-> f[x]]

\* documented permission (02.server.md): what the caller needs for each operation
Need(e) == CASE e.op \in {"exec", "audit", "copy", "db_user_list"} -> "read"
             [] e.op \in {"exec_mut", "optimize"} -> "write"
             [] e.op \in {"backup", "restore", "clear", "convert", "db_user_add", "db_user_remove"} -> "admin"
             [] OTHER -> "owner"
Permitted(e, u) ==
  CASE e.op = "admin_user_add" \/ e.op = "admin_user_delete" -> u = "admin"
    [] e.op = "db_add" -> u = e.owner
    [] Need(e) = "owner" -> u = e.owner /\ <<e.owner, e.db>> \in dbs
    [] e.op = "db_user_remove" -> Has(u, <<e.owner, e.db>>, "admin") \/ (u = e.user /\ Has(u, <<e.owner, e.db>>, "read"))
    [] OTHER -> Has(u, <<e.owner, e.db>>, Need(e))

\* effect of a successful request
Effect(e, u) ==
  CASE e.op = "admin_user_add" -> users' = users \cup {e.user} /\ UNCHANGED <<tokens, dbs, roles, ver>>
    [] e.op = "admin_user_delete" ->
         /\ users' = users \ {e.user}
         /\ tokens' = Drop(tokens, {t \in DOMAIN tokens : tokens[t] = e.user})
         /\ dbs' = {d \in dbs : d[1] # e.user}
         /\ roles' = Drop(roles, {k \in DOMAIN roles : k[1] = e.user \/ k[2] = e.user})
         /\ ver' = Drop(ver, {d \in DOMAIN ver : d[1] = e.user})
    [] e.op = "db_add" -> /\ <<e.owner, e.db>> \notin dbs /\ dbs' = dbs \cup {<<e.owner, e.db>>}
                          /\ ver' = (<<e.owner, e.db>> :> 0) @@ ver /\ UNCHANGED <<users, tokens, roles>>
    [] e.op = "db_delete" -> /\ dbs' = dbs \ {<<e.owner, e.db>>}
                             /\ roles' = Drop(roles, {k \in DOMAIN roles : k[2] = e.owner /\ k[3] = e.db})
                             /\ ver' = Drop(ver, {<<e.owner, e.db>>}) /\ UNCHANGED <<users, tokens>>
    [] e.op = "db_user_add" -> /\ e.user \in users \cup {"admin"} /\ e.user # e.owner
                               /\ roles' = (<<e.user, e.owner, e.db>> :> e.role) @@ roles
                               /\ UNCHANGED <<users, tokens, dbs, ver>>
    [] e.op = "db_user_remove" -> /\ e.user # e.owner
                                  /\ roles' = Drop(roles, {<<e.user, e.owner, e.db>>}) /\ UNCHANGED <<users, tokens, dbs, ver>>
    [] e.op = "exec_mut" -> /\ ver' = [ver EXCEPT ![<<e.owner, e.db>>] = @ + (IF e.mutating THEN 1 ELSE 0)]
                            /\ UNCHANGED <<users, tokens, dbs, roles>>
    [] e.op = "exec" -> ~e.mutating /\ Same
    [] OTHER -> Same

IsEvent(n) == l <= Len(Rec) /\ Rec[l].ev = n /\ l' = l + 1
Login == IsEvent("login") /\ LET e == Rec[l] IN
           IF Ok(e.status) THEN /\ e.user \in users \cup {"admin"}
                                /\ tokens' = (e.token :> e.user) @@ tokens /\ UNCHANGED <<users, dbs, roles, ver>>
           ELSE Same
Logout == IsEvent("logout") /\ LET e == Rec[l] IN
           IF Ok(e.status) THEN Valid(e.caller) /\ tokens' = Drop(tokens, {e.caller}) /\ UNCHANGED <<users, dbs, roles, ver>>
           ELSE ~Valid(e.caller) /\ Same
Req == IsEvent("req") /\ LET e == Rec[l] IN
         IF ~Valid(e.caller) THEN e.status = 401 /\ Same                       \* no valid token: rejected, no effect
         ELSE LET u == tokens[e.caller] IN
              IF Ok(e.status) THEN Permitted(e, u) /\ Effect(e, u)             \* performed => permitted
              ELSE IF ~Permitted(e, u) THEN Same                               \* not permitted => rejected, no effect
              ELSE Same                                                        \* permitted but failed for another reason
\* observation of the content version through an admin read (does not change state)
Obs == IsEvent("obs") /\ Same /\ LET e == Rec[l] IN
         /\ {<<d[1], d[2]>> : d \in {e.dbs[i] : i \in DOMAIN e.dbs}} = dbs
         /\ \A i \in DOMAIN e.dbs : ver[<<e.dbs[i][1], e.dbs[i][2]>>] = e.dbs[i][3]

Init == l = 1 /\ users = {} /\ tokens = << >> /\ dbs = {} /\ roles = << >> /\ ver = << >>
Next == Login \/ Logout \/ Req \/ Obs
Spec == Init /\ [][Next]_vars
Accepted == IF TLCGet("stats").diameter - 1 = Len(Rec) THEN TRUE
            ELSE PrintT(<<"REJECTED at event", TLCGet("stats").diameter, Rec[TLCGet("stats").diameter]>>) /\ FALSE
==============================================================================
