----------------------------- MODULE SharedRead_proto -----------------------------
(* Prototype (round 0): FileStorage::read — one shared file handle (cursor)   *)
(* guarded by try_lock, fresh handle when the lock is taken.                  *)
EXTENDS Naturals, Sequences, FiniteSets, TLC
CONSTANTS Readers, Positions,
          LockCoversRead   \* TRUE = code today: the guard lives until read_exact returned
VARIABLES pc, want, cursor, holder, got
vars == <<pc, want, cursor, holder, got>>
None == 99
Init == /\ pc = [r \in Readers |-> "idle"] /\ want = [r \in Readers |-> 0]
        /\ cursor = 0 /\ holder = None /\ got = [r \in Readers |-> None]
Start(r, p) == /\ pc[r] = "idle" /\ want' = [want EXCEPT ![r] = p] /\ got' = [got EXCEPT ![r] = None]
               /\ IF holder = None THEN holder' = r /\ pc' = [pc EXCEPT ![r] = "locked"]
                                   ELSE UNCHANGED holder /\ pc' = [pc EXCEPT ![r] = "fresh"]
               /\ UNCHANGED cursor
SeekShared(r) == /\ pc[r] = "locked" /\ cursor' = want[r] /\ pc' = [pc EXCEPT ![r] = "seeked"]
                 /\ holder' = (IF LockCoversRead THEN holder ELSE None)
                 /\ UNCHANGED <<want, got>>
ReadShared(r) == /\ pc[r] = "seeked" /\ got' = [got EXCEPT ![r] = cursor] /\ pc' = [pc EXCEPT ![r] = "idle"]
                 /\ holder' = (IF holder = r THEN None ELSE holder) /\ UNCHANGED <<want, cursor>>
ReadFresh(r) == /\ pc[r] = "fresh" /\ got' = [got EXCEPT ![r] = want[r]] /\ pc' = [pc EXCEPT ![r] = "idle"]
                /\ UNCHANGED <<want, cursor, holder>>
Next == \E r \in Readers : (\E p \in Positions : Start(r, p)) \/ SeekShared(r) \/ ReadShared(r) \/ ReadFresh(r)
Spec == Init /\ [][Next]_vars
ReadsOwnPosition == \A r \in Readers : (pc[r] = "idle" /\ got[r] # None) => got[r] = want[r]
==============================================================================
