SPECIFICATION Spec
CONSTANTS Byte = {7, 8}
 MaxLen = 4
 MaxOps = 3
 MaxDepth = 2
 ReplayOrder = "forward"
 SkipEmptyWrite = TRUE
 GrowLogsOldLen = TRUE
 AllowStraddle = FALSE
INVARIANT RecoverOK
INVARIANT IdleClean
CHECK_DEADLOCK FALSE
