------------------------------ MODULE WalStorage_proto ------------------------------
(* Prototype (round 0): FileStorage + WriteAheadLog at system-call grain.      *)
EXTENDS Naturals, Sequences, FiniteSets, TLC

CONSTANTS Byte, MaxLen, MaxOps, MaxDepth,
          ReplayOrder,      \* "forward" (code today) | "reverse"
          SkipEmptyWrite,   \* FALSE (code today): a zero-length write is logged as (pos, <<>>)
          GrowLogsOldLen,   \* FALSE (code today): growing resize logs the NEW length
          AllowStraddle     \* writes that start inside the file and end beyond it (the Storage layer never issues them)

VARIABLES data, wal, torn, depth, committed, pc, cur, nops
vars == <<data, wal, torn, depth, committed, pc, cur, nops>>

Min(a, b) == IF a < b THEN a ELSE b
Max(a, b) == IF a > b THEN a ELSE b

\* write bytes b at 0-based position p into d (zero fill if p beyond the end)
Patch(d, p, b) ==
  LET n == Max(Len(d), p + Len(b)) IN
  [i \in 1..n |-> IF i > p /\ i <= p + Len(b) THEN b[i - p]
                  ELSE IF i <= Len(d) THEN d[i] ELSE 0]

SetLen(d, n) == [i \in 1..n |-> IF i <= Len(d) THEN d[i] ELSE 0]

ApplyRec(d, r) == IF r.bytes = <<>> THEN SetLen(d, r.pos) ELSE Patch(d, r.pos, r.bytes)

RECURSIVE Fwd(_, _)
Fwd(d, w) == IF w = <<>> THEN d ELSE Fwd(ApplyRec(d, Head(w)), Tail(w))
RECURSIVE Rev(_, _)
Rev(d, w) == IF w = <<>> THEN d ELSE Rev(ApplyRec(d, w[Len(w)]), SubSeq(w, 1, Len(w) - 1))

\* what FileStorage::new yields for the crash image (torn tail discarded by repair)
Recovered == IF ReplayOrder = "forward" THEN Fwd(data, wal) ELSE Rev(data, wal)

Init == /\ data \in {<<>>, <<1>>, <<1, 2>>} /\ wal = <<>> /\ torn = FALSE /\ depth = 0
        /\ committed = data /\ pc = "idle" /\ cur = <<>> /\ nops = 0

Begin == /\ pc = "idle" /\ depth < MaxDepth /\ depth' = depth + 1
         /\ UNCHANGED <<data, wal, torn, committed, pc, cur, nops>>

End == /\ pc = "idle" /\ depth > 0 /\ depth' = depth - 1
       /\ IF depth = 1 THEN wal' = <<>> /\ committed' = data   \* flush: clear the log
                       ELSE UNCHANGED <<wal, committed>>
       /\ UNCHANGED <<data, torn, pc, cur, nops>>

\* StorageData::write(pos, bytes)
StartWrite(p, b) ==
  /\ pc = "idle" /\ depth > 0 /\ nops < MaxOps
  /\ p <= Len(data) /\ p + Len(b) <= MaxLen
  /\ AllowStraddle \/ p = Len(data) \/ p + Len(b) <= Len(data)
  /\ nops' = nops + 1
  /\ IF b = <<>> /\ SkipEmptyWrite
     THEN UNCHANGED <<pc, cur, torn>>
     ELSE /\ cur' = [op |-> "write", pos |-> p, bytes |-> b,
                     rec |-> [pos |-> p, bytes |-> SubSeq(data, p + 1, Min(Len(data), p + Len(b)))]]
          /\ pc' = "wal" /\ torn' = TRUE      \* first of the three WAL write_all calls has started
  /\ UNCHANGED <<data, wal, depth, committed>>

\* StorageData::resize(n)
StartResize(n) ==
  /\ pc = "idle" /\ depth > 0 /\ nops < MaxOps /\ n <= MaxLen
  /\ nops' = nops + 1
  /\ cur' = [op |-> "resize", pos |-> n, bytes |-> <<>>,
             rec |-> IF n < Len(data) THEN [pos |-> n, bytes |-> SubSeq(data, n + 1, Len(data))]
                     ELSE [pos |-> (IF GrowLogsOldLen THEN Len(data) ELSE n), bytes |-> <<>>]]
  /\ pc' = "wal" /\ torn' = TRUE
  /\ UNCHANGED <<data, wal, depth, committed>>

WalDone == /\ pc = "wal" /\ wal' = Append(wal, cur.rec) /\ torn' = FALSE /\ pc' = "data"
           /\ UNCHANGED <<data, depth, committed, cur, nops>>

DataDone == /\ pc = "data"
            /\ data' = IF cur.op = "write" THEN Patch(data, cur.pos, cur.bytes) ELSE SetLen(data, cur.pos)
            /\ pc' = "idle" /\ cur' = <<>>
            /\ UNCHANGED <<wal, torn, depth, committed, nops>>

Bytes == {<<>>} \cup {<<x>> : x \in Byte} \cup {<<x, y>> : x \in Byte, y \in Byte}

Next == \/ Begin \/ End \/ WalDone \/ DataDone
        \/ \E p \in 0..MaxLen, b \in Bytes : StartWrite(p, b)
        \/ \E n \in 0..MaxLen : StartResize(n)

Spec == Init /\ [][Next]_vars

\* a crash can happen in ANY state: recovery must give the last committed content
RecoverOK == Recovered = committed
IdleClean == (depth = 0 /\ pc = "idle") => (wal = <<>> /\ data = committed)
================================================================================
