use std::{env, fs, path::PathBuf};
fn main() {
    let src = "/repo/agdb_server/src/raft.rs";
    println!("cargo:rerun-if-changed={src}");
    let mut text = fs::read_to_string(src).unwrap();
    let needle = "use std::time::Instant;";
    assert!(text.contains(needle));
    text = text.replace(needle, "use crate::vclock::Instant;");
    text.push_str(r#"
impl<T: Clone, N, S: Storage<T, N>> Cluster<T, N, S> {
    pub(crate) fn verif_view(&self) -> (String, u64) { (format!("{:?}", self.state), self.term) }
}
"#);
    fs::write(PathBuf::from(env::var("OUT_DIR").unwrap()).join("raft.rs"), text).unwrap();
}
