#![allow(dead_code)]
mod server_error {
    #[derive(Debug)] pub struct ServerError { pub description: String }
    pub type ServerResult<T = ()> = Result<T, ServerError>;
}
mod vclock {
    use std::cell::Cell; use std::time::Duration;
    thread_local!{ pub static NOW: Cell<u64> = Cell::new(0); }
    #[derive(Clone, Copy, Debug)] pub struct Instant(u64);
    impl Instant { pub fn now() -> Self { Instant(NOW.with(|n| n.get())) }
                   pub fn elapsed(&self) -> Duration { Duration::from_millis(NOW.with(|n| n.get()).saturating_sub(self.0)) } }
}
mod raft { include!(concat!(env!("OUT_DIR"), "/raft.rs")); }
use raft::*; use server_error::ServerResult; use std::time::Duration;

#[derive(Default)] struct Mem { logs: Vec<Log<u8>>, commit: u64 }
impl Storage<u8, ()> for Mem {
    async fn append(&mut self, log: Log<u8>, _n: Option<()>) -> ServerResult<()> { let c = self.commit; self.logs.retain(|l| l.index < log.index || l.index <= c); self.logs.push(log); Ok(()) }
    async fn commit(&mut self, index: u64) -> ServerResult<()> { self.commit = index; Ok(()) }
    fn log_index(&self) -> u64 { self.logs.last().map(|l| l.index).unwrap_or(0) }
    fn log_term(&self) -> u64 { self.logs.last().map(|l| l.term).unwrap_or(0) }
    fn log_commit(&self) -> u64 { self.commit }
    async fn logs(&self, from: u64) -> ServerResult<Vec<Log<u8>>> { Ok(self.logs.iter().filter(|l| l.index > from).cloned().collect()) }
}
fn block_on<F: std::future::Future>(f: F) -> F::Output {
    use std::task::{Context, Poll, RawWaker, RawWakerVTable, Waker};
    fn raw() -> RawWaker { fn no(_: *const ()) {} fn cl(_: *const ()) -> RawWaker { raw() } static VT: RawWakerVTable = RawWakerVTable::new(cl, no, no, no); RawWaker::new(std::ptr::null(), &VT) }
    let w = unsafe { Waker::from_raw(raw()) }; let mut cx = Context::from_waker(&w); let mut f = std::pin::pin!(f);
    match f.as_mut().poll(&mut cx) { Poll::Ready(v) => v, Poll::Pending => panic!("pending") }
}
type Node = Cluster<u8, (), Mem>;
struct Sim { nodes: Vec<Node>, clock: Vec<u64> }
impl Sim {
    fn new(n: u64) -> Self { vclock::NOW.with(|c| c.set(0)); Sim { nodes: (0..n).map(|i| Cluster::new(Mem::default(), ClusterSettings { index: i, size: n, hash: 1, election_factor_ms: 1000, heartbeat_timeout: Duration::from_millis(1000), term_timeout: Duration::from_millis(3000) })).collect(), clock: vec![0; n as usize] } }
    fn at(&self, n: usize) { vclock::NOW.with(|c| c.set(self.clock[n])); }
    fn process(&mut self, n: usize, advance: u64) -> Vec<Request<u8>> { self.clock[n] += advance; self.at(n); self.nodes[n].process().unwrap_or_default() }
    fn rpc(&mut self, r: &Request<u8>) -> Vec<Request<u8>> {
        let t = r.target as usize; self.at(t); let resp = block_on(self.nodes[t].request(r));
        let s = r.index as usize; self.at(s); block_on(self.nodes[s].response(r, &resp)).unwrap().unwrap_or_default()
    }
    fn show(&self, tag: &str) { println!("{tag}: {:?}", self.nodes.iter().map(|n| n.verif_view()).collect::<Vec<_>>()); }
}
fn pick(v: &mut Vec<Request<u8>>, target: u64) -> Request<u8> { let i = v.iter().position(|r| r.target == target).unwrap(); v.remove(i) }
fn main() {
    let mut s = Sim::new(3);
    let mut pv1 = s.process(1, 1000);
    let mut pv0 = s.process(0, 0);
    s.show("after pre-elections");
    let mut v1 = s.rpc(&pick(&mut pv1, 2));
    let mut v0 = s.rpc(&pick(&mut pv0, 2));
    s.show("both candidates");
    let _hb0 = s.rpc(&pick(&mut v0, 2));
    s.show("0 elected");
    let _ = s.process(2, 3001);
    s.show("2 timed out");
    let _hb1 = s.rpc(&pick(&mut v1, 2));
    s.show("final");
    println!("---- scenario 2: commit disagreement (no previous-entry check) ----");
    let mut s = Sim::new(3);
    let logs = |s: &Sim| s.nodes.iter().map(|n| (n.storage.logs.iter().map(|l| (l.index, l.term, l.data)).collect::<Vec<_>>(), n.storage.commit)).collect::<Vec<_>>();
    let mut pv0 = s.process(0, 0);
    let mut v0 = s.rpc(&pick(&mut pv0, 1));          // 1 grants pre-vote -> 0 Candidate(1)
    let mut hb = s.rpc(&pick(&mut v0, 1));           // 1 votes -> 0 Leader(1)
    let _ = s.rpc(&pick(&mut hb, 1)); let _ = s.rpc(&pick(&mut hb, 2));   // heartbeats: 1 and 2 follow 0, term 1
    s.show("0 leads term 1");
    s.at(0); let _lost = block_on(s.nodes[0].append(7, None)).unwrap();   // (1,t1) appended at 0, both Append requests lost
    let _ = s.process(1, 3001);                      // 1: term timeout -> Election
    let _ = s.process(2, 3001);                      // 2: term timeout -> Election
    let mut pv2 = s.process(2, 2000);                // 2: election timeout -> PreVote(term 2)
    let mut v2 = s.rpc(&pick(&mut pv2, 1));          // 1 grants -> 2 Candidate(2)
    let mut hb2 = s.rpc(&pick(&mut v2, 1));          // 1 votes -> 2 Leader(2)
    let _ = s.rpc(&pick(&mut hb2, 1));
    s.show("2 leads term 2");
    s.at(2); let mut a1 = block_on(s.nodes[2].append(8, None)).unwrap();  // (1,t2)
    let _ = s.rpc(&pick(&mut a1, 1));                // delivered to 1 only; the copy for 0 is lost
    s.at(2); let mut a2 = block_on(s.nodes[2].append(9, None)).unwrap();  // (2,t2)
    let mut hb3 = s.rpc(&pick(&mut a2, 0));          // 0 accepts entry 2 on top of its own (1,t1)
    println!("after append 2 at node 0: {:?}", logs(&s));
    if hb3.is_empty() { let mut x = s.rpc(&pick(&mut a2, 1)); hb3.append(&mut x); }
    let _ = s.rpc(&pick(&mut hb3, 0));               // heartbeat with commit -> 0 commits
    s.show("end");
    println!("logs/commit: {:?}", logs(&s));
}
