import json, os, random, subprocess, sys, time, urllib.request, urllib.error, shutil
seed=int(sys.argv[1]); n=int(sys.argv[2]); port=43000+seed%500
random.seed(seed)
d=f"/tmp/sa/srv{seed}"; shutil.rmtree(d, ignore_errors=True); os.makedirs(d)
open(f"{d}/agdb_server.yaml","w").write(f"""bind: "127.0.0.1:{port}"
address: "http://127.0.0.1:{port}"
basepath: ""
static_roots: []
admin: admin
token_expiry_seconds: 3600
data_dir: agdb_server_data
log_level: OFF
log_body_limit: 10240
request_body_limit: 10485760
pepper_path: ""
tls_certificate: ""
tls_key: ""
tls_root: ""
cluster_token: cluster
cluster_heartbeat_timeout_ms: 1000
cluster_term_timeout_ms: 3000
cluster_election_factor_ms: 1000
cluster: []
""")
p=subprocess.Popen(["/repo/target/debug/agdb_server"],cwd=d,stdout=subprocess.DEVNULL,stderr=subprocess.DEVNULL)
base=f"http://127.0.0.1:{port}/api/v1"
def call(method,path,token=None,body=None):
    req=urllib.request.Request(base+path,method=method,data=(json.dumps(body).encode() if body is not None else None))
    req.add_header("Content-Type","application/json")
    if token: req.add_header("Authorization","Bearer "+token)
    try:
        with urllib.request.urlopen(req,timeout=10) as r: return r.status, r.read().decode()
    except urllib.error.HTTPError as e: return e.code, e.read().decode()
for _ in range(50):
    try:
        if call("GET","/status")[0]==200: break
    except Exception: time.sleep(0.2)
out=open(sys.argv[3],"w")
def log(o): out.write(json.dumps(o)+"\n")
users=["user1","user2"]; dbn=["d1","d2"]; toks={}
def login(u):
    s,b=call("POST","/user/login",None,{"username":u,"password":u+"password"} if u!="admin" else {"username":"admin","password":"admin"})
    t=b.strip('"') if s==200 else ""
    log({"ev":"login","user":u,"status":s,"token":t if t else "none"})
    if t: toks.setdefault(u,[]).append(t)
    return t
login("admin"); admin=toks["admin"].pop()  # observer token: never handed to the random requests
login("admin")
READ={"Search":{"algorithm":"Elements","origin":{"Id":0},"destination":{"Id":0},"limit":0,"offset":0,"order_by":[],"conditions":[]}}
MUT={"InsertNodes":{"count":1,"values":{"Single":[]},"aliases":[],"ids":{"Ids":[]}}}
def observe():
    s,b=call("GET","/admin/db/list",admin)
    lst=[]
    for db in json.loads(b):
        s2,b2=call("POST",f"/admin/db/{db['owner']}/{db['db']}/exec",admin,[{"SelectNodeCount":{}}])
        lst.append([db['owner'],db['db'],json.loads(b2)[0]["result"]])
    log({"ev":"obs","dbs":lst})
for i in range(n):
    caller_user=random.choice(users+["admin","nobody"])
    tl=toks.get(caller_user,[])
    tok=random.choice(tl) if tl and random.random()<0.9 else "bogus-token"
    op=random.choice(["admin_user_add","admin_user_delete","login","logout","db_add","db_delete","db_user_add","db_user_remove","exec","exec_mut","exec_mut","exec","optimize","audit","backup","copy_skip"])
    owner=random.choice(users); db=random.choice(dbn); tu=random.choice(users)
    e={"ev":"req","op":op,"caller":tok,"owner":owner,"db":db,"user":tu}
    if op=="login": login(random.choice(users+["admin"])); continue
    if op=="logout":
        s,_=call("POST","/user/logout",tok); log({"ev":"logout","caller":tok,"status":s}); continue
    if op=="copy_skip": continue
    if op=="admin_user_add": s,_=call("POST",f"/admin/user/{tu}/add",tok,{"password":tu+"password"})
    elif op=="admin_user_delete": s,_=call("DELETE",f"/admin/user/{tu}/delete",tok)
    elif op=="db_add": s,_=call("POST",f"/db/{owner}/{db}/add?db_type=memory",tok)
    elif op=="db_delete": s,_=call("DELETE",f"/db/{owner}/{db}/delete",tok)
    elif op=="db_user_add":
        e["role"]=random.choice(["read","write","admin"]); s,_=call("PUT",f"/db/{owner}/{db}/user/{tu}/add?db_role={e['role']}",tok)
    elif op=="db_user_remove": s,_=call("DELETE",f"/db/{owner}/{db}/user/{tu}/remove",tok)
    elif op=="exec":
        e["mutating"]=random.random()<0.3; s,_=call("POST",f"/db/{owner}/{db}/exec",tok,[MUT if e["mutating"] else READ])
    elif op=="exec_mut":
        e["mutating"]=random.random()<0.7; s,_=call("POST",f"/db/{owner}/{db}/exec_mut",tok,[MUT if e["mutating"] else READ])
    elif op=="optimize": s,_=call("POST",f"/db/{owner}/{db}/optimize",tok)
    elif op=="audit": s,_=call("GET",f"/db/{owner}/{db}/audit",tok)
    elif op=="backup": s,_=call("POST",f"/db/{owner}/{db}/backup",tok)
    e["status"]=s; log(e)
    if i%5==0: observe()
observe(); out.close()
call("POST","/admin/shutdown",admin); time.sleep(0.3); p.kill()
